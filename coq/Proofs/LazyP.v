(* LazyP.v -- laziness of setup-tasks (property C11, first sentence), serial runner.

   WHAT "on behalf of" MEANS.  A node (ExecNode) is created for a task x only for one of three reasons
   (TaskDispatcher._get_next_node / _add_task):
     - x is in the selection (tasks_to_run),
     - x is in the task_dep / calc_dep list of a task p that has a node (declared, or merged in from the saved
       values of one of p's calc_dep tasks),
     - x is a setup-task of a task r whose generator reached `for setup_task in setup_tasks`, which it does only
       when r's run_status is 'run' after r's first selection (Runner.select_task); r then waits for x.
   Invariant LW (below): every existing node is `W`-justified by a chain of such edges that starts in the
   selection; a setup edge r -> x carries the trace fact  Rn_of tr r x = "r was status-checked (EGetStatus r) and
   [r has no final report yet, or x has one already]" (r gets its final report only after all its setup-tasks
   have theirs).  At a moment where x is not finished the chain consists of unfinished tasks only (a finished
   task has only finished dependencies, DispatchInv.Inv), which gives the statements in trace terms:

     serial_lazy        trace = pre ++ EExecute s :: post     ->  wanted selection pre s
     serial_lazy_check  trace = pre ++ EGetStatus s :: post   ->  wanted selection pre s

   `wanted sel pre s`: there is a chain from a selected task to s, through tasks WITHOUT a final report
   (success, failure of any kind incl. unmet dependency / check error, up-to-date, ignored) in pre, along
     - task_dep / calc_dep edges p -> x (`hdep`: declared, or returned by one of p's transitive calc_deps), and
     - setup edges r -> x with  EGetStatus r in pre: r went through its status check and, having no report,
       its verdict was 'run' -- the only verdict select_task gives without reporting.
   Corollaries (serial_lazy_setup_only, serial_lazy_not_uptodate): a task that is executed although it is neither
   selected nor a task_dep / calc_dep of anything is a setup-task of some task r that was status-checked and
   not yet skipped / failed when s started -- and that r is not reported up-to-date anywhere in the run.

   NOT covered here: (1) `hdep` over-approximates the effective dependencies: the results of a calc_dep count
   whether or not its saved values were visible; (2) that r is "really going to execute" is meant at the time s
   starts: r can still end as ignored / unmet later, because ANOTHER setup-task of r is ignored or fails, or fail in
   _get_task_args -- that is what the code does (see the examples in Properties/C11.v); (3) the first-selection
   verdicts `ignored` / `unmet dependency` / `check error` cannot be told from the second-selection ones in the
   trace; the theorem excludes every final report of r before s starts, which covers all of them;
   (4) delayed task creation (Delayed.v) is not part of this dispatcher model; (5) liveness (that s does run when
   r runs) -- the order is C11_setup_before_task.  The parallel runners: LazyParP.v. *)
From DoitV Require Import Base Dispatch Runner DispatchP DispatchInv RunnerTr RunnerP AncP.
Open Scope N_scope.

(* the dependency lists of a node *)
Definition lists (nd : node) : list name := n_all_task nd ++ n_all_calc nd.
(* the task has a node (TaskDispatcher.nodes) *)
Definition exn (d : dstate) (x : name) : Prop := d_nodes d x <> None.

Lemma exn_set_node d k nd z : exn (set_node d k nd) z <-> exn d z \/ z = k.
Proof.
  unfold exn, set_node. simpl. unfold upd. destruct (N.eqb_spec z k) as [->|Hne].
  - split; [auto|discriminate].
  - tauto.
Qed.

Section Defs.
Variable tasks : name -> option task.
Variable sel : list name.
Notation node_of := (node_of tasks).
Notation get_task := (get_task tasks).

(* a task_dep / calc_dep of p: declared, or returned (task_dep, file_dep producer, calc_dep) by one of its
   (transitive) calc_dep tasks.  Setup-tasks are NOT included. *)
Definition hdep (p x : name) : Prop :=
  In x (t_task_dep (get_task p) ++ t_calc_dep (get_task p)) \/
  exists c, eff_calc tasks p c /\ In x (calc_results tasks c).

(* why a node exists.  [Rn r x]: r went through its status check with result 'run' (see Rn_of below) *)
Inductive W (Rn : name -> name -> Prop) (d : dstate) : name -> Prop :=
| W_sel x : In x sel -> W Rn d x
| W_dep p x : W Rn d p -> In x (lists (node_of d p)) -> W Rn d x
| W_setup r x : W Rn d r -> In x (t_setup (get_task r)) -> Rn r x -> W Rn d x.

Lemma W_mono (Rn Rn' : name -> name -> Prop) d d' x :
  all_grows tasks d d' -> (forall r y, In y (t_setup (get_task r)) -> Rn r y -> Rn' r y) ->
  W Rn d x -> W Rn' d' x.
Proof.
  intros G HR H. induction H as [x Hx|p x _ IH Hx|r x _ IH Hx Hr].
  - apply W_sel. exact Hx.
  - eapply W_dep; [exact IH|]. unfold lists in *. destruct (G p) as [A B].
    rewrite in_app_iff in *. destruct Hx as [Hx|Hx]; [left; apply A|right; apply B]; exact Hx.
  - eapply W_setup; eauto.
Qed.

(* the statement in trace terms: a chain from the selection to x through tasks that have no final report
   in [pre]; every setup edge leaves a task that was status-checked in [pre] *)
Inductive wanted (pre : list event) : name -> Prop :=
| w_sel x : In x sel -> wanted pre x
| w_dep p x : wanted pre p -> ~ finished_in pre p -> hdep p x -> wanted pre x
| w_setup r x : wanted pre r -> ~ finished_in pre r -> In (EGetStatus r) pre ->
                In x (t_setup (get_task r)) -> wanted pre x.

End Defs.

(* r was status-checked, and it has no final report yet or x already has one *)
Definition Rn_of (tr : list event) (r x : name) : Prop :=
  In (EGetStatus r) tr /\ (~ finished_in tr r \/ finished_in tr x).

(* events that are neither final reports nor status checks *)
Definition plain_ev (e : event) : bool :=
  match e with EGetStatus _ | ESuccess _ | ESkipUpToDate _ | ESkipIgnore _ | EFailure _ _ => false | _ => true end.

Section L.
Variable tasks : name -> option task.
Variable wake_rank : name -> name -> N.
Variable calc_rank : name -> N.
Variable continue_ always : bool.
Variable sel : list name.

Notation node_of := (node_of tasks).
Notation st_of := (st_of tasks).
Notation get_task := (get_task tasks).
Notation gen_node := (gen_node tasks).
Notation add_wait_one := (add_wait_one tasks).
Notation add_wait_run := (add_wait_run tasks).
Notation process_calc := (process_calc tasks).
Notation gen_step := (gen_step tasks calc_rank).
Notation set_pc := (set_pc tasks).
Notation AInv := (AInv tasks).
Notation hdep := (hdep tasks).
Notation W := (W tasks sel).
Notation eff_calc := (eff_calc tasks).

Lemma eff_calc_hdep p c : eff_calc p c -> hdep p c.
Proof.
  intros [c0 H|c0 c' H H'].
  - left. apply in_app_iff. right. exact H.
  - right. exists c0. split; auto. unfold calc_results. rewrite !in_app_iff. auto.
Qed.

Lemma process_calc_task_In nd c s y :
  In y (n_all_task (process_calc nd c s)) ->
  In y (n_all_task nd) \/ In y (t_calc_new_task (get_task c)) \/ In y (t_calc_new_impl (get_task c)).
Proof.
  unfold Dispatch.process_calc. destruct (calc_values_visible s); simpl; auto.
  intros H. apply fold_add_if_new_In' in H. rewrite in_app_iff in H. tauto.
Qed.

(* ---------- the invariant of the dispatcher state ---------- *)
Section Walk.
Variable Rn : name -> name -> Prop.

Record LW (d : dstate) : Prop := {
  lw_q : forall z, In z (d_ready d) \/ In z (d_waiting d) \/ d_cur d = Some z -> exn d z;
  lw_wme : forall x w, In w (n_wme (node_of d x)) -> exn d w;
  lw_j : forall x, exn d x -> W Rn d x;
  lw_ss : forall me, in_setup (n_pc (node_of d me)) = true -> st_of d me = SRun;
  lw_t : forall me y, In y (n_all_task (node_of d me)) -> hdep me y;
  lw_tr : incl (d_torun d) sel
}.

(* the runner keeps: a task in status 'run' satisfies Rn towards everything *)
Definition HRn (d : dstate) : Prop := forall r x, st_of d r = SRun -> Rn r x.

Lemma W_grows d d' x : all_grows tasks d d' -> W Rn d x -> W Rn d' x.
Proof. intros G. apply W_mono; auto. Qed.

(* one node is replaced or created *)
Lemma LW_set d k nd' :
  LW d ->
  incl (n_all_task (node_of d k)) (n_all_task nd') -> incl (n_all_calc (node_of d k)) (n_all_calc nd') ->
  (forall y, In y (n_all_task nd') -> hdep k y) ->
  (forall w, In w (n_wme nd') -> exn d w \/ w = k) ->
  (in_setup (n_pc nd') = true -> n_st nd' = SRun) ->
  (exn d k \/ W Rn (set_node d k nd') k) ->
  LW (set_node d k nd').
Proof.
  intros [Hq Hwme Hj Hss Ht Htr] I1 I2 Hh Hw Hs Hk.
  assert (G : all_grows tasks d (set_node d k nd')) by (apply all_grows_set_node; auto).
  assert (Hex : forall z, exn d z -> exn (set_node d k nd') z) by (intros z Hz; apply exn_set_node; auto).
  split.
  - intros z Hz. apply Hex. apply Hq. exact Hz.
  - intros x w Hin. destruct (N.eqb_spec x k) as [->|Hne].
    + rewrite node_of_set_same in Hin. destruct (Hw w Hin) as [A|A]; apply exn_set_node; auto.
    + rewrite node_of_set_other in Hin by auto. apply Hex. eapply Hwme; eauto.
  - intros x Hx. apply exn_set_node in Hx.
    destruct Hx as [Hx| ->]; [apply (W_grows d); auto|].
    destruct Hk as [Hk|Hk]; [apply (W_grows d); auto|exact Hk].
  - intros me Hme. destruct (N.eqb_spec me k) as [->|Hne].
    + rewrite node_of_set_same in Hme. unfold Dispatch.st_of. rewrite node_of_set_same. auto.
    + rewrite node_of_set_other in Hme by auto. unfold Dispatch.st_of. rewrite node_of_set_other by auto. apply Hss. exact Hme.
  - intros me y Hy. destruct (N.eqb_spec me k) as [->|Hne].
    + rewrite node_of_set_same in Hy. auto.
    + rewrite node_of_set_other in Hy by auto. auto.
  - exact Htr.
Qed.

(* an existing node is updated: lists, wme, pc class and status unchanged *)
Lemma LW_keep d k nd' :
  LW d -> exn d k ->
  n_all_task nd' = n_all_task (node_of d k) -> n_all_calc nd' = n_all_calc (node_of d k) ->
  n_wme nd' = n_wme (node_of d k) ->
  (in_setup (n_pc nd') = true -> in_setup (n_pc (node_of d k)) = true) -> n_st nd' = n_st (node_of d k) ->
  LW (set_node d k nd').
Proof.
  intros H Hk E1 E2 E3 E4 E5. apply LW_set; auto.
  - rewrite E1. apply incl_refl.
  - rewrite E2. apply incl_refl.
  - rewrite E1. apply (lw_t _ H).
  - rewrite E3. intros w Hw. left. eapply (lw_wme _ H); eauto.
  - intros Hs. rewrite E5. apply (lw_ss _ H k). auto.
Qed.

(* only the queues change *)
Lemma LW_queues d d' :
  d_nodes d' = d_nodes d ->
  (forall z, In z (d_ready d') \/ In z (d_waiting d') \/ d_cur d' = Some z -> exn d z) ->
  incl (d_torun d') sel ->
  LW d -> LW d'.
Proof.
  intros En Hq' Htr' [Hq Hwme Hj Hss Ht Htr].
  assert (Enode : forall z, node_of d' z = node_of d z) by (intros z; unfold Dispatch.node_of; rewrite En; reflexivity).
  assert (Eex : forall z, exn d' z <-> exn d z) by (intros z; unfold exn; rewrite En; tauto).
  split; auto.
  - intros z Hz. apply Eex. auto.
  - intros x w. rewrite Enode, Eex. apply Hwme.
  - intros x Hx. apply (W_grows d); [apply all_grows_queues; exact En|]. apply Hj. apply Eex. exact Hx.
  - intros me. unfold Dispatch.st_of. rewrite Enode. apply Hss.
  - intros me y. rewrite Enode. apply Ht.
Qed.

(* ---------- small frame facts ---------- *)
Lemma node_of_none d k : d_nodes d k = None -> node_of d k = new_node tasks [] k.
Proof. intros E. unfold Dispatch.node_of. rewrite E. reflexivity. Qed.

Lemma ps_fields nd dep s :
  let nd' := parent_status nd dep s in
  n_pc nd' = n_pc nd /\ n_st nd' = n_st nd /\ n_wme nd' = n_wme nd /\
  n_all_task nd' = n_all_task nd /\ n_all_calc nd' = n_all_calc nd.
Proof. destruct s; simpl; repeat split; reflexivity. Qed.

Lemma pcalc_fields nd c s :
  let nd' := process_calc nd c s in
  n_pc nd' = n_pc nd /\ n_st nd' = n_st nd /\ n_wme nd' = n_wme nd.
Proof. unfold Dispatch.process_calc. destruct (calc_values_visible s); simpl; repeat split; reflexivity. Qed.

Lemma st_of_unfold d k : st_of d k = n_st (node_of d k).
Proof. reflexivity. Qed.

(* ---------- gen_node, set_pc ---------- *)
Lemma gen_node_LW d pa k :
  LW d -> (d_nodes d k = None -> W Rn (snd (gen_node d pa k)) k) -> LW (snd (gen_node d pa k)).
Proof.
  intros H Hk. unfold Dispatch.gen_node in *. destruct (d_nodes d k) eqn:E.
  - destruct pa as [a|]; [destruct (mem k a)|]; exact H.
  - simpl in *. apply LW_set; auto.
    + rewrite (node_of_none d k E). simpl. apply incl_refl.
    + rewrite (node_of_none d k E). simpl. apply incl_refl.
    + simpl. intros y Hy. left. apply in_app_iff. auto.
    + simpl. intros w [].
    + simpl. discriminate.
Qed.

Lemma set_pc_LW d me p : LW d -> exn d me -> (in_setup p = true -> st_of d me = SRun) -> LW (set_pc d me p).
Proof.
  intros H Hme Hp. unfold Dispatch.set_pc. apply LW_set; simpl; auto; try apply incl_refl.
  - apply (lw_t _ H).
  - intros w Hw. left. eapply (lw_wme _ H); eauto.
Qed.

Lemma exn_set_pc d me p z : exn d z -> exn (set_pc d me p) z.
Proof. intros Hz. unfold Dispatch.set_pc. apply exn_set_node. auto. Qed.

(* ---------- _node_add_wait_run ---------- *)
Lemma add_wait_one_ex d me x calc z : exn d z -> exn (add_wait_one d me x calc) z.
Proof.
  intros Hz. unfold Dispatch.add_wait_one. destruct (unfinished (st_of d x)).
  - apply exn_set_node. left. apply exn_set_node. auto.
  - apply exn_set_node. auto.
Qed.

Lemma add_wait_one_LW d me x calc :
  AInv d -> LW d -> exn d me ->
  (In x (lists (node_of d me)) \/ (In x (t_setup (get_task me)) /\ Rn me x)) ->
  (calc = true -> In x (n_all_calc (node_of d me))) ->
  LW (add_wait_one d me x calc).
Proof.
  intros HA H Hme Hx Hc.
  assert (Wx : W Rn d x).
  { pose proof (lw_j _ H me Hme) as Wme. destruct Hx as [Hx|[Hx Hr]]; [eapply W_dep|eapply W_setup]; eauto. }
  unfold Dispatch.add_wait_one. destruct (unfinished (st_of d x)) eqn:Eu.
  - set (nx := node_of d x).
    set (d1 := set_node d x (nd_wme nx (addset me (n_wme nx)))).
    assert (H1 : LW d1).
    { apply LW_set; simpl; auto; try apply incl_refl.
      - apply (lw_t _ H).
      - intros w Hw. apply addset_In in Hw. destruct Hw as [->|Hw]; [left; exact Hme|].
        left. eapply (lw_wme _ H); eauto.
      - apply (lw_ss _ H x).
      - right. apply (W_grows d); auto. apply all_grows_set_node; simpl; apply incl_refl. }
    assert (Hme1 : exn d1 me) by (apply exn_set_node; auto).
    apply LW_keep; auto; destruct calc; simpl; auto.
  - set (nd0 := node_of d me). set (sx := st_of d x). set (nd1 := parent_status nd0 x sx).
    destruct (ps_fields nd0 x sx) as (f1 & f2 & f3 & f4 & f5). cbv zeta in *. fold nd1 in f1, f2, f3, f4, f5.
    destruct (pcalc_fields nd1 x sx) as (g1 & g2 & g3). cbv zeta in *.
    destruct (process_calc_incl tasks nd1 x sx) as [I1 I2].
    apply LW_set; auto.
    + destruct calc; fold nd0; rewrite <- f4; auto. apply incl_refl.
    + destruct calc; fold nd0; rewrite <- f5; auto. apply incl_refl.
    + intros y Hy. destruct calc.
      * apply process_calc_task_In in Hy. destruct Hy as [Hy|Hy].
        -- rewrite f4 in Hy. apply (lw_t _ H). exact Hy.
        -- right. exists x. split.
           ++ apply (a_calc _ _ _ (anode_of_ok tasks d me HA)). apply Hc. reflexivity.
           ++ unfold calc_results. rewrite !in_app_iff. tauto.
      * rewrite f4 in Hy. apply (lw_t _ H). exact Hy.
    + intros w Hw. left. destruct calc; [rewrite g3 in Hw|]; rewrite f3 in Hw; eapply (lw_wme _ H); eauto.
    + intros Hs. destruct calc; [rewrite g1 in Hs; rewrite g2|]; rewrite f1 in Hs; rewrite f2; apply (lw_ss _ H me Hs).
Qed.

Lemma add_wait_run_LW l : forall d me calc,
  AInv d -> LW d -> exn d me ->
  (forall x, In x l -> In x (lists (node_of d me)) \/ (In x (t_setup (get_task me)) /\ Rn me x)) ->
  (calc = true -> incl l (n_all_calc (node_of d me))) ->
  (calc = false -> incl l (n_all_task (node_of d me) ++ t_setup (get_task me))) ->
  LW (add_wait_run d me l calc) /\ exn (add_wait_run d me l calc) me.
Proof.
  induction l as [|x r IH]; intros d me calc HA H Hme Hl Hc Hnc; cbn [Dispatch.add_wait_run]; auto.
  destruct (add_wait_one_A tasks wake_rank calc_rank d me x calc HA) as (A1 & P1 & N1 & I1 & J1).
  { intros E. apply (Hc E). left; reflexivity. }
  { intros E. apply (Hnc E). left; reflexivity. }
  apply IH; auto.
  - apply add_wait_one_LW; auto.
    + apply Hl. left; reflexivity.
    + intros E. apply (Hc E). left; reflexivity.
  - apply add_wait_one_ex. exact Hme.
  - intros y Hy. destruct (Hl y (or_intror Hy)) as [Hy'|Hy']; auto. left.
    unfold lists in *. rewrite in_app_iff in *. destruct Hy' as [Hy'|Hy']; [left; apply J1|right; apply I1]; exact Hy'.
  - intros E y Hy. apply I1. apply (Hc E). right; exact Hy.
  - intros E y Hy. specialize (Hnc E y (or_intror Hy)). rewrite in_app_iff in *. destruct Hnc as [Hn|Hn]; auto.
Qed.

(* ---------- one resumption of a node's generator ---------- *)
Definition LA (d : dstate) (me : name) : Prop := AInv d /\ LW d /\ HRn d /\ exn d me.

Lemma HRn_st d d' : (forall x, st_of d' x = st_of d x) -> HRn d -> HRn d'.
Proof. intros E H r x Hr. apply H. rewrite <- E. exact Hr. Qed.

Lemma LA_set_pc d me p :
  LA d me -> pc_ok tasks me (nd_pc (node_of d me) p) -> (in_setup p = true -> st_of d me = SRun) -> LA (set_pc d me p) me.
Proof.
  intros (HA & H & HR & Hme) Hp Hs. split; [apply set_pc_A; auto|]. split; [apply set_pc_LW; auto|].
  split; [eapply HRn_st; [|exact HR]; intro x; apply set_pc_st|apply exn_set_pc; exact Hme].
Qed.

Lemma LA_awr d me l calc :
  LA d me ->
  (forall x, In x l -> In x (lists (node_of d me)) \/ (In x (t_setup (get_task me)) /\ Rn me x)) ->
  (calc = true -> incl l (n_all_calc (node_of d me))) ->
  (calc = false -> incl l (n_all_task (node_of d me) ++ t_setup (get_task me))) ->
  LA (add_wait_run d me l calc) me.
Proof.
  intros (HA & H & HR & Hme) Hl Hc Hnc.
  destruct (add_wait_run_A tasks wake_rank calc_rank l d me calc HA Hc Hnc) as (A1 & _).
  destruct (add_wait_run_LW l d me calc HA H Hme Hl Hc Hnc) as [L1 E1].
  split; auto. split; auto. split; auto. eapply HRn_st; [|exact HR]. intro x. apply add_wait_run_st.
Qed.

(* the `for dep in list: yield self._gen_node(node, dep)` loops *)
Lemma child_LA d me c p' :
  LA d me ->
  (In c (lists (node_of d me)) \/ (In c (t_setup (get_task me)) /\ st_of d me = SRun)) ->
  eff_dep tasks me c -> pc_ok tasks me (nd_pc (node_of d me) p') ->
  (in_setup p' = true -> st_of d me = SRun) ->
  match gen_node d (Some (n_anc (node_of d me))) c with
  | (GCycle, _) => True
  | (g, d1) => LA (set_pc d1 me p') me /\ (g = GNew -> exn (set_pc d1 me p') c)
  end.
Proof.
  intros (HA & H & HR & Hme) Hc He Hp Hs.
  pose proof (child_step tasks d me c p' HA Hme He Hp) as HC.
  assert (Hj : In c (lists (node_of d me)) \/ (In c (t_setup (get_task me)) /\ Rn me c)).
  { destruct Hc as [Hc|[Hc Hr]]; auto. }
  pose proof (gen_node_LW d (Some (n_anc (node_of d me))) c H) as HL.
  pose proof (gen_node_st tasks d (Some (n_anc (node_of d me))) c) as Hst.
  unfold Dispatch.gen_node in *. destruct (d_nodes d c) eqn:Ec.
  - destruct (mem c (n_anc (node_of d me))); [exact I|]. simpl in *.
    split; [|discriminate]. apply LA_set_pc; auto. split; auto.
  - simpl in *. set (d1 := set_node d c (new_node tasks (n_anc (node_of d me)) c)) in *.
    assert (Hne : me <> c) by (intros ->; apply Hme; exact Ec).
    assert (Hnode : node_of d1 me = node_of d me) by (apply node_of_set_other; exact Hne).
    assert (G : all_grows tasks d d1).
    { apply all_grows_set_node; rewrite (node_of_none d c Ec); simpl; apply incl_refl. }
    assert (Hme1 : exn d1 me) by (apply exn_set_node; auto).
    assert (L1 : LW d1).
    { apply HL. intros _. pose proof (W_grows d d1 me G (lw_j _ H me Hme)) as Wme.
      destruct Hj as [Hj|[Hj Hr]]; [eapply W_dep; [exact Wme|rewrite Hnode; exact Hj]|eapply W_setup; eauto]. }
    assert (R1 : HRn d1) by (eapply HRn_st; [|exact HR]; exact Hst).
    split.
    + split; [exact HC|]. split; [|split; [eapply HRn_st; [|exact R1]; intro x; apply set_pc_st|apply exn_set_pc; exact Hme1]].
      apply set_pc_LW; auto. intros E. rewrite Hst. auto.
    + intros _. apply exn_set_pc. apply exn_set_node. auto.
Qed.

Lemma gen_step_LW fuel : forall d me y d',
  LA d me -> gen_step fuel d me = (y, d') ->
  LW d' /\ (forall k, y = YNode k -> exn d' k) /\ exn d' me.
Proof.
  induction fuel as [|fuel IH]; intros d me y d' HL Hg; cbn [Dispatch.gen_step] in Hg.
  { inversion Hg; subst. destruct HL as (_ & H & _ & Hme). split; auto. split; auto. intros k E; discriminate. }
  assert (Hdone : forall d0 y0, LA d0 me -> (forall k, y0 <> YNode k) -> (y0, d0) = (y, d') ->
             LW d' /\ (forall k, y = YNode k -> exn d' k) /\ exn d' me).
  { intros d0 y0 (_ & H0 & _ & E0) Hy0 E. inversion E; subst. split; auto. split; auto. intros k Ek. exfalso. eapply Hy0; eauto. }
  pose proof HL as (HA & H & HR & Hme).
  pose proof (anode_of_ok tasks d me HA) as Hok. destruct Hok as [Ac At Apc Apt Aw Awr Ap Aa].
  assert (Hss : in_setup (n_pc (node_of d me)) = true -> st_of d me = SRun) by (apply (lw_ss _ H)).
  destruct (n_pc (node_of d me)) as [|rest calcs tks|rest tks| | | |rest| |] eqn:Epc.
  - (* PLoop *)
    eapply IH; [|exact Hg]. split; [|split; [|split]].
    + apply AInv_set_node; auto. split; simpl; auto.
      * intros z [].
      * intros z [].
      * unfold pc_ok. simpl. split; [apply incl_refl|]. split; auto.
        intros z Hz. apply sort_by_In in Hz. apply Apc. exact Hz.
    + apply LW_keep; auto. simpl. discriminate.
    + eapply HRn_st; [|exact HR]. intro x. apply st_set_node_same_st. reflexivity.
    + apply exn_set_node. auto.
  - (* PCalc *)
    unfold pc_ok in Ap. rewrite Epc in Ap. destruct Ap as (P1 & P2 & P3).
    destruct rest as [|c r].
    + assert (L1 : LA (add_wait_run d me calcs true) me).
      { apply LA_awr; [exact HL| | |].
        - intros x Hx. left. unfold lists. apply in_app_iff. right. apply P2. exact Hx.
        - intros _. exact P2.
        - intros E; discriminate. }
      destruct (add_wait_run_A tasks wake_rank calc_rank calcs d me true HA) as (A1 & E1 & E2 & I1 & J1).
      { intros _. exact P2. } { intros E; discriminate. }
      eapply IH; [|exact Hg]. apply LA_set_pc; auto; [|discriminate].
      unfold pc_ok. simpl. split; [apply incl_refl|]. eapply incl_tran; eauto.
    + assert (Hin : In c (n_all_calc (node_of d me))) by (apply P2; apply P1; left; reflexivity).
      assert (He : eff_dep tasks me c) by (apply eff_calc_dep; apply Ac; exact Hin).
      assert (Hp : pc_ok tasks me (nd_pc (node_of d me) (PCalc r calcs tks))).
      { unfold pc_ok. simpl. split; auto. intros z Hz. apply P1. right; exact Hz. }
      pose proof (child_LA d me c (PCalc r calcs tks) HL) as Hc.
      specialize (Hc ltac:(left; unfold lists; apply in_app_iff; auto) He Hp ltac:(discriminate)).
      destruct (gen_node d (Some (n_anc (node_of d me))) c) as [[| |] d1].
      * destruct Hc as [(_ & L1 & _ & E1) N1]. inversion Hg; subst. split; auto. split; auto.
        intros k Ek. inversion Ek; subst. auto.
      * destruct Hc as [L1 _]. eapply IH; [exact L1|exact Hg].
      * eapply Hdone; [exact HL| |exact Hg]. intros k; discriminate.
  - (* PTask *)
    unfold pc_ok in Ap. rewrite Epc in Ap. destruct Ap as (P1 & P2).
    destruct rest as [|c r].
    + assert (L1 : LA (add_wait_run d me tks false) me).
      { apply LA_awr; [exact HL| | |].
        - intros x Hx. left. unfold lists. apply in_app_iff. left. apply P2. exact Hx.
        - intros E; discriminate.
        - intros _ z Hz. apply in_app_iff. left. apply P2. exact Hz. }
      set (d1 := add_wait_run d me tks false) in *.
      assert (HLo : LA (set_pc d1 me PLoop) me) by (apply LA_set_pc; auto; try exact I; try discriminate).
      assert (HSe : LA (set_pc d1 me PSelf) me) by (apply LA_set_pc; auto; try exact I; try discriminate).
      destruct (negb (is_nil (n_pend_calc (node_of d1 me))) || negb (is_nil (n_pend_task (node_of d1 me)))).
      * eapply IH; [exact HLo|exact Hg].
      * destruct (negb (is_nil (n_wrun (node_of d1 me))) || negb (is_nil (n_wcalc (node_of d1 me)))).
        -- eapply Hdone; [exact HLo| |exact Hg]. intros k; discriminate.
        -- eapply IH; [exact HSe|exact Hg].
    + assert (Hin : In c (n_all_task (node_of d me))) by (apply P2; apply P1; left; reflexivity).
      assert (He : eff_dep tasks me c) by (apply At; exact Hin).
      assert (Hp : pc_ok tasks me (nd_pc (node_of d me) (PTask r tks))).
      { unfold pc_ok. simpl. split; auto. intros z Hz. apply P1. right; exact Hz. }
      pose proof (child_LA d me c (PTask r tks) HL) as Hc.
      specialize (Hc ltac:(left; unfold lists; apply in_app_iff; auto) He Hp ltac:(discriminate)).
      destruct (gen_node d (Some (n_anc (node_of d me))) c) as [[| |] d1].
      * destruct Hc as [(_ & L1 & _ & E1) N1]. inversion Hg; subst. split; auto. split; auto.
        intros k Ek. inversion Ek; subst. auto.
      * destruct Hc as [L1 _]. eapply IH; [exact L1|exact Hg].
      * eapply Hdone; [exact HL| |exact Hg]. intros k; discriminate.
  - (* PSelf *)
    eapply Hdone; [| |exact Hg]; [apply LA_set_pc; auto; try exact I; try discriminate|intros k; discriminate].
  - (* PAfterSelf *)
    destruct (is_nil (t_setup (get_task me))).
    + eapply Hdone; [| |exact Hg]; [apply LA_set_pc; auto; try exact I; try discriminate|intros k; discriminate].
    + assert (HW : LA (set_pc d me PAfterSelWait) me) by (apply LA_set_pc; auto; try exact I; try discriminate).
      destruct (n_st (node_of d me)); try (eapply IH; [exact HW|exact Hg]).
      eapply Hdone; [| |exact Hg]; [|intros k; discriminate].
      split; [|split; [|split]].
      * apply AInv_set_node; auto. split; simpl; auto. exact I.
      * apply LW_keep; auto. simpl. discriminate.
      * eapply HRn_st; [|exact HR]. intro x. apply st_set_node_same_st. reflexivity.
      * apply exn_set_node. auto.
  - (* PAfterSelWait *)
    assert (HD : LA (set_pc d me PDone) me) by (apply LA_set_pc; auto; try exact I; try discriminate).
    destruct (n_st (node_of d me)) eqn:Est; try (eapply Hdone; [exact HD| |exact Hg]; intros k; discriminate).
    eapply IH; [|exact Hg]. apply LA_set_pc; auto.
    unfold pc_ok. simpl. apply incl_refl.
  - (* PSetup *)
    unfold pc_ok in Ap. rewrite Epc in Ap.
    assert (Srun : st_of d me = SRun) by (apply Hss; reflexivity).
    destruct rest as [|c r].
    + assert (L1 : LA (add_wait_run d me (t_setup (get_task me)) false) me).
      { apply LA_awr; [exact HL| | |].
        - intros x Hx. right. split; auto.
        - intros E; discriminate.
        - intros _ z Hz. apply in_app_iff. right. exact Hz. }
      set (d1 := add_wait_run d me (t_setup (get_task me)) false) in *.
      assert (S1 : st_of d1 me = SRun) by (unfold d1; rewrite add_wait_run_st; exact Srun).
      destruct (is_nil (n_wrun (node_of d1 me))).
      * eapply Hdone; [| |exact Hg]; [apply LA_set_pc; auto; try exact I|intros k; discriminate].
      * eapply Hdone; [| |exact Hg]; [apply LA_set_pc; auto; try exact I|intros k; discriminate].
    + assert (Hin : In c (t_setup (get_task me))) by (apply Ap; left; reflexivity).
      assert (He : eff_dep tasks me c).
      { apply ed_static. unfold static_deps. rewrite !in_app_iff. right; right. exact Hin. }
      assert (Hp : pc_ok tasks me (nd_pc (node_of d me) (PSetup r))).
      { unfold pc_ok. simpl. intros z Hz. apply Ap. right; exact Hz. }
      pose proof (child_LA d me c (PSetup r) HL) as Hc.
      specialize (Hc ltac:(right; split; auto) He Hp ltac:(intros _; exact Srun)).
      destruct (gen_node d (Some (n_anc (node_of d me))) c) as [[| |] d1].
      * destruct Hc as [(_ & L1 & _ & E1) N1]. inversion Hg; subst. split; auto. split; auto.
        intros k Ek. inversion Ek; subst. auto.
      * destruct Hc as [L1 _]. eapply IH; [exact L1|exact Hg].
      * eapply Hdone; [exact HL| |exact Hg]. intros k; discriminate.
  - (* PSetupWaited *)
    eapply Hdone; [| |exact Hg]; [apply LA_set_pc; auto; try exact I; try discriminate|intros k; discriminate].
  - (* PDone *)
    eapply Hdone; [exact HL| |exact Hg]. intros k; discriminate.
Qed.

(* ---------- _update_waiting ---------- *)
Lemma wake_node_fields nd fin fs :
  let nd' := wake_node tasks nd fin fs in
  n_pc nd' = n_pc nd /\ n_st nd' = n_st nd /\ n_wme nd' = n_wme nd.
Proof.
  cbv zeta. unfold Dispatch.wake_node.
  destruct (ps_fields nd fin fs) as (f1 & f2 & f3 & _). cbv zeta in *.
  set (nw1 := nd_wait _ _ _).
  destruct (mem fin (n_wcalc nd)).
  - destruct (pcalc_fields nw1 fin fs) as (g1 & g2 & g3). cbv zeta in *. rewrite g1, g2, g3. simpl. auto.
  - simpl. auto.
Qed.

Lemma wake_node_task_In nd fin fs y :
  In y (n_all_task (wake_node tasks nd fin fs)) ->
  In y (n_all_task nd) \/
  (mem fin (n_wcalc nd) = true /\ (In y (t_calc_new_task (get_task fin)) \/ In y (t_calc_new_impl (get_task fin)))).
Proof.
  unfold Dispatch.wake_node. destruct (ps_fields nd fin fs) as (_ & _ & _ & f4 & _). cbv zeta in *.
  destruct (mem fin (n_wcalc nd)).
  - intros Hy. apply process_calc_task_In in Hy. simpl in Hy. rewrite f4 in Hy. tauto.
  - simpl. rewrite f4. auto.
Qed.

Lemma wake_one_ex d fin fs w z : exn d z -> exn (wake_one tasks d fin fs w) z.
Proof.
  intros Hz. unfold Dispatch.wake_one.
  set (d1 := set_node d w _).
  assert (H1 : exn d1 z) by (apply exn_set_node; auto).
  destruct (_ && _); auto.
Qed.

Lemma wake_one_LW d fin fs w : AInv d -> LW d -> exn d w -> LW (wake_one tasks d fin fs w).
Proof.
  intros HA H Hw. unfold Dispatch.wake_one.
  set (nd := node_of d w). set (nw2 := wake_node tasks nd fin fs). set (d1 := set_node d w nw2).
  destruct (wake_node_fields nd fin fs) as (f1 & f2 & f3). cbv zeta in *. fold nw2 in f1, f2, f3.
  destruct (wake_node_incl tasks nd fin fs) as [I1 I2]. fold nw2 in I1, I2.
  assert (H1 : LW d1).
  { apply LW_set; auto.
    - intros y Hy. apply wake_node_task_In in Hy. destruct Hy as [Hy|[Hm Hy]]; [apply (lw_t _ H); exact Hy|].
      right. exists fin. split.
      + pose proof (anode_of_ok tasks d w HA) as Hok. apply (a_calc _ _ _ Hok). apply (a_wcalc _ _ _ Hok).
        apply mem_In. exact Hm.
      + unfold calc_results. rewrite !in_app_iff. tauto.
    - intros x Hx. left. rewrite f3 in Hx. eapply (lw_wme _ H); eauto.
    - intros Hs. rewrite f1 in Hs. rewrite f2. apply (lw_ss _ H w Hs). }
  destruct (wake_ready nd fin nw2 && mem w (d_waiting d1)); auto.
  apply (LW_queues d1); auto.
  - intros z [Hz|[Hz|Hz]]; simpl in Hz.
    + apply in_app_iff in Hz. destruct Hz as [Hz|[<-|[]]]; [apply (lw_q _ H1); auto|apply exn_set_node; auto].
    + apply rem_In in Hz. apply (lw_q _ H1). right; left. apply Hz.
    + apply (lw_q _ H1). auto.
  - apply (lw_tr _ H1).
Qed.

Lemma wake_LW l : forall d fin fs, AInv d -> LW d -> (forall w, In w l -> exn d w) -> LW (wake tasks d fin fs l).
Proof.
  induction l as [|w r IH]; intros d fin fs HA H Hl; simpl; auto.
  apply IH.
  - apply (wake_one_A tasks wake_rank calc_rank). exact HA.
  - apply wake_one_LW; auto. apply Hl. left; reflexivity.
  - intros z Hz. apply wake_one_ex. apply Hl. right; exact Hz.
Qed.

Lemma update_waiting_LW d p :
  AInv d -> LW d -> (forall k, p = Some k -> exn d k) -> LW (update_waiting tasks wake_rank d p).
Proof.
  intros HA H Hp. unfold Dispatch.update_waiting. destruct p as [p|]; auto.
  specialize (Hp p eq_refl). set (np := node_of d p).
  set (d1 := if n_wsel np then
               let d0 := set_node d p (nd_wsel np false) in
               set_waiting (set_ready d0 (d_ready d0 ++ [p])) (rem p (d_waiting d0))
             else d).
  assert (T : AInv d1 /\ LW d1 /\ forall z, exn d z -> exn d1 z).
  { unfold d1. destruct (n_wsel np); auto. cbv zeta.
    assert (H0 : LW (set_node d p (nd_wsel np false))) by (apply LW_keep; auto).
    split; [|split].
    - eapply AInv_queues; [reflexivity|]. apply AInv_set_node; auto. apply aok_wsel. apply anode_of_ok. exact HA.
    - apply (LW_queues (set_node d p (nd_wsel np false))); auto.
      + intros z [Hz|[Hz|Hz]]; simpl in Hz.
        * apply in_app_iff in Hz. destruct Hz as [Hz|[<-|[]]]; [apply (lw_q _ H0); auto|apply exn_set_node; auto].
        * apply rem_In in Hz. apply (lw_q _ H0). right; left. apply Hz.
        * apply (lw_q _ H0). auto.
      + apply (lw_tr _ H0).
    - intros z Hz. unfold exn. simpl. apply exn_set_node. auto. }
  destruct T as (A1 & L1 & E1).
  assert (Hw : forall w, In w (wake_order wake_rank p (n_wme np)) -> exn d1 w).
  { intros w Hin. unfold wake_order in Hin. apply sort_by_In in Hin. apply E1. eapply (lw_wme _ H); eauto. }
  destruct (n_st np); auto; apply wake_LW; auto.
Qed.

(* ---------- _get_next_node, the dispatcher loop ---------- *)
Lemma next_from_torun_LW l : forall d o d',
  LW d -> incl l sel -> next_from_torun tasks d l = (o, d') ->
  LW d' /\ (forall x, o = Some x -> exn d' x).
Proof.
  induction l as [|x r IH]; intros d o d' H Hl E; simpl in E.
  - inversion E; subst. split; [|intros x Ex; discriminate].
    apply (LW_queues d); auto; try (intros z Hz; apply (lw_q _ H); exact Hz); try (intros z []).
  - pose proof (gen_node_LW d None x H) as HG.
    unfold Dispatch.gen_node in *. destruct (d_nodes d x) eqn:Ex.
    + eapply IH; eauto. intros z Hz. apply Hl. right; exact Hz.
    + simpl in *. inversion E; subst. clear E.
      assert (H1 : LW (set_node d x (new_node tasks [] x))).
      { apply HG. intros _. apply W_sel. apply Hl. left; reflexivity. }
      split.
      * apply (LW_queues (set_node d x (new_node tasks [] x))); auto.
        -- intros z Hz. apply (lw_q _ H1). exact Hz.
        -- intros z Hz. apply Hl. right; exact Hz.
      * intros z Ez. inversion Ez; subst. unfold exn. simpl. rewrite upd_same. discriminate.
Qed.

Lemma disp_run_LW fuel : forall d y d',
  AInv d -> LW d -> HRn d -> disp_run tasks calc_rank fuel d = (y, d') -> LW d'.
Proof.
  induction fuel as [|fuel IH]; intros d y d' HA H HR E; cbn [Dispatch.disp_run] in E.
  { inversion E; subst. exact H. }
  destruct (d_cur d) as [me|] eqn:Ecur.
  - destruct (gen_step (S (S fuel)) d me) as [g d1] eqn:Eg.
    assert (Hme : exn d me) by (apply (lw_q _ H); auto).
    destruct (gen_step_LW _ _ _ _ _ (conj HA (conj H (conj HR Hme))) Eg) as (L1 & N1 & M1).
    destruct (gen_step_A tasks wake_rank calc_rank _ _ _ _ _ HA Eg) as [A1 _].
    assert (R1 : HRn d1).
    { eapply HRn_st; [|exact HR]. intro x. change d1 with (snd (g, d1)). rewrite <- Eg. apply gen_step_st. }
    assert (Hq1 : forall z, In z (d_ready d1) \/ In z (d_waiting d1) \/ d_cur d1 = Some z -> exn d1 z) by apply (lw_q _ L1).
    destruct g.
    + (* YNode k *)
      eapply IH; [| | |exact E].
      * eapply AInv_queues; [reflexivity|exact A1].
      * apply (LW_queues d1); auto; [|apply (lw_tr _ L1)].
        intros z [Hz|[Hz|Hz]]; simpl in Hz; auto.
        apply in_app_iff in Hz. destruct Hz as [Hz|[<-|[]]]; auto.
      * exact R1.
    + (* YWait *)
      eapply IH; [| | |exact E].
      * eapply AInv_queues; [reflexivity|exact A1].
      * apply (LW_queues d1); auto; [|apply (lw_tr _ L1)].
        intros z [Hz|[Hz|Hz]]; simpl in Hz; auto; [|discriminate].
        apply addset_In in Hz. destruct Hz as [->|Hz]; auto.
      * exact R1.
    + inversion E; subst. exact L1.
    + (* YEnd *)
      eapply IH; [| | |exact E].
      * eapply AInv_queues; [reflexivity|exact A1].
      * apply (LW_queues d1); auto; [|apply (lw_tr _ L1)].
        intros z [Hz|[Hz|Hz]]; simpl in Hz; auto. discriminate.
      * exact R1.
    + inversion E; subst. exact L1.
    + inversion E; subst. exact L1.
  - destruct (d_ready d) as [|x r] eqn:Er.
    + destruct (next_from_torun tasks d (d_torun d)) as [o d1] eqn:En.
      destruct (next_from_torun_LW _ _ _ _ H (lw_tr _ H) En) as [L1 X1].
      pose proof (next_from_torun_A tasks _ _ _ _ HA En) as A1.
      assert (R1 : HRn d1).
      { eapply HRn_st; [|exact HR]. intro x. change d1 with (snd (o, d1)). rewrite <- En. apply next_from_torun_st. }
      destruct o as [x|].
      * eapply IH; [| | |exact E].
        -- eapply AInv_queues; [reflexivity|exact A1].
        -- apply (LW_queues d1); auto; [|apply (lw_tr _ L1)].
           intros z [Hz|[Hz|Hz]]; simpl in Hz; [apply (lw_q _ L1); auto|apply (lw_q _ L1); auto|].
           inversion Hz; subst. apply X1. reflexivity.
        -- exact R1.
      * destruct (is_nil (d_waiting d1)); inversion E; subst; exact L1.
    + eapply IH; [| | |exact E].
      * eapply AInv_queues; [reflexivity|exact HA].
      * apply (LW_queues d); auto; [|apply (lw_tr _ H)].
        intros z [Hz|[Hz|Hz]]; simpl in Hz.
        -- apply (lw_q _ H). left. rewrite Er. right; exact Hz.
        -- apply (lw_q _ H). auto.
        -- inversion Hz; subst. apply (lw_q _ H). left. rewrite Er. left; reflexivity.
      * exact HR.
Qed.

Lemma disp_send_LW fuel d p y d' :
  AInv d -> LW d -> HRn d -> (forall k, p = Some k -> exn d k) ->
  disp_send tasks wake_rank calc_rank fuel d p = (y, d') -> LW d'.
Proof.
  intros HA H HR Hp E. unfold Dispatch.disp_send in E.
  eapply disp_run_LW; [| | |exact E].
  - apply update_waiting_A; auto.
  - apply update_waiting_LW; auto.
  - eapply HRn_st; [|exact HR]. intro x. apply update_waiting_st.
Qed.

End Walk.

(* ================= the runner ================= *)
Notation RI := (RI tasks).
Notation Inv := (Inv tasks).
Notation Pre := (Pre tasks).
Notation final := (final tasks).
Notation wanted := (wanted tasks sel).
Notation select_task := (select_task tasks continue_ always).
Notation process_result := (process_result tasks continue_).
Notation start_task := (start_task tasks).
Notation set_status := (set_status tasks).

Lemma LW_Rn_mono (Rn Rn' : name -> name -> Prop) d :
  (forall r y, In y (t_setup (get_task r)) -> Rn r y -> Rn' r y) -> LW Rn d -> LW Rn' d.
Proof.
  intros HR [Hq Hwme Hj Hss Ht Htr]. split; auto.
  intros x Hx. eapply W_mono; [apply all_grows_refl|exact HR|apply Hj; exact Hx].
Qed.

Lemma set_status_LW Rn d k s :
  LW Rn d -> exn d k -> in_setup (n_pc (node_of d k)) = false -> LW Rn (set_status d k s).
Proof.
  intros H Hk Hp. unfold Runner.set_status. apply LW_set; simpl; auto; try apply incl_refl.
  - apply (lw_t _ _ H).
  - intros w Hw. left. eapply (lw_wme _ _ H); eauto.
  - rewrite Hp. discriminate.
Qed.

Lemma set_status_exn d k s z : exn (set_status d k s) z <-> exn d z \/ z = k.
Proof. unfold Runner.set_status. apply exn_set_node. Qed.

(* status-checked <-> has a status *)
Definition GS (d : dstate) (tr : list event) : Prop := forall k, In (EGetStatus k) tr <-> st_of d k <> SNone.

(* a finished task has only finished task_dep / calc_dep (it was handed to the runner after they all finished) *)
Lemma final_lists_final d p x : Inv d -> final d p -> In x (lists (node_of d p)) -> final d x.
Proof.
  intros HI Hp Hx. pose proof (node_of_ok tasks d p HI) as [Hacc Hlate _ _ Hearly Hsst _].
  unfold DispatchInv.final, Dispatch.st_of in Hp.
  assert (He : early (n_pc (node_of d p)) = false).
  { destruct (early (n_pc (node_of d p))) eqn:E; auto. rewrite (Hearly eq_refl) in Hp. discriminate. }
  assert (Hs : in_setup (n_pc (node_of d p)) = false).
  { destruct (in_setup (n_pc (node_of d p))) eqn:E; auto. rewrite (Hsst eq_refl) in Hp. discriminate. }
  assert (Hl : late (n_pc (node_of d p)) = true) by (destruct (n_pc (node_of d p)); simpl in *; auto; discriminate).
  destruct (Hlate Hl) as (L1 & L2 & L3 & L4).
  assert (Hw : n_wrun (node_of d p) = []) by (apply L4; intros E; rewrite E in Hs; discriminate).
  destruct (Hacc x Hx) as [H|[H|[H|H]]].
  - rewrite L1, L2 in H. destruct H.
  - destruct (n_pc (node_of d p)); simpl in *; try contradiction; discriminate.
  - rewrite Hw, L3 in H. destruct H.
  - apply H.
Qed.

(* from the justification of a node that is not finished to the statement in trace terms *)
Lemma strict_of d tr x :
  RI d tr -> AInv d -> LW (Rn_of tr) d -> W (Rn_of tr) d x -> ~ final d x -> wanted tr x.
Proof.
  intros HR HA HL HW. induction HW as [x Hx|p x _ IH Hx|r x _ IH Hx [Hg Hr]]; intros Hnf.
  - apply w_sel. exact Hx.
  - assert (Hp : ~ final d p).
    { intros Hp. apply Hnf. eapply final_lists_final; eauto. apply (ri_inv _ _ _ HR). }
    eapply w_dep; [apply IH; exact Hp| |].
    + intros Hf. apply Hp. apply (ri_link2 _ _ _ HR). exact Hf.
    + unfold lists in Hx. apply in_app_iff in Hx. destruct Hx as [Hx|Hx].
      * apply (lw_t _ _ HL). exact Hx.
      * apply eff_calc_hdep. apply (a_calc _ _ _ (anode_of_ok tasks d p HA)). exact Hx.
  - assert (Hnr : ~ finished_in tr r).
    { destruct Hr as [Hr|Hr]; auto. exfalso. apply Hnf. apply (ri_link2 _ _ _ HR). exact Hr. }
    eapply w_setup; eauto. apply IH. intros Hf. apply Hnr. apply (ri_link _ _ _ HR). exact Hf.
Qed.

(* the trace grows by reports about k; if k was status-checked before, its setup-tasks have finished *)
Lemma Rn_of_ext tr evs k :
  Forall (about k) evs ->
  (In (EGetStatus k) tr -> forall x, In x (t_setup (get_task k)) -> finished_in tr x) ->
  forall r y, In y (t_setup (get_task r)) -> Rn_of tr r y -> Rn_of (tr ++ evs) r y.
Proof.
  intros Ha Hk r y Hy [Hg Hr]. split; [apply in_app_iff; auto|].
  destruct Hr as [Hr|Hr]; [|right; apply finished_in_app; exact Hr].
  destruct (N.eqb_spec r k) as [->|Hne].
  - right. apply finished_in_app. apply Hk; auto.
  - left. intros Hf. apply finished_in_In in Hf. destruct Hf as (e & Hin & He).
    apply in_app_iff in Hin. destruct Hin as [Hin|Hin].
    + apply Hr. apply finished_in_In. eauto.
    + rewrite Forall_forall in Ha. apply Hne. eapply about_final; eauto.
Qed.


(* ---------- shape of the trace around status checks ---------- *)
(* the tasks whose status was checked, in order *)
Definition gets (tr : list event) : list name := flat_map (fun e => match e with EGetStatus k => [k] | _ => [] end) tr.
Definition is_up (e : event) : bool := match e with ESkipUpToDate _ => true | _ => false end.
(* an up-to-date report directly follows the status check of the same task (it is only made by the first selection) *)
Definition upadj (tr : list event) : Prop :=
  forall a r b, tr = a ++ ESkipUpToDate r :: b -> exists a', a = a' ++ [EGetStatus r].
Record TA (tr : list event) : Prop := { ta_nd : NoDup (gets tr); ta_up : upadj tr }.

Lemma gets_app a b : gets (a ++ b) = gets a ++ gets b.
Proof. unfold gets. apply flat_map_app. Qed.
Lemma gets_In tr k : In k (gets tr) <-> In (EGetStatus k) tr.
Proof.
  unfold gets. rewrite in_flat_map. split.
  - intros (e & He & Hk). destruct e; simpl in Hk; try contradiction. destruct Hk as [<-|[]]. exact He.
  - intros H. exists (EGetStatus k). split; auto. left. reflexivity.
Qed.
Lemma noup_notin evs r : forallb (fun e => negb (is_up e)) evs = true -> ~ In (ESkipUpToDate r) evs.
Proof. intros H Hin. rewrite forallb_forall in H. specialize (H _ Hin). discriminate. Qed.

Lemma upadj_app_noup tr evs : upadj tr -> forallb (fun e => negb (is_up e)) evs = true -> upadj (tr ++ evs).
Proof.
  intros H Hn a r b E. apply app_eq_app in E. destruct E as [l [[E1 E2]|[E1 E2]]].
  - destruct l as [|e l].
    + exfalso. simpl in E2. apply (noup_notin evs r Hn). rewrite <- E2. left. reflexivity.
    + inversion E2; subst. eapply H. reflexivity.
  - exfalso. apply (noup_notin evs r Hn). rewrite E2. apply in_app_iff. right. left. reflexivity.
Qed.

Lemma upadj_app_up tr k : upadj tr -> upadj (tr ++ [EGetStatus k; ESkipUpToDate k]).
Proof.
  intros H a r b E. apply app_eq_app in E. destruct E as [l [[E1 E2]|[E1 E2]]].
  - destruct l as [|e l].
    + simpl in E2. discriminate.
    + inversion E2; subst. eapply H. reflexivity.
  - destruct l as [|e [|e' l]].
    + simpl in E2. discriminate.
    + simpl in E2. inversion E2; subst. exists tr. reflexivity.
    + simpl in E2. inversion E2. destruct l; discriminate.
Qed.

Lemma plain_noup evs : forallb plain_ev evs = true -> forallb (fun e => negb (is_up e)) evs = true /\ gets evs = [].
Proof.
  induction evs as [|e evs IH]; simpl; auto. intros H. apply andb_true_iff in H. destruct H as [He Hl].
  destruct (IH Hl) as [A B]. rewrite A. destruct e; simpl in *; try discriminate; auto.
Qed.

Lemma TA_app_plain tr evs : TA tr -> forallb (fun e => negb (is_up e)) evs = true -> gets evs = [] -> TA (tr ++ evs).
Proof.
  intros [A B] Hn Hg. split; [rewrite gets_app, Hg, app_nil_r; exact A|apply upadj_app_noup; auto].
Qed.

(* the position of a status check in a trace where every task is checked at most once *)
Lemma get_unique r : forall a b a' b',
  NoDup (gets (a ++ EGetStatus r :: b)) -> a ++ EGetStatus r :: b = a' ++ EGetStatus r :: b' -> a = a' /\ b = b'.
Proof.
  induction a as [|e a IH]; intros b a' b' Hn E.
  - destruct a' as [|e' a']; [inversion E; auto|]. exfalso. simpl in E. inversion E; subst.
    simpl in Hn. inversion Hn as [|x y Hni _]; subst. apply Hni. apply gets_In. apply in_app_iff. right. left. reflexivity.
  - destruct a' as [|e' a'].
    + exfalso. simpl in E. inversion E; subst. simpl in Hn. inversion Hn as [|x y Hni _]; subst.
      apply Hni. apply gets_In. apply in_app_iff. right. left. reflexivity.
    + simpl in E. inversion E; subst. destruct (IH b a' b') as [-> ->]; auto.
      simpl in Hn. destruct e'; simpl in Hn; auto. inversion Hn; auto.
Qed.

(* a task that was status-checked and has no final report at the moment s starts is never reported up-to-date *)
Lemma not_uptodate_later pre e post r :
  TA (pre ++ e :: post) -> is_up e = false -> In (EGetStatus r) pre -> ~ finished_in pre r ->
  ~ In (ESkipUpToDate r) (pre ++ e :: post).
Proof.
  intros [Hnd Hup] He Hg Hnf Hin.
  apply in_split in Hin. destruct Hin as (a & b & E).
  destruct (Hup a r b E) as [a' ->].
  apply in_split in Hg. destruct Hg as (p1 & p2 & ->).
  rewrite <- !app_assoc in E. simpl in E.
  destruct (get_unique r p1 (p2 ++ e :: post) a' (ESkipUpToDate r :: b)) as [_ E2]; auto.
  { rewrite <- app_assoc in Hnd. exact Hnd. }
  destruct p2 as [|x p2]; simpl in E2; inversion E2; subst.
  - discriminate.
  - apply Hnf. apply finished_in_In. exists (ESkipUpToDate r). split; [apply in_app_iff; right; right; left; reflexivity|].
    simpl. apply N.eqb_refl.
Qed.

(* the status of a task is checked only if the task is wanted *)
Inductive checked_tr : list event -> Prop :=
| ck_nil : checked_tr []
| ck_snoc tr e : checked_tr tr -> (forall t, e = EGetStatus t -> wanted tr t) -> checked_tr (tr ++ [e]).

Lemma checked_app_noget tr evs : checked_tr tr -> gets evs = [] -> checked_tr (tr ++ evs).
Proof.
  revert tr. induction evs as [|e evs IH]; intros tr Ho Hn; simpl in *.
  - rewrite app_nil_r. exact Ho.
  - replace (tr ++ e :: evs) with ((tr ++ [e]) ++ evs) by (rewrite <- app_assoc; reflexivity).
    destruct e; simpl in Hn; try discriminate; (apply IH; auto; constructor; auto; intros t Et; discriminate).
Qed.

Lemma checked_split tr : checked_tr tr -> forall pre t post, tr = pre ++ EGetStatus t :: post -> wanted pre t.
Proof.
  induction 1 as [|tr e Ho IH He]; intros pre t post E.
  - destruct pre; discriminate.
  - destruct post as [|p post'] using rev_ind.
    + apply app_inj_tail in E. destruct E as [-> ->]. apply He. reflexivity.
    + clear IHpost'. rewrite app_comm_cons, app_assoc in E. apply app_inj_tail in E. destruct E as [-> _].
      eapply IH; eauto.
Qed.

Record RL (r : rstate) : Prop := {
  rl_ri : RI (r_d r) (r_tr r);
  rl_a : AInv (r_d r);
  rl_w : LW (Rn_of (r_tr r)) (r_d r);
  rl_gs : GS (r_d r) (r_tr r);
  rl_ta : TA (r_tr r);
  rl_ck : checked_tr (r_tr r)
}.

Lemma RL_HRn r : RL r -> HRn (Rn_of (r_tr r)) (r_d r).
Proof.
  intros [HR _ _ HG _ _] k x Hk. split.
  - apply HG. rewrite Hk. discriminate.
  - left. intros Hf. apply (ri_link2 _ _ _ HR) in Hf. unfold DispatchInv.final in Hf. rewrite Hk in Hf. discriminate.
Qed.

(* ---------- the dispatcher is asked for the next task ---------- *)
Lemma RL_disp fuel r last y d :
  RL r -> Pre (r_d r) -> (forall k, last = Some k -> st_of (r_d r) k <> SNone /\ exn (r_d r) k) ->
  disp_send tasks wake_rank calc_rank fuel (r_d r) last = (y, d) ->
  RL (with_d r d) /\ disp_post tasks (r_d r) d y.
Proof.
  intros HL HP Hl E. pose proof HL as [HR HA HW HG HT HC].
  assert (Hpost : disp_post tasks (r_d r) d y).
  { eapply disp_send_spec; eauto; [apply (ri_inv _ _ _ HR)|apply (ri_res _ _ _ HR)|apply (ri_q _ _ _ HR)|].
    intros k Ek. apply (Hl k Ek). }
  split; auto. split; simpl.
  - eapply RI_disp; eauto.
  - eapply disp_send_A; eauto.
  - eapply disp_send_LW; eauto; [apply RL_HRn; exact HL|].
    intros k Ek. apply (Hl k Ek).
  - intros k. rewrite (HG k). destruct Hpost as (_ & _ & _ & St & _). rewrite St. tauto.
  - exact HT.
  - exact HC.
Qed.

(* ---------- select_task ---------- *)
Lemma select_task_gets r k b r1 :
  select_task r k = (b, r1) -> forall z, In (EGetStatus z) (r_tr r1) -> In (EGetStatus z) (r_tr r) \/ z = k.
Proof.
  intros E. apply (select_task_pres tasks continue_ always
     (fun r0 => forall z, In (EGetStatus z) (r_tr r0) -> In (EGetStatus z) (r_tr r) \/ z = k) k) with (r := r) (b := b); auto.
  - intros r0 e H Hin z Hz. unfold emit in Hz. simpl in Hz. apply in_app_iff in Hz. destruct Hz as [Hz|[Hz|[]]]; auto.
    destruct Hin as [<-|[<-|[<-|[]]]]; inversion Hz; auto.
  - intros r0 kd H z Hz. unfold handle_error, handle_error_gen in Hz. simpl in Hz. apply in_app_iff in Hz.
    destruct Hz as [Hz|[Hz|[Hz|[]]]]; auto; discriminate.
Qed.

Lemma select_task_get_first r k b r1 :
  select_task r k = (b, r1) -> n_st (node_of (r_d r) k) = SNone -> In (EGetStatus k) (r_tr r1).
Proof.
  intros E Est.
  destruct (select_task_ext tasks continue_ always _ _ _ _ E) as [[evs Eq] _].
  unfold Runner.select_task in E. rewrite Est in E.
  assert (Hga : forall r0 b0 r2, In (EGetStatus k) (r_tr r0) -> get_args tasks continue_ r0 k = (b0, r2) -> In (EGetStatus k) (r_tr r2)).
  { intros r0 b0 r2 H0 Q. unfold get_args in Q. destruct (t_argerr (get_task k)); inversion Q; subst; auto.
    unfold handle_error, handle_error_gen. simpl. apply in_app_iff. auto. }
  assert (H0 : In (EGetStatus k) (r_tr (emit r [EGetStatus k]))) by (unfold emit; simpl; apply in_app_iff; right; left; reflexivity).
  destruct (negb (is_nil (n_ign (node_of (r_d r) k))) || t_dbignore (get_task k)).
  { inversion E; subst. unfold emit. simpl. apply in_app_iff. left. exact H0. }
  destruct (negb (is_nil (n_bad (node_of (r_d r) k)))).
  { inversion E; subst. unfold handle_error, handle_error_gen. simpl. apply in_app_iff. left. exact H0. }
  destruct (t_check (get_task k)).
  - destruct always; cbv beta iota zeta in E;
      (destruct (is_nil (t_setup (get_task k))); [eapply Hga; [|exact E]; exact H0|inversion E; subst; exact H0]).
  - destruct always; cbv beta iota zeta in E.
    + destruct (is_nil (t_setup (get_task k))); [eapply Hga; [|exact E]; exact H0|inversion E; subst; exact H0].
    + inversion E; subst. unfold emit. simpl. apply in_app_iff. left. exact H0.
  - inversion E; subst. unfold handle_error, handle_error_gen. simpl. apply in_app_iff. left. exact H0.
Qed.


Lemma select_task_evs r k b r1 :
  select_task r k = (b, r1) ->
  exists evs, r_tr r1 = r_tr r ++ evs /\
    gets evs = (match n_st (node_of (r_d r) k) with SNone => [k] | _ => [] end) /\
    (forallb (fun e => negb (is_up e)) evs = true \/ evs = [EGetStatus k; ESkipUpToDate k]).
Proof.
  intros E. unfold Runner.select_task in E.
  assert (Hga : forall r0 b0 r2, get_args tasks continue_ r0 k = (b0, r2) ->
            exists evs, r_tr r2 = r_tr r0 ++ evs /\ gets evs = [] /\ forallb (fun e => negb (is_up e)) evs = true).
  { intros r0 b0 r2 Q. unfold get_args in Q. destruct (t_argerr (get_task k)); inversion Q; subst.
    - eexists. split; [reflexivity|split; reflexivity].
    - exists []. rewrite app_nil_r. auto. }
  assert (Hlater :
     (if negb (is_nil (n_ign (node_of (r_d r) k)))
      then (false, emit (with_d r (set_status (r_d r) k SIgnore)) [ESkipIgnore k])
      else if negb (is_nil (n_bad (node_of (r_d r) k))) then (false, handle_error tasks continue_ r k kind_unmet)
      else get_args tasks continue_ r k) = (b, r1) ->
     exists evs, r_tr r1 = r_tr r ++ evs /\ gets evs = [] /\ forallb (fun e => negb (is_up e)) evs = true).
  { intros Q. destruct (negb (is_nil (n_ign _))).
    { inversion Q; subst. eexists. split; [reflexivity|split; reflexivity]. }
    destruct (negb (is_nil (n_bad _))).
    { inversion Q; subst. eexists. split; [reflexivity|split; reflexivity]. }
    eapply Hga; eauto. }
  destruct (n_st (node_of (r_d r) k));
    try (destruct (Hlater E) as (evs & A & B & C); exists evs; auto).
  clear Hlater.
  assert (Hrun : forall st,
     (if is_nil (t_setup (get_task k))
      then get_args tasks continue_ (with_d (emit r [EGetStatus k]) (set_status (r_d (emit r [EGetStatus k])) k st)) k
      else (false, with_d (emit r [EGetStatus k]) (set_status (r_d (emit r [EGetStatus k])) k st))) = (b, r1) ->
     exists evs, r_tr r1 = r_tr r ++ evs /\ gets evs = [k] /\ forallb (fun e => negb (is_up e)) evs = true).
  { intros st Q. destruct (is_nil (t_setup (get_task k))).
    - destruct (Hga _ _ _ Q) as (evs & A & B & C). simpl in A. exists (EGetStatus k :: evs).
      split; [rewrite A, <- app_assoc; reflexivity|]. split; [simpl; rewrite B; reflexivity|simpl; exact C].
    - inversion Q; subst. exists [EGetStatus k]. auto. }
  destruct (negb (is_nil (n_ign (node_of (r_d r) k))) || t_dbignore (get_task k)).
  { inversion E; subst. exists [EGetStatus k; ESkipIgnore k]. split; [simpl; rewrite <- app_assoc; reflexivity|auto]. }
  destruct (negb (is_nil (n_bad (node_of (r_d r) k)))).
  { inversion E; subst. exists [EGetStatus k; ERemove k; EFailure k kind_unmet]. split; [simpl; rewrite <- app_assoc; reflexivity|auto]. }
  destruct (t_check (get_task k)).
  - destruct always; cbv beta iota zeta in E; destruct (Hrun SRun E) as (evs & A & B & C); exists evs; auto.
  - destruct always; cbv beta iota zeta in E; [destruct (Hrun SRun E) as (evs & A & B & C); exists evs; auto|].
    inversion E; subst. exists [EGetStatus k; ESkipUpToDate k]. split; [simpl; rewrite <- app_assoc; reflexivity|auto].
  - inversion E; subst. exists [EGetStatus k; ERemove k; EFailure k kind_dep]. split; [simpl; rewrite <- app_assoc; reflexivity|auto].
Qed.

Lemma TA_select r k b r1 : GS (r_d r) (r_tr r) -> TA (r_tr r) -> select_task r k = (b, r1) -> TA (r_tr r1).
Proof.
  intros HG [Hnd Hup] E. destruct (select_task_evs _ _ _ _ E) as (evs & Eq & Hg & Hu). rewrite Eq. split.
  - rewrite gets_app, Hg. destruct (n_st (node_of (r_d r) k)) eqn:Est; try (rewrite app_nil_r; exact Hnd).
    apply NoDup_snoc; auto. intros Hin. apply gets_In in Hin. apply HG in Hin. apply Hin. exact Est.
  - destruct Hu as [Hu| ->]; [apply upadj_app_noup; auto|apply upadj_app_up; auto].
Qed.

Lemma process_result_evs r k :
  exists evs, r_tr (process_result r k) = r_tr r ++ evs /\ gets evs = [] /\ forallb (fun e => negb (is_up e)) evs = true.
Proof.
  unfold Runner.process_result, handle_error, handle_error_gen, emit. destruct (t_outcome (get_task k)); simpl;
    try (eexists; split; [reflexivity|split; reflexivity]).
  exists []. rewrite app_nil_r. auto.
Qed.

Lemma select_task_first r k b r1 :
  select_task r k = (b, r1) -> n_st (node_of (r_d r) k) = SNone ->
  exists rest, r_tr r1 = r_tr r ++ EGetStatus k :: rest.
Proof.
  intros E Est. unfold Runner.select_task in E. rewrite Est in E.
  assert (Hga : forall r0 b0 r2, (exists rest, r_tr r0 = r_tr r ++ EGetStatus k :: rest) ->
            get_args tasks continue_ r0 k = (b0, r2) -> exists rest, r_tr r2 = r_tr r ++ EGetStatus k :: rest).
  { intros r0 b0 r2 [rest H0] Q. unfold get_args in Q. destruct (t_argerr (get_task k)); inversion Q; subst; eauto.
    unfold handle_error, handle_error_gen. simpl. rewrite H0, <- app_assoc. simpl. eauto. }
  assert (H0 : forall d0, exists rest, r_tr (with_d (emit r [EGetStatus k]) d0) = r_tr r ++ EGetStatus k :: rest)
    by (intros d0; exists []; reflexivity).
  destruct (negb (is_nil (n_ign (node_of (r_d r) k))) || t_dbignore (get_task k)).
  { inversion E; subst. simpl. rewrite <- app_assoc. simpl. eauto. }
  destruct (negb (is_nil (n_bad (node_of (r_d r) k)))).
  { inversion E; subst. simpl. rewrite <- app_assoc. simpl. eauto. }
  destruct (t_check (get_task k)).
  - destruct always; cbv beta iota zeta in E;
      (destruct (is_nil (t_setup (get_task k))); [eapply Hga; [|exact E]; apply H0|inversion E; subst; apply H0]).
  - destruct always; cbv beta iota zeta in E.
    + destruct (is_nil (t_setup (get_task k))); [eapply Hga; [|exact E]; apply H0|inversion E; subst; apply H0].
    + inversion E; subst. simpl. rewrite <- app_assoc. simpl. eauto.
  - inversion E; subst. simpl. rewrite <- app_assoc. simpl. eauto.
Qed.

Lemma RL_select r k b r1 :
  RL r -> handed tasks (r_d r) k -> d_cur (r_d r) = Some k ->
  select_task r k = (b, r1) -> RL r1.
Proof.
  intros HL HK Hcur E. pose proof HL as [HR HA HW HG HT HC].
  pose proof (select_task_post tasks continue_ always r k b r1 HR HK E) as (R1 & P1 & S1 & Pc1 & C1 & D1 & T1 & O1).
  destruct (select_task_about tasks continue_ always _ _ _ _ E) as (evs & Eq & Ha).
  assert (Hk : exn (r_d r) k) by (apply (lw_q _ _ HW); auto).
  pose proof (handed_in_setup tasks _ _ HK) as Hns.
  split; auto.
  - eapply select_task_A; eauto.
  - (* first the status changes, under the old trace; then the trace is extended *)
    assert (H1 : LW (Rn_of (r_tr r)) (r_d r1) /\ exn (r_d r1) k /\ in_setup (n_pc (node_of (r_d r1) k)) = false).
    { apply (select_task_pres tasks continue_ always
         (fun r0 => LW (Rn_of (r_tr r)) (r_d r0) /\ exn (r_d r0) k /\ in_setup (n_pc (node_of (r_d r0) k)) = false) k)
         with (r := r) (b := b); auto.
      - intros r0 s (A & B & C). simpl. split; [apply set_status_LW; auto|].
        split; [apply set_status_exn; auto|rewrite set_status_pc; exact C].
      - intros r0 kd (A & B & C). unfold handle_error, handle_error_gen. simpl. split; [apply set_status_LW; auto|].
        split; [apply set_status_exn; auto|rewrite set_status_pc; exact C]. }
    destruct H1 as (H1 & _ & _). rewrite Eq. eapply LW_Rn_mono; [|exact H1].
    apply (Rn_of_ext (r_tr r) evs k); auto. intros Hg x Hx.
    apply (ri_link _ _ _ HR). apply (h_setup _ _ _ HK); auto.
    destruct (h_pc _ _ _ HK) as [Hp|Hp]; auto. exfalso.
    apply HG in Hg. apply Hg. apply (h_first _ _ _ HK Hp).
  - intros z. destruct (N.eqb_spec z k) as [->|Hne].
    + split; [intros _; exact S1|]. intros _.
      destruct (n_st (node_of (r_d r) k)) eqn:Est;
        try (rewrite Eq; apply in_app_iff; left; apply HG; unfold Dispatch.st_of; rewrite Est; discriminate).
      eapply select_task_get_first; eauto.
    + rewrite (O1 z Hne). rewrite <- (HG z). split.
      * intros Hz. destruct (select_task_gets _ _ _ _ E z Hz); auto. contradiction.
      * intros Hz. rewrite Eq. apply in_app_iff. auto.
  - eapply TA_select; eauto.
  - destruct (select_task_evs _ _ _ _ E) as (evs' & Eq' & Hg' & _).
    destruct (n_st (node_of (r_d r) k)) eqn:Est; try solve [rewrite Eq'; apply checked_app_noget; auto].
    destruct (select_task_first _ _ _ _ E Est) as [rest Er].
    assert (Ee : evs' = EGetStatus k :: rest) by (rewrite Eq' in Er; apply app_inv_head in Er; exact Er).
    rewrite Er. replace (r_tr r ++ EGetStatus k :: rest) with ((r_tr r ++ [EGetStatus k]) ++ rest) by (rewrite <- app_assoc; reflexivity).
    apply checked_app_noget.
    + constructor; auto. intros t Et. inversion Et; subst. eapply strict_of; eauto.
      * apply (lw_j _ _ HW). exact Hk.
      * unfold DispatchInv.final, Dispatch.st_of. rewrite Est. discriminate.
    + rewrite Ee in Hg'. simpl in Hg'. inversion Hg'. reflexivity.
Qed.

(* ---------- execution ---------- *)

Lemma Rn_of_plain tr evs r y : forallb plain_ev evs = true -> Rn_of tr r y -> Rn_of (tr ++ evs) r y.
Proof.
  intros Hp [A B]. split; [apply in_app_iff; auto|].
  destruct B as [B|B]; [left|right; apply finished_in_app; exact B].
  intros Hf. apply B. unfold finished_in in *. rewrite existsb_app in Hf. apply orb_true_iff in Hf.
  destruct Hf as [Hf|Hf]; auto. exfalso. apply existsb_exists in Hf. destruct Hf as (e & Hin & He).
  rewrite forallb_forall in Hp. specialize (Hp e Hin). destruct e; simpl in *; discriminate.
Qed.

(* the runner reports something that is neither a final report nor a status check (execute, teardown, close) *)
Lemma RL_plain r r' evs :
  RL r -> r_d r' = r_d r -> r_tr r' = r_tr r ++ evs -> forallb plain_ev evs = true ->
  RI (r_d r') (r_tr r') -> RL r'.
Proof.
  intros [HR HA HW HG HT HC] Ed Et Hp HR'. split; auto.
  - rewrite Ed. exact HA.
  - rewrite Ed, Et. eapply LW_Rn_mono; [|exact HW]. intros r0 y _. apply Rn_of_plain. exact Hp.
  - rewrite Ed, Et. intros z. rewrite <- (HG z). rewrite in_app_iff.
    split; [intros [H|H]; auto|auto]. exfalso. rewrite forallb_forall in Hp. specialize (Hp _ H). discriminate.
  - rewrite Et. destruct (plain_noup evs Hp) as [A B]. apply TA_app_plain; auto.
  - rewrite Et. destruct (plain_noup evs Hp) as [A B]. apply checked_app_noget; auto.
Qed.

Lemma RL_start r k :
  RL r -> (forall x, In x (static_deps tasks k) -> finished_in (r_tr r) x) -> RL (start_task r k).
Proof.
  intros HL Hd. apply (RL_plain r _ [EExecute k]); auto. apply start_task_RI; auto. apply (rl_ri _ HL).
Qed.

Lemma process_result_gets r k z :
  In (EGetStatus z) (r_tr (process_result r k)) -> In (EGetStatus z) (r_tr r).
Proof.
  unfold Runner.process_result, handle_error, handle_error_gen, emit. destruct (t_outcome (get_task k)); simpl; auto;
    rewrite in_app_iff; simpl; intros [H|[H|[H|[]]]]; auto; discriminate.
Qed.

Lemma RL_process r k :
  RL r -> early (n_pc (node_of (r_d r) k)) = false -> PreX tasks (r_d r) k ->
  in_setup (n_pc (node_of (r_d r) k)) = false -> st_of (r_d r) k = SRun -> exn (r_d r) k ->
  (forall x, In x (t_setup (get_task k)) -> finished_in (r_tr r) x) ->
  is_interrupt tasks k = false ->
  RL (process_result r k) /\ Pre (r_d (process_result r k)) /\ st_of (r_d (process_result r k)) k <> SNone.
Proof.
  intros HL He HPx Hns Hst Hk Hsu Hni. pose proof HL as [HR HA HW HG HT HC].
  destruct (process_result_post tasks continue_ r k HR He HPx Hns Hst) as [(R3 & P3 & S3)|Hint].
  2:{ unfold is_interrupt in Hni. rewrite Hint in Hni. discriminate. }
  split; auto. destruct (process_result_about tasks continue_ r k) as (evs & Eq & Ha).
  split; auto.
  - apply process_result_A. exact HA.
  - assert (H1 : LW (Rn_of (r_tr r)) (r_d (process_result r k))).
    { unfold Runner.process_result, handle_error, handle_error_gen. destruct (t_outcome (get_task k)); simpl; auto;
        apply set_status_LW; auto. }
    rewrite Eq. eapply LW_Rn_mono; [|exact H1]. apply (Rn_of_ext (r_tr r) evs k); auto.
  - intros z. split.
    + intros Hz. apply process_result_gets in Hz. apply HG in Hz.
      destruct (N.eqb_spec z k) as [->|Hne]; auto.
      assert (Hs : st_of (r_d (process_result r k)) z = st_of (r_d r) z).
      { unfold Runner.process_result, handle_error, handle_error_gen. destruct (t_outcome (get_task k)); simpl; auto;
          rewrite set_status_st; apply N.eqb_neq in Hne; rewrite Hne; reflexivity. }
      rewrite Hs. exact Hz.
    + intros Hz. rewrite Eq. apply in_app_iff. left. apply HG.
      destruct (N.eqb_spec z k) as [->|Hne]; [rewrite Hst; discriminate|].
      assert (Hs : st_of (r_d (process_result r k)) z = st_of (r_d r) z).
      { unfold Runner.process_result, handle_error, handle_error_gen. destruct (t_outcome (get_task k)); simpl; auto;
          rewrite set_status_st; apply N.eqb_neq in Hne; rewrite Hne; reflexivity. }
      rewrite <- Hs. exact Hz.
  - destruct (process_result_evs r k) as (evs' & Eq' & B' & C'). rewrite Eq'. apply TA_app_plain; auto.
  - destruct (process_result_evs r k) as (evs' & Eq' & B' & C'). rewrite Eq'. apply checked_app_noget; auto.
Qed.

(* ---------- the trace property ---------- *)
Inductive lazy_tr : list event -> Prop :=
| lz_nil : lazy_tr []
| lz_snoc tr e : lazy_tr tr -> (forall t, e = EExecute t -> wanted tr t) -> lazy_tr (tr ++ [e]).

Lemma lazy_app_noexec tr evs : lazy_tr tr -> forallb (fun e => negb (is_exec e)) evs = true -> lazy_tr (tr ++ evs).
Proof.
  revert tr. induction evs as [|e evs IH]; intros tr Ho Hn; simpl in *.
  - rewrite app_nil_r. exact Ho.
  - apply andb_true_iff in Hn. destruct Hn as [He Hn].
    replace (tr ++ e :: evs) with ((tr ++ [e]) ++ evs) by (rewrite <- app_assoc; reflexivity).
    apply IH; auto. constructor; auto. intros t ->. discriminate.
Qed.

Lemma lazy_split tr : lazy_tr tr -> forall pre t post, tr = pre ++ EExecute t :: post -> wanted pre t.
Proof.
  induction 1 as [|tr e Ho IH He]; intros pre t post E.
  - destruct pre; discriminate.
  - destruct post as [|p post'] using rev_ind.
    + apply app_inj_tail in E. destruct E as [-> ->]. apply He. reflexivity.
    + clear IHpost'. rewrite app_comm_cons, app_assoc in E. apply app_inj_tail in E. destruct E as [-> _].
      eapply IH; eauto.
Qed.

Lemma process_result_cur r k : d_cur (r_d (process_result r k)) = d_cur (r_d r).
Proof. unfold Runner.process_result, handle_error, handle_error_gen. destruct (t_outcome (get_task k)); reflexivity. Qed.

(* the task whose actions are about to start is wanted *)
Lemma RL_wanted r k : RL r -> exn (r_d r) k -> st_of (r_d r) k = SRun -> wanted (r_tr r) k.
Proof.
  intros [HR HA HW HG HT HC] Hk Hst. eapply strict_of; eauto.
  - apply (lw_j _ _ HW). exact Hk.
  - unfold DispatchInv.final. rewrite Hst. discriminate.
Qed.

Lemma TA_finish r : TA (r_tr r) -> TA (r_tr (finish r)).
Proof.
  intros H. unfold finish, emit. simpl. apply TA_app_plain; auto.
  - simpl. induction (rev (r_td r)); simpl; auto.
  - simpl. induction (rev (r_td r)); simpl; auto.
Qed.

Lemma serial_L fuel : forall r last,
  RL r -> Pre (r_d r) ->
  (forall k, last = Some k -> st_of (r_d r) k <> SNone /\ d_cur (r_d r) = Some k) ->
  lazy_tr (r_tr r) ->
  let r' := fst (serial tasks wake_rank calc_rank continue_ always fuel r last) in
  lazy_tr (r_tr r') /\ RL r'.
Proof.
  induction fuel as [|fuel IH]; intros r last HL HP Hl HZ; cbn [Runner.serial]; cbv zeta.
  { simpl. split; auto. }
  assert (Hfin : forall r0, RL r0 -> lazy_tr (r_tr r0) -> lazy_tr (r_tr (finish r0)) /\ RL (finish r0)).
  { intros r0 L0 H0. split.
    - unfold finish, emit. simpl. apply lazy_app_noexec; auto. simpl. apply noexec_teardowns.
    - apply (RL_plain r0 _ (EClose :: map ETeardown (rev (r_td r0)))); auto.
      + simpl. induction (rev (r_td r0)); simpl; auto.
      + apply (finish_RI tasks). apply (rl_ri _ L0). }
  destruct (r_stop r). { cbn [fst]. apply Hfin; auto. }
  destruct (disp_send tasks wake_rank calc_rank (S fuel) (r_d r) last) as [y d] eqn:Ed.
  assert (Hl' : forall k, last = Some k -> st_of (r_d r) k <> SNone /\ exn (r_d r) k).
  { intros k Ek. destruct (Hl k Ek) as [A B]. split; auto. apply (lw_q _ _ (rl_w _ HL)). auto. }
  destruct (RL_disp _ _ _ _ _ HL HP Hl' Ed) as [HL' Hpost].
  destruct y as [k| | |path|]; try (cbn [fst]; apply Hfin; auto).
  2:{ cbn [fst]. split; auto. }
  destruct (handed_of_post tasks _ _ _ Hpost) as (HK & Hcur & Hns).
  destruct (select_task (with_d r d) k) as [b r1] eqn:Es.
  pose proof (RL_select _ _ _ _ HL' HK Hcur Es) as HL1.
  pose proof (select_task_post tasks continue_ always (with_d r d) k b r1 (rl_ri _ HL') HK Es) as (R1 & P1 & S1 & Pc1 & C1 & D1 & T1 & O1).
  assert (Hcur1 : d_cur (r_d r1) = Some k) by (rewrite C1; exact Hcur).
  assert (Hk1 : exn (r_d r1) k) by (apply (lw_q _ _ (rl_w _ HL1)); auto).
  assert (Z1 : lazy_tr (r_tr r1)).
  { destruct (select_task_about tasks continue_ always _ _ _ _ Es) as [evs [Eq Ha]]. simpl in Eq. rewrite Eq.
    apply lazy_app_noexec; auto. eapply about_noexec; eauto. }
  destruct b.
  - destruct (T1 eq_refl) as (Srun & _ & _).
    assert (HL2 : RL (start_task r1 k)) by (apply RL_start; auto).
    assert (Z2 : lazy_tr (r_tr (start_task r1 k))).
    { unfold Runner.start_task. simpl. constructor; auto. intros t Et. inversion Et; subst. apply RL_wanted; auto. }
    destruct (is_interrupt tasks k) eqn:Ei. { cbn [fst]. apply Hfin; auto. }
    destruct (RL_process (start_task r1 k) k HL2) as (HL3 & P3 & S3); auto.
    + unfold Runner.start_task. simpl. rewrite Pc1. apply (handed_early tasks _ _ HK).
    + unfold Runner.start_task. simpl. intros z Hz Hpc. apply P1. exact Hpc.
    + unfold Runner.start_task. simpl. rewrite Pc1. apply (handed_in_setup tasks _ _ HK).
    + intros x Hx. unfold Runner.start_task. simpl. apply finished_in_app. apply D1; auto.
      unfold static_deps. rewrite !in_app_iff. auto.
    + apply IH; auto.
      * intros k' E'. inversion E'; subst. split; auto. rewrite process_result_cur. exact Hcur1.
      * destruct (process_result_about tasks continue_ (start_task r1 k) k) as [evs [Eq Ha]]. rewrite Eq.
        apply lazy_app_noexec; auto. eapply about_noexec; eauto.
  - apply IH; auto. intros k' E'. inversion E'; subst. auto.
Qed.

Lemma LW_init Rn : LW Rn (disp_init sel).
Proof.
  split; simpl.
  - intros z [[]|[[]|E]]. discriminate.
  - intros x w [].
  - intros x Hx. exfalso. apply Hx. reflexivity.
  - intros me Hme. discriminate.
  - intros me y Hy. left. apply in_app_iff. auto.
  - apply incl_refl.
Qed.

Lemma RL_init : RL (r_init sel).
Proof.
  split; simpl.
  - apply RI_init.
  - apply AInv_init.
  - apply LW_init.
  - intros k. simpl. split; [intros []|intros H; exfalso; apply H; reflexivity].
  - split; [constructor|]. intros a r b E. destruct a; discriminate.
  - constructor.
Qed.

(* LAZINESS, serial runner: when the actions of a task s start, there is a chain from the selection to s
   through tasks without a final report so far, along task_dep / calc_dep edges (declared or returned by a
   calc_dep) and setup edges r -> x where r's status was checked (EGetStatus r) before and r has NOT been
   reported up-to-date / ignored / failed (incl. unmet dependency) / successful before s starts *)
Theorem serial_lazy fuel pre s post :
  fst (run_serial tasks wake_rank calc_rank continue_ always fuel sel) = pre ++ EExecute s :: post ->
  wanted pre s.
Proof.
  unfold run_serial.
  pose proof (serial_L fuel (r_init sel) None RL_init) as H.
  destruct (serial tasks wake_rank calc_rank continue_ always fuel (r_init sel) None) as [r st] eqn:E. simpl in *.
  intros Eq. eapply (lazy_split (r_tr r ++ stop_marker st)); [|exact Eq].
  apply lazy_app_noexec; [|destruct st; reflexivity].
  apply H.
  - intros z Hz. simpl in Hz. discriminate.
  - intros k E'. discriminate.
  - constructor.
Qed.

Lemma serial_TA fuel : TA (fst (run_serial tasks wake_rank calc_rank continue_ always fuel sel)).
Proof.
  unfold run_serial.
  pose proof (serial_L fuel (r_init sel) None RL_init) as H.
  destruct (serial tasks wake_rank calc_rank continue_ always fuel (r_init sel) None) as [r st] eqn:E. simpl in *.
  apply TA_app_plain; [|destruct st; reflexivity|destruct st; reflexivity].
  apply (rl_ta r). apply H.
  - intros z Hz. simpl in Hz. discriminate.
  - intros k E'. discriminate.
  - constructor.
Qed.

(* LAZINESS of the status check (which runs the task's uptodate code): the status of a task is looked at only
   if the task is wanted at that moment -- in particular a setup-task is not even status-checked before the task
   requiring it went through its own status check with result `run` *)
Theorem serial_lazy_check fuel pre s post :
  fst (run_serial tasks wake_rank calc_rank continue_ always fuel sel) = pre ++ EGetStatus s :: post ->
  wanted pre s.
Proof.
  unfold run_serial.
  pose proof (serial_L fuel (r_init sel) None RL_init) as H.
  destruct (serial tasks wake_rank calc_rank continue_ always fuel (r_init sel) None) as [r st] eqn:E. simpl in *.
  intros Eq. eapply (checked_split (r_tr r ++ stop_marker st)); [|exact Eq].
  apply checked_app_noget; [|destruct st; reflexivity].
  apply (rl_ck r). apply H.
  - intros z Hz. simpl in Hz. discriminate.
  - intros k E'. discriminate.
  - constructor.
Qed.

(* the corollary in the words of the property: a task that is executed without being selected and without
   being a task_dep / calc_dep of anything is the setup-task of a task r that went through its status check
   and had not been skipped (up-to-date, ignored) nor failed (unmet dependency, check error, ...) when s
   started: s runs on behalf of a task that is going to execute *)
Theorem serial_lazy_setup_only fuel pre s post :
  fst (run_serial tasks wake_rank calc_rank continue_ always fuel sel) = pre ++ EExecute s :: post ->
  ~ In s sel -> (forall p, ~ hdep p s) ->
  exists r, In s (t_setup (get_task r)) /\ In (EGetStatus r) pre /\ ~ finished_in pre r /\ wanted pre r.
Proof.
  intros E Hs Hd. pose proof (serial_lazy fuel pre s post E) as H.
  inversion H as [x Hx|p x Hp Hnp Hx|r x Hr Hnr Hg Hx]; subst.
  - contradiction.
  - exfalso. eapply Hd; eauto.
  - exists r. auto.
Qed.

(* ... and that task r is not an up-to-date task: it is not reported up-to-date anywhere in the run *)
Theorem serial_lazy_not_uptodate fuel pre s post :
  let tr := fst (run_serial tasks wake_rank calc_rank continue_ always fuel sel) in
  tr = pre ++ EExecute s :: post ->
  ~ In s sel -> (forall p, ~ hdep p s) ->
  exists r, In s (t_setup (get_task r)) /\ In (EGetStatus r) pre /\ ~ finished_in pre r /\ ~ In (ESkipUpToDate r) tr.
Proof.
  cbv zeta. intros E Hs Hd. destruct (serial_lazy_setup_only fuel pre s post E Hs Hd) as (r & A & B & C & _).
  exists r. split; auto. split; auto. split; auto.
  pose proof (serial_TA fuel) as HT. rewrite E in *. apply not_uptodate_later; auto.
Qed.

End L.

Print Assumptions serial_lazy.
Print Assumptions serial_lazy_setup_only.
Print Assumptions serial_lazy_not_uptodate.
Print Assumptions serial_lazy_check.



