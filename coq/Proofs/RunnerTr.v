(* RunnerTr.v -- trace-shape facts of the serial runner that need no dispatcher invariant:
   exit code = function of the failure reports, failures are removed from the DB before they are
   reported, successes are saved before they are reported, teardowns run after the DB was
   closed, once each, in reverse order of execution. *)
From DoitV Require Import Base Dispatch Runner.
Open Scope N_scope.

Definition fail_kinds (tr : list event) : list N :=
  flat_map (fun e => match e with EFailure _ kd => [kd] | _ => [] end) tr.
(* DoitMain exit code as a function of what was reported: 0 nothing failed, 1 only TaskFailed, 2 some error *)
Definition code_of (tr : list event) : N :=
  match fail_kinds tr with
  | [] => 0
  | ks => if forallb (N.eqb 0) ks then 1 else 2 end.
Definition execs (tr : list event) : list name :=
  flat_map (fun e => match e with EExecute k => [k] | _ => [] end) tr.
Definition is_fin_ev (e : event) : bool := match e with EClose | ETeardown _ => true | _ => false end.

Definition is_pair_ev (e : event) : bool :=
  match e with EFailure _ _ | ESuccess _ | ERemove _ | ESave _ => true | _ => false end.

(* every failure report is immediately preceded by remove_success of the same task, every
   success report by save_success (traces are built by appending) *)
Inductive paired : list event -> Prop :=
| p_nil : paired []
| p_plain tr e : paired tr -> is_pair_ev e = false -> paired (tr ++ [e])
| p_fail tr k kd : paired tr -> paired (tr ++ [ERemove k; EFailure k kd])
| p_succ tr k : paired tr -> paired (tr ++ [ESave k; ESuccess k]).

Lemma fail_kinds_app a b : fail_kinds (a ++ b) = fail_kinds a ++ fail_kinds b.
Proof. unfold fail_kinds. apply flat_map_app. Qed.
Lemma execs_app a b : execs (a ++ b) = execs a ++ execs b.
Proof. unfold execs. apply flat_map_app. Qed.

Lemma code_of_fail tr k kd :
  code_of (tr ++ [ERemove k; EFailure k kd]) = if (kd =? 0) && negb (code_of tr =? 2) then 1 else 2.
Proof.
  unfold code_of. rewrite fail_kinds_app. simpl.
  destruct (fail_kinds tr) as [|a l] eqn:E; simpl.
  - destruct kd; reflexivity.
  - rewrite forallb_app. simpl.
    destruct a as [|pa]; simpl; [|destruct kd; reflexivity].
    destruct (forallb (N.eqb 0) l); simpl; destruct kd; reflexivity.
Qed.

Lemma code_of_noFail tr evs : fail_kinds evs = [] -> code_of (tr ++ evs) = code_of tr.
Proof. intros H. unfold code_of. rewrite fail_kinds_app, H, app_nil_r. reflexivity. Qed.

Lemma paired_app_plain tr evs :
  paired tr -> forallb (fun e => negb (is_pair_ev e)) evs = true -> paired (tr ++ evs).
Proof.
  revert tr. induction evs as [|e evs IH]; intros tr Hp Hn; simpl in *.
  - rewrite app_nil_r. exact Hp.
  - apply andb_true_iff in Hn. destruct Hn as [He Hn].
    replace (tr ++ e :: evs) with ((tr ++ [e]) ++ evs) by (rewrite <- app_assoc; reflexivity).
    apply IH; auto. apply p_plain; auto. apply negb_true_iff in He. exact He.
Qed.

(* the split forms used in the property statements *)
Lemma paired_failure_removed tr : paired tr ->
  forall pre k kd post, tr = pre ++ EFailure k kd :: post -> exists pre', pre = pre' ++ [ERemove k].
Proof.
  induction 1 as [|tr e Hp IH He|tr k0 kd0 Hp IH|tr k0 Hp IH]; intros pre k kd post E.
  - destruct pre; discriminate.
  - destruct post as [|x post'] using rev_ind.
    + apply app_inj_tail in E. destruct E as [_ ->]. discriminate.
    + clear IHpost'. rewrite app_comm_cons, app_assoc in E. apply app_inj_tail in E. destruct E as [E _].
      eapply IH; eauto.
  - destruct post as [|x post'] using rev_ind.
    + replace (tr ++ [ERemove k0; EFailure k0 kd0]) with ((tr ++ [ERemove k0]) ++ [EFailure k0 kd0]) in E
        by (rewrite <- app_assoc; reflexivity).
      apply app_inj_tail in E. destruct E as [<- E]. inversion E; subst. exists tr. reflexivity.
    + clear IHpost'. destruct post' as [|y post''] using rev_ind.
      * replace (tr ++ [ERemove k0; EFailure k0 kd0]) with ((tr ++ [ERemove k0]) ++ [EFailure k0 kd0]) in E
          by (rewrite <- app_assoc; reflexivity).
        rewrite app_comm_cons, app_assoc in E. apply app_inj_tail in E. destruct E as [E _].
        simpl in E. apply app_inj_tail in E. destruct E as [_ E]. discriminate.
      * clear IHpost''.
        replace (tr ++ [ERemove k0; EFailure k0 kd0]) with ((tr ++ [ERemove k0]) ++ [EFailure k0 kd0]) in E
          by (rewrite <- app_assoc; reflexivity).
        replace (pre ++ EFailure k kd :: (post'' ++ [y]) ++ [x]) with (((pre ++ EFailure k kd :: post'') ++ [y]) ++ [x]) in E
          by (rewrite <- !app_assoc; reflexivity).
        apply app_inj_tail in E. destruct E as [E _]. apply app_inj_tail in E. destruct E as [E _].
        eapply IH; eauto.
  - destruct post as [|x post'] using rev_ind.
    + replace (tr ++ [ESave k0; ESuccess k0]) with ((tr ++ [ESave k0]) ++ [ESuccess k0]) in E
        by (rewrite <- app_assoc; reflexivity).
      apply app_inj_tail in E. destruct E as [_ E]. discriminate.
    + clear IHpost'. destruct post' as [|y post''] using rev_ind.
      * replace (tr ++ [ESave k0; ESuccess k0]) with ((tr ++ [ESave k0]) ++ [ESuccess k0]) in E
          by (rewrite <- app_assoc; reflexivity).
        rewrite app_comm_cons, app_assoc in E. apply app_inj_tail in E. destruct E as [E _].
        simpl in E. apply app_inj_tail in E. destruct E as [_ E]. discriminate.
      * clear IHpost''.
        replace (tr ++ [ESave k0; ESuccess k0]) with ((tr ++ [ESave k0]) ++ [ESuccess k0]) in E
          by (rewrite <- app_assoc; reflexivity).
        replace (pre ++ EFailure k kd :: (post'' ++ [y]) ++ [x]) with (((pre ++ EFailure k kd :: post'') ++ [y]) ++ [x]) in E
          by (rewrite <- !app_assoc; reflexivity).
        apply app_inj_tail in E. destruct E as [E _]. apply app_inj_tail in E. destruct E as [E _].
        eapply IH; eauto.
Qed.

Section T.
Variable tasks : name -> option task.
Variable wake_rank : name -> name -> N.
Variable calc_rank : name -> N.
Variable continue_ always : bool.

Notation get_task := (get_task tasks).
Definition has_td (k : name) : bool := t_teardown (get_task k).

Record TInv (r : rstate) : Prop := {
  t_code : r_final r = code_of (r_tr r);
  t_td : r_td r = filter has_td (execs (r_tr r));
  t_pair : paired (r_tr r);
  t_nofin : forallb (fun e => negb (is_fin_ev e)) (r_tr r) = true
}.

Lemma TInv_with_d r d : TInv r -> TInv (with_d r d).
Proof. intros [A B C D]. split; auto. Qed.

Lemma TInv_emit_plain r evs :
  TInv r -> forallb (fun e => negb (is_pair_ev e)) evs = true ->
  forallb (fun e => negb (is_fin_ev e)) evs = true -> execs evs = [] ->
  TInv (emit r evs).
Proof.
  intros [A B C D] Hp Hf He. unfold emit. split; simpl.
  - rewrite code_of_noFail; auto.
    clear -Hp. induction evs as [|e evs IH]; simpl in *; auto.
    apply andb_true_iff in Hp. destruct Hp as [H1 H2]. destruct e; simpl in *; try discriminate; auto.
  - rewrite execs_app, He, app_nil_r. exact B.
  - apply paired_app_plain; auto.
  - rewrite forallb_app, D, Hf. reflexivity.
Qed.

Lemma TInv_handle_error_gen st r k kd : TInv r -> TInv (handle_error_gen tasks continue_ st r k kd).
Proof.
  intros [A B C D]. unfold handle_error_gen. split; simpl.
  - rewrite code_of_fail, A. reflexivity.
  - rewrite execs_app. simpl. rewrite app_nil_r. exact B.
  - apply p_fail. exact C.
  - rewrite forallb_app, D. reflexivity.
Qed.

Lemma TInv_handle_error r k kd : TInv r -> TInv (handle_error tasks continue_ r k kd).
Proof. apply TInv_handle_error_gen. Qed.

Definition plain_evs (evs : list event) : Prop :=
  forallb (fun e => negb (is_pair_ev e)) evs = true /\
  forallb (fun e => negb (is_fin_ev e)) evs = true /\ execs evs = [].

(* select_task is a composition of: replacing the dispatcher state, emitting plain reports,
   _handle_task_error *)
Lemma select_task_pres (P : rstate -> Prop) (k : name) :
  (forall r s, P r -> P (with_d r (set_status tasks (r_d r) k s))) ->
  (forall r e, P r -> In e [EGetStatus k; ESkipIgnore k; ESkipUpToDate k] -> P (emit r [e])) ->
  (forall r kd, P r -> P (handle_error tasks continue_ r k kd)) ->
  forall r b r1, P r -> select_task tasks continue_ always r k = (b, r1) -> P r1.
Proof.
  intros Pd Pe Ph r b r1 H E. unfold select_task in E.
  assert (Hga : forall r0 b0 r2, P r0 -> get_args tasks continue_ r0 k = (b0, r2) -> P r2).
  { intros r0 b0 r2 H0 Q. unfold get_args in Q. destruct (t_argerr (get_task k)); inversion Q; subst; auto. }
  assert (He : P (emit r [EGetStatus k])) by (apply Pe; auto; simpl; auto).
  assert (Hlater :
     (if negb (is_nil (n_ign (node_of tasks (r_d r) k)))
      then (false, emit (with_d r (set_status tasks (r_d r) k SIgnore)) [ESkipIgnore k])
      else if negb (is_nil (n_bad (node_of tasks (r_d r) k))) then (false, handle_error tasks continue_ r k kind_unmet)
      else get_args tasks continue_ r k) = (b, r1) -> P r1).
  { intros Q. destruct (negb (is_nil (n_ign _))); [inversion Q; subst; apply Pe; [apply Pd; auto|simpl; auto]|].
    destruct (negb (is_nil (n_bad _))); [inversion Q; subst; apply Ph; auto|]. eapply Hga; [exact H|exact Q]. }
  destruct (n_st (node_of tasks (r_d r) k)); try (apply Hlater; exact E).
  clear Hlater.
  destruct (negb (is_nil (n_ign (node_of tasks (r_d r) k))) || t_dbignore (get_task k)).
  { inversion E; subst. apply Pe; [apply (Pd (emit r [EGetStatus k])); auto|simpl; auto]. }
  destruct (negb (is_nil (n_bad (node_of tasks (r_d r) k)))).
  { inversion E; subst. apply Ph; auto. }
  assert (Hrun : forall st,
     (if is_nil (t_setup (get_task k))
      then get_args tasks continue_ (with_d (emit r [EGetStatus k]) (set_status tasks (r_d (emit r [EGetStatus k])) k st)) k
      else (false, with_d (emit r [EGetStatus k]) (set_status tasks (r_d (emit r [EGetStatus k])) k st))) = (b, r1) -> P r1).
  { intros st Q. destruct (is_nil (t_setup (get_task k))).
    - eapply Hga; [|exact Q]. apply (Pd (emit r [EGetStatus k])); auto.
    - inversion Q; subst. apply (Pd (emit r [EGetStatus k])); auto. }
  destruct (t_check (get_task k)).
  - destruct always; cbv beta iota zeta in E; apply (Hrun SRun); exact E.
  - destruct always; cbv beta iota zeta in E; [apply (Hrun SRun); exact E|].
    inversion E; subst. apply Pe; [apply (Pd (emit r [EGetStatus k])); auto|simpl; auto].
  - inversion E; subst. apply Ph; auto.
Qed.

Lemma TInv_select r k b r1 : TInv r -> select_task tasks continue_ always r k = (b, r1) -> TInv r1.
Proof.
  apply (select_task_pres TInv k).
  - intros r0 s H. apply TInv_with_d. exact H.
  - intros r0 e H [<-|[<-|[<-|[]]]]; apply TInv_emit_plain; auto.
  - intros r0 kd H. apply TInv_handle_error; auto.
Qed.

(* select_task never reports an execution *)
Lemma select_task_execs r k b r1 :
  select_task tasks continue_ always r k = (b, r1) -> execs (r_tr r1) = execs (r_tr r).
Proof.
  intros E. apply (select_task_pres (fun r0 => execs (r_tr r0) = execs (r_tr r)) k) with (r := r) (b := b); auto.
  - intros r0 e H [<-|[<-|[<-|[]]]]; unfold emit; simpl; rewrite execs_app; simpl; rewrite app_nil_r; exact H.
  - intros r0 kd H. unfold handle_error, handle_error_gen. simpl. rewrite execs_app. simpl. rewrite app_nil_r. exact H.
Qed.

(* select_task only appends to the trace, and only touches the status of the task it is given *)
Lemma select_task_ext r k b r1 :
  select_task tasks continue_ always r k = (b, r1) ->
  (exists evs, r_tr r1 = r_tr r ++ evs) /\
  (forall x, x <> k -> st_of tasks (r_d r1) x = st_of tasks (r_d r) x).
Proof.
  intros E.
  apply (select_task_pres (fun r0 => (exists evs, r_tr r0 = r_tr r ++ evs) /\
                                      (forall x, x <> k -> st_of tasks (r_d r0) x = st_of tasks (r_d r) x)) k)
    with (r := r) (b := b); auto.
  - intros r0 s [[evs A] B]. split; [exists evs; exact A|].
    intros x Hx. simpl. unfold set_status. unfold st_of at 1. unfold node_of.
    unfold set_node. simpl. unfold upd. apply N.eqb_neq in Hx. rewrite Hx. apply B. apply N.eqb_neq. exact Hx.
  - intros r0 e [[e0 A] B] _. split; [|exact B]. unfold emit. simpl. rewrite A. exists (e0 ++ [e]). rewrite app_assoc. reflexivity.
  - intros r0 kd [[e0 A] B]. unfold handle_error, handle_error_gen. simpl. split.
    + rewrite A. eexists. rewrite <- app_assoc. reflexivity.
    + intros x Hx. unfold set_status. unfold st_of at 1. unfold node_of.
      unfold set_node. simpl. unfold upd. apply N.eqb_neq in Hx. rewrite Hx. apply B. apply N.eqb_neq. exact Hx.
  - split; [exists []; rewrite app_nil_r; reflexivity|auto].
Qed.

(* every final report select_task emits is about the task it was given *)
Definition about (k : name) (e : event) : Prop :=
  match e with
  | ESuccess k' | ESkipUpToDate k' | ESkipIgnore k' | EFailure k' _ => k' = k
  | EExecute _ => False
  | _ => True end.

Lemma select_task_about r k b r1 :
  select_task tasks continue_ always r k = (b, r1) ->
  exists evs, r_tr r1 = r_tr r ++ evs /\ Forall (about k) evs.
Proof.
  intros E.
  apply (select_task_pres (fun r0 => exists evs, r_tr r0 = r_tr r ++ evs /\ Forall (about k) evs) k) with (r := r) (b := b); auto.
  - intros r0 e [e0 [A B]] Hin. unfold emit. simpl. exists (e0 ++ [e]). rewrite A, app_assoc. split; auto.
    apply Forall_app. split; auto. constructor; auto.
    destruct Hin as [<-|[<-|[<-|[]]]]; simpl; auto.
  - intros r0 kd [e0 [A B]]. unfold handle_error, handle_error_gen. simpl. exists (e0 ++ [ERemove k; EFailure k kd]).
    rewrite A, app_assoc. split; auto. apply Forall_app. split; auto. repeat constructor.
  - exists []. rewrite app_nil_r. split; auto.
Qed.

Lemma TInv_start r k : TInv r -> TInv (start_task tasks r k).
Proof.
  intros [A B C D]. unfold start_task. split; simpl.
  - rewrite code_of_noFail; auto.
  - rewrite execs_app, filter_app. simpl. unfold has_td at 2. rewrite B.
    destruct (t_teardown (get_task k)); [reflexivity|rewrite app_nil_r; reflexivity].
  - apply p_plain; auto.
  - rewrite forallb_app, D. reflexivity.
Qed.

Lemma TInv_process r k : TInv r -> TInv (process_result tasks continue_ r k).
Proof.
  intros H. unfold process_result. destruct (t_outcome (get_task k)); auto; try apply TInv_handle_error; try apply TInv_handle_error_gen; auto.
  destruct H as [A B C D]. unfold emit, with_d. split; simpl.
  - rewrite code_of_noFail; auto.
  - rewrite execs_app. simpl. rewrite app_nil_r. exact B.
  - apply p_succ. exact C.
  - rewrite forallb_app, D. reflexivity.
Qed.

(* the part of TInv that also holds for the main runner of the parallel flavours (where execute and
   teardown reports are forwarded through the result queue) *)
Record PT (r : rstate) : Prop := {
  pt_code : r_final r = code_of (r_tr r);
  pt_pair : paired (r_tr r)
}.
Lemma PT_with_d r d : PT r -> PT (with_d r d).
Proof. intros [A C]. split; auto. Qed.
Lemma PT_emit_plain r evs : PT r -> forallb (fun e => negb (is_pair_ev e)) evs = true -> PT (emit r evs).
Proof.
  intros [A C] Hp. unfold emit. split; simpl.
  - rewrite code_of_noFail; auto.
    clear -Hp. induction evs as [|e evs IH]; simpl in *; auto.
    apply andb_true_iff in Hp. destruct Hp as [H1 H2]. destruct e; simpl in *; try discriminate; auto.
  - apply paired_app_plain; auto.
Qed.
Lemma PT_handle_error_gen st r k kd : PT r -> PT (handle_error_gen tasks continue_ st r k kd).
Proof.
  intros [A C]. unfold handle_error_gen. split; simpl.
  - rewrite code_of_fail, A. reflexivity.
  - apply p_fail. exact C.
Qed.
Lemma PT_select r k b r1 : PT r -> select_task tasks continue_ always r k = (b, r1) -> PT r1.
Proof.
  apply (select_task_pres PT k).
  - intros r0 s H. apply PT_with_d. exact H.
  - intros r0 e H [<-|[<-|[<-|[]]]]; apply PT_emit_plain; auto.
  - intros r0 kd H. apply PT_handle_error_gen; auto.
Qed.
Lemma PT_start r k : PT r -> PT (start_task tasks r k).
Proof.
  intros [A C]. unfold start_task. split; simpl.
  - rewrite code_of_noFail; auto.
  - apply p_plain; auto.
Qed.
Lemma PT_process r k : PT r -> PT (process_result tasks continue_ r k).
Proof.
  intros H. unfold process_result. destruct (t_outcome (get_task k)); auto; try apply PT_handle_error_gen; auto.
  destruct H as [A C]. unfold emit, with_d. split; simpl.
  - rewrite code_of_noFail; auto.
  - apply p_succ. exact C.
Qed.
Lemma PT_finish r : PT r -> PT (finish r).
Proof.
  intros H. unfold finish. apply PT_emit_plain; auto. simpl. induction (rev (r_td r)); simpl; auto.
Qed.
Lemma PT_init sel : PT (r_init sel).
Proof. split; simpl; [reflexivity|constructor]. Qed.

(* the state in which the loop stops: finish() is applied to a state satisfying the invariant *)
Lemma serial_TInv fuel : forall r last r' s,
  TInv r -> serial tasks wake_rank calc_rank continue_ always fuel r last = (r', s) ->
  exists r0, TInv r0 /\ ((s = StopFuel /\ r' = r0) \/ (s <> StopFuel /\ r' = finish r0)).
Proof.
  induction fuel as [|fuel IH]; intros r last r' s HT E; cbn [serial] in E.
  { injection E as <- <-. exists r. auto. }
  destruct (r_stop r). { injection E as <- <-. exists r. split; auto. right. split; [discriminate|reflexivity]. }
  destruct (disp_send tasks wake_rank calc_rank (S fuel) (r_d r) last) as [y d].
  destruct y as [k| | |path|].
  - destruct (select_task tasks continue_ always (with_d r d) k) as [b r1] eqn:Es.
    assert (H1 : TInv r1) by (eapply TInv_select; [|exact Es]; apply TInv_with_d; auto).
    destruct b.
    + destruct (is_interrupt tasks k).
      * injection E as <- <-. exists (start_task tasks r1 k). split; [apply TInv_start; auto|]. right. split; [discriminate|reflexivity].
      * eapply IH; [|exact E]. apply TInv_process. apply TInv_start. exact H1.
    + eapply IH; eauto.
  - injection E as <- <-. exists (with_d r d). split; [apply TInv_with_d; auto|]. right. split; [discriminate|reflexivity].
  - injection E as <- <-. exists (with_d r d). split; [apply TInv_with_d; auto|]. right. split; [discriminate|reflexivity].
  - injection E as <- <-. exists (with_d r d). split; [apply TInv_with_d; auto|]. right. split; [discriminate|reflexivity].
  - injection E as <- <-. exists (with_d r d). split; [apply TInv_with_d; auto|]. left. auto.
Qed.

Lemma TInv_init sel : TInv (r_init sel).
Proof. split; simpl; auto. constructor. Qed.

(* the whole observable outcome of a serial run *)
Theorem serial_shape fuel sel :
  let res := run_serial tasks wake_rank calc_rank continue_ always fuel sel in
  exists body s,
    paired body /\ forallb (fun e => negb (is_fin_ev e)) body = true /\
    ((s = StopFuel /\ fst res = body /\ snd res = 99) \/
     (s <> StopFuel /\
      fst res = body ++ EClose :: map ETeardown (rev (filter has_td (execs body))) ++ stop_marker s /\
      snd res = match s with StopNormal => code_of body | StopCycle _ | StopHold => 3 | StopInterrupt _ => 4 | StopFuel => 99 end)).
Proof.
  cbv zeta. unfold run_serial.
  destruct (serial tasks wake_rank calc_rank continue_ always fuel (r_init sel) None) as [r' s] eqn:E.
  destruct (serial_TInv fuel _ _ _ _ (TInv_init sel) E) as [r0 [[A B C D] [[-> ->]|[Hs ->]]]].
  - exists (r_tr r0), StopFuel. split; auto. split; auto. left. simpl. rewrite app_nil_r. auto.
  - exists (r_tr r0), s. split; auto. split; auto. right. split; auto. split.
    + unfold finish, emit. simpl. rewrite B. rewrite <- app_assoc. reflexivity.
    + unfold exit_code, finish, emit. simpl. destruct s; auto; congruence.
Qed.

End T.
