(* HistoryP.v -- the invariant [db_reflects_ghost] of Model/History.v, proved for every operation
   list without WriteSameMtime (FS-fresh), for a code version with the repairs fixA and fixB (with or without fixC). *)
From Coq Require Import ZifyBool.
From DoitV Require Import Base Status History StatusP.
Open Scope Z_scope.

Section HistoryP.
Variable md5 : N -> N.
Variable size_of : N -> Z.
Variable v : ver.
Hypothesis HA : fixA v = true.
Hypothesis HB : fixB v = true.

Notation step := (step md5 size_of v).
Notation run_from := (run_from md5 size_of v).
Notation run := (run md5 size_of v).
Notation check := (check md5 v).

(* the record is the encoding of what the last SaveOk / ResetDep observed *)
Definition rec_reflects (g : snapshot) (r : rec) : Prop :=
  r_deps r = Some (file_dep (g_def g)) /\ r_checker r = Some (g_ck g) /\ r_values r = g_values g /\
  forall f, In f (file_dep (g_def g)) -> good md5 (g_ck g) (g_fs g) r f.
(* a record that only `ignore` wrote *)
Definition rec_unsaved (r : rec) : Prop := r_deps r = None /\ r_checker r = None /\ forall f, r_saved r f = None.

Definition task_inv (s : state) (t : name) : Prop :=
  match s_db s t, s_last_ok s t with
  | None, None => True
  | None, Some _ => False
  | Some r, Some g => rec_truthful md5 (s_seen s) r /\ rec_typed r /\ rec_reflects g r
  | Some r, None => rec_unsaved r
  end.

Definition db_reflects_ghost (s : state) : Prop :=
  fs_seen (s_fs s) (s_seen s) /\ (forall t, task_inv s t) /\ s_crashed s = false.

Lemma unsaved_truthful sn r : rec_unsaved r -> rec_truthful md5 sn r.
Proof. intros (_ & _ & H) f m sz dg E. rewrite H in E. discriminate. Qed.
Lemma unsaved_typed r : rec_unsaved r -> rec_typed r.
Proof. intros (_ & H1 & H) . unfold rec_typed. rewrite H1. exact H. Qed.
Lemma empty_unsaved : rec_unsaved empty_rec.
Proof. repeat split. Qed.

(* every record the invariant allows is truthful and well-typed; so is the one a missing key stands for *)
Lemma task_inv_getrec s t :
  task_inv s t -> rec_truthful md5 (s_seen s) (getrec (s_db s) t) /\ rec_typed (getrec (s_db s) t).
Proof.
  unfold task_inv, getrec. destruct (s_db s t) as [r|]; destruct (s_last_ok s t) as [g|]; intros H.
  - tauto.
  - split; [apply unsaved_truthful | apply unsaved_typed]; auto.
  - destruct H.
  - split; [apply unsaved_truthful | apply unsaved_typed]; apply empty_unsaved.
Qed.

Lemma task_inv_ext s s' t :
  s_seen s' = s_seen s -> s_db s' t = s_db s t -> s_last_ok s' t = s_last_ok s t ->
  task_inv s t -> task_inv s' t.
Proof. unfold task_inv. intros -> -> ->. auto. Qed.

(* ---------- file-system operations ---------- *)
Lemma consistent_extends sn f m :
  consistent sn f m = true -> forall f' t' x, sn f' t' = Some x -> see sn f m f' t' = Some x.
Proof.
  unfold consistent, see. intros H f' t' x Hx.
  destruct (N.eqb_spec f' f) as [->|]; simpl; auto.
  destruct (Z.eqb_spec t' (mtime m)) as [->|]; auto.
  rewrite Hx in H. destruct x as [sz c]. apply andb_true_iff in H. destruct H as [H1 H2].
  apply Z.eqb_eq in H1. apply N.eqb_eq in H2. subst. reflexivity.
Qed.

(* a file becomes a version that agrees with everything seen so far: any mtime, older or newer *)
Lemma inv_put s f m clk :
  consistent (s_seen s) f m = true -> db_reflects_ghost s -> db_reflects_ghost (put s f m clk).
Proof.
  intros Hc (Hb & Ht & Hcr). pose proof (consistent_extends _ _ _ Hc) as Hext.
  split; [|split; [|exact Hcr]].
  - intros f' st E. simpl in *. unfold upd in E. destruct (N.eqb_spec f' f) as [->|Hne].
    + inversion E; subst. unfold see. rewrite N.eqb_refl, Z.eqb_refl. reflexivity.
    + apply Hext. apply Hb. exact E.
  - intros t. specialize (Ht t). unfold task_inv in *. simpl.
    destruct (s_db s t) as [r|]; destruct (s_last_ok s t) as [g|]; auto.
    destruct Ht as (H1 & H2 & H3). split; [|split; auto].
    intros f' m' sz dg E. destruct (H1 f' m' sz dg E) as (c & Hs & Hd). exists c. split; auto.
Qed.

Lemma inv_del s f clk : db_reflects_ghost s -> db_reflects_ghost (with_fs s (upd (s_fs s) f None) clk).
Proof.
  intros (Hb & Ht & Hcr). split; [|split; [exact Ht | exact Hcr]].
  intros f' st E. simpl in E. unfold upd in E. destruct (N.eqb f' f); [discriminate|]. apply Hb; auto.
Qed.

Lemma inv_tick s clk : db_reflects_ghost s -> db_reflects_ghost (with_fs s (s_fs s) clk).
Proof. intros H. exact H. Qed.

Lemma step_write_inv s o : op_ok size_of s o = true -> db_reflects_ghost s -> db_reflects_ghost (step_write size_of s o).
Proof.
  unfold op_ok, step_write. intros Hok Hinv.
  destruct (new_version size_of s o) as [[f m]|]; [apply inv_put; auto | apply inv_tick; auto].
Qed.

(* ---------- DB operations on one task ---------- *)
Lemma inv_db s d g cr o t :
  db_reflects_ghost s ->
  (forall t', t' <> t -> d t' = s_db s t' /\ g t' = s_last_ok s t') ->
  cr = false ->
  task_inv (with_db s d g cr o) t ->
  db_reflects_ghost (with_db s d g cr o).
Proof.
  intros (Hb & Ht & Hcr) Hfr -> Htt. split; [exact Hb|]. split; [|simpl; rewrite Hcr; reflexivity].
  intros t'. destruct (N.eq_dec t' t) as [->|Hne]; auto.
  destruct (Hfr t' Hne) as [H1 H2]. apply (task_inv_ext s); auto.
Qed.

Lemma prune_other d g t t' : t' <> t -> prune d g t t' = g t'.
Proof. intros H. unfold prune. destruct (d t); auto. apply upd_other; auto. Qed.

(* get_status inside an operation: the record stays or goes, the ghost follows *)
Lemma inv_get_status s t gl :
  db_reflects_ghost s ->
  let r := get_status md5 v (s_ck s) (s_fs s) (s_db s) t (s_defs s t) gl in
  db_reflects_ghost (with_db s (g_db r) (prune (g_db r) (s_last_ok s) t) (status_eqb (g_status r) Crash) [OCheck t gl r]).
Proof.
  intros Hinv r. pose proof Hinv as (Hb & Ht & Hcr).
  assert (Hnc : status_eqb (g_status r) Crash = false).
  { pose proof (get_status_no_crash md5 v (s_ck s) (s_fs s) (s_db s) t (s_defs s t) gl (proj2 (task_inv_getrec s t (Ht t)))) as H.
    fold r in H. destruct (g_status r); try reflexivity. congruence. }
  apply (inv_db s _ _ _ _ t); auto.
  - intros t' Hne. rewrite prune_other by auto. split; auto.
    destruct (get_status_db md5 v (s_ck s) (s_fs s) (s_db s) t (s_defs s t) gl) as [E|[_ E]]; fold r in E; rewrite E; auto.
    apply remove_other; auto.
  - unfold task_inv. simpl. unfold prune.
    destruct (get_status_db md5 v (s_ck s) (s_fs s) (s_db s) t (s_defs s t) gl) as [E|[_ E]]; fold r in E; rewrite E.
    + specialize (Ht t). unfold task_inv in Ht. destruct (s_db s t) as [r0|] eqn:E0; auto.
      rewrite upd_same. auto.
    + rewrite remove_same, upd_same. auto.
Qed.

(* save_success inside an operation *)
Lemma save_success_db c fs d t deps vals res d' o :
  save_success md5 v c fs d t deps vals res = (d', o) ->
  (forall t', t' <> t -> d' t' = d t') /\
  exists r', d' t = Some r' /\ save_success_rec md5 v c fs (getrec d t) deps vals res = (r', o).
Proof.
  unfold save_success. destruct (save_success_rec md5 v c fs (getrec d t) deps vals res) as [r' o'] eqn:E.
  intros H. inversion H; subst. split.
  - intros t' Hne. apply upd_other; auto.
  - exists r'. split; auto. apply upd_same.
Qed.

Lemma inv_save s d0 t vals res d' o :
  db_reflects_ghost s ->
  rec_truthful md5 (s_seen s) (getrec d0 t) -> rec_typed (getrec d0 t) ->
  (forall t', t' <> t -> d0 t' = s_db s t') ->
  save_success md5 v (s_ck s) (s_fs s) d0 t (file_dep (s_defs s t)) vals res = (d', o) ->
  match o with
  | SaveDone => forall cr lg, cr = false ->
      db_reflects_ghost (with_db s d' (upd (s_last_ok s) t (Some (snap s t vals))) cr lg)
  | SaveMissing f => In f (file_dep (s_defs s t)) /\ s_fs s f = None /\
      forall lg, db_reflects_ghost (with_db s (remove_success d' t) (upd (s_last_ok s) t None) false lg)
  | SaveCrash => False
  end.
Proof.
  intros Hinv Htr Hty Hd0 H. pose proof Hinv as (Hb & Ht & Hcr).
  destruct (save_success_db _ _ _ _ _ _ _ _ _ H) as (Hfr & r' & Hr' & Hrec).
  destruct (save_success_rec_spec md5 v _ _ _ _ _ _ _ _ _ HB Hb Htr Hty Hrec) as (T1 & T2 & T3 & T4).
  destruct o.
  - intros cr lg ->. apply (inv_db s _ _ _ _ t); auto.
    + intros t' Hne. rewrite Hfr, Hd0 by auto. rewrite upd_other by auto. auto.
    + unfold task_inv. simpl. rewrite Hr', upd_same. split; [exact T1|]. split.
      * unfold rec_typed. rewrite T2. exact T3.
      * destruct T4 as (T4 & T5 & T6). repeat split; auto.
  - destruct T4 as [T4 T5]. split; auto. split; auto. intros lg.
    apply (inv_db s _ _ _ _ t); auto.
    + intros t' Hne. unfold remove_success. rewrite remove_other, Hfr, Hd0 by auto. rewrite upd_other by auto. auto.
    + unfold task_inv. simpl. unfold remove_success. rewrite remove_same, upd_same. auto.
  - destruct T4.
Qed.

Lemma forallb_exists_in fs deps f : forallb (exists_ fs) deps = true -> In f deps -> fs f <> None.
Proof.
  rewrite forallb_forall. intros H Hin E. specialize (H f Hin). unfold exists_ in H. rewrite E in H. discriminate.
Qed.

(* ---------- every operation that respects FS-fresh preserves the invariant ---------- *)
Lemma step_inv s o : op_ok size_of s o = true -> db_reflects_ghost s -> db_reflects_ghost (step s o).
Proof.
  intros Hf Hinv. pose proof Hinv as (Hb & Ht & Hcr). destruct o; simpl.
  - apply step_write_inv; auto.
  - apply step_write_inv; auto.
  - apply inv_del; auto.
  - apply step_write_inv; auto.
  - apply step_write_inv; auto.
  - apply step_write_inv; auto.
  - (* SetDef *) exact Hinv.
  - (* SetChecker *) exact Hinv.
  - (* SaveOk *)
    unfold process_success.
    destruct (save_success md5 v (s_ck s) (s_fs s) (s_db s) t (file_dep (s_defs s t))
                (save_extra_values (s_db s) (s_defs s t)) (act_result (s_defs s t))) as [d' o] eqn:E.
    destruct (task_inv_getrec s t (Ht t)) as [G1 G2].
    pose proof (inv_save s (s_db s) t _ _ d' o Hinv G1 G2 (fun _ _ => eq_refl) E) as H.
    destruct o.
    + apply H. reflexivity.
    + destruct H as (_ & _ & H). apply H.
    + destruct H.
  - (* Remove *)
    apply (inv_db s _ _ _ _ t); auto.
    + intros t' Hne. unfold remove_success. rewrite remove_other, upd_other by auto. auto.
    + unfold task_inv. simpl. unfold remove_success. rewrite remove_same, upd_same. auto.
  - (* Ignore *)
    apply (inv_db s _ _ _ _ t); auto.
    + intros t' Hne. unfold ignore. rewrite upd_other by auto. auto.
    + specialize (Ht t). unfold task_inv in *. simpl. unfold ignore, getrec. rewrite upd_same.
      destruct (s_db s t) as [r|]; destruct (s_last_ok s t) as [g|]; auto.
      * destruct Ht.
      * repeat split.
  - (* ResetDep *)
    unfold reset_dep.
    destruct (forallb (exists_ (s_fs s)) (file_dep (s_defs s t))) eqn:Eall; simpl.
    2: { apply (inv_db s _ _ _ _ t); auto.
         - intros t' Hne. rewrite prune_other by auto. auto.
         - specialize (Ht t). unfold task_inv in *. simpl. unfold prune.
           destruct (s_db s t) as [r|] eqn:E0; auto. rewrite upd_same. auto. }
    pose proof (inv_get_status s t false Hinv) as Hg. cbv zeta in Hg.
    set (r := get_status md5 v (s_ck s) (s_fs s) (s_db s) t (s_defs s t) false) in *.
    assert (Hnc : g_status r <> Crash).
    { apply get_status_no_crash. apply (task_inv_getrec s t (Ht t)). }
    set (s1 := with_db s (g_db r) (prune (g_db r) (s_last_ok s) t) (status_eqb (g_status r) Crash) [OCheck t false r]) in *.
    assert (Hsave : forall d' o, save_success md5 v (s_ck s) (s_fs s) (g_db r) t (file_dep (s_defs s t))
                                   (get_values (s_db s) t) (get_result (s_db s) t) = (d', o) ->
              db_reflects_ghost (let '(d, code) := (d', match o with SaveDone => 2 | _ => 98 end) in
                   with_db s d (if code =? 2 then upd (s_last_ok s) t (Some (snap s t (get_values (s_db s) t)))
                                else if code =? 98 then upd (s_last_ok s) t None else prune d (s_last_ok s) t)
                           (code =? 98) [OReset t code])).
    { intros d' o E.
      destruct Hg as (_ & Ht1 & _). destruct (task_inv_getrec s1 t (Ht1 t)) as [G1 G2].
      assert (Hd0 : forall t', t' <> t -> g_db r t' = s_db s t').
      { intros t' Hne. destruct (get_status_db md5 v (s_ck s) (s_fs s) (s_db s) t (s_defs s t) false) as [E1|[_ E1]];
          fold r in E1; rewrite E1; auto. apply remove_other; auto. }
      pose proof (inv_save s (g_db r) t _ _ d' o Hinv G1 G2 Hd0 E) as H.
      destruct o; simpl.
      - apply H. reflexivity.
      - destruct H as (Hin & Hnone & _). exfalso. exact (forallb_exists_in _ _ _ Eall Hin Hnone).
      - destruct H. }
    destruct (g_status r) eqn:Est.
    + (* up-to-date: skip *)
      simpl. unfold s1 in Hg.
      destruct Hg as (G1 & G2 & G3). split; [exact G1|]. split; [exact G2|]. simpl. rewrite Hcr. reflexivity.
    + destruct (save_success md5 v (s_ck s) (s_fs s) (g_db r) t (file_dep (s_defs s t)) (get_values (s_db s) t) (get_result (s_db s) t)) as [d' o] eqn:E.
      apply (Hsave d' o eq_refl).
    + destruct (save_success md5 v (s_ck s) (s_fs s) (g_db r) t (file_dep (s_defs s t)) (get_values (s_db s) t) (get_result (s_db s) t)) as [d' o] eqn:E.
      apply (Hsave d' o eq_refl).
    + congruence.
  - (* ForgetAll *)
    split; [exact Hb|]. split; [|simpl; rewrite Hcr; reflexivity].
    intros t. unfold task_inv. simpl. auto.
  - (* Check *) apply (inv_get_status s t false Hinv).
  - (* CheckLog *) apply (inv_get_status s t true Hinv).
Qed.

Lemma run_from_inv ops : forall s, hist_ok_from md5 size_of v s ops = true -> db_reflects_ghost s -> db_reflects_ghost (run_from s ops).
Proof.
  induction ops as [|o ops IH]; intros s Hf Hinv; simpl in *; auto.
  apply andb_true_iff in Hf. destruct Hf as [H1 H2]. apply IH; auto. apply step_inv; auto.
Qed.

Lemma init_inv : db_reflects_ghost init.
Proof. split; [intros f st E; discriminate|]. split; [intros t; exact I | reflexivity]. Qed.

Lemma run_snoc ops o : run (ops ++ [o]) = step (run ops) o.
Proof. unfold History.run, History.run_from. rewrite fold_left_app. reflexivity. Qed.

Lemma run_inv ops : hist_ok md5 size_of v ops = true -> db_reflects_ghost (run ops).
Proof. intros H. apply run_from_inv; auto. apply init_inv. Qed.

(* the special case of forward-clock writes only: FS-fresh holds by construction *)
Definition seen_below (s : state) : Prop := forall f m x, s_seen s f m = Some x -> m < s_clock s.
Lemma seen_below_see s f m clk :
  seen_below s -> mtime m < clk -> s_clock s <= clk -> seen_below (put s f m clk).
Proof.
  intros Hs Hm Hc f' t' x Hx. simpl in *. unfold see in Hx.
  destruct (N.eqb f' f && (t' =? mtime m)) eqn:E.
  - apply andb_true_iff in E. destruct E as [_ E]. apply Z.eqb_eq in E. lia.
  - apply Hs in Hx. lia.
Qed.
Lemma seen_below_step s o : fresh_op o = true -> seen_below s -> seen_below (step s o).
Proof.
  intros Hf Hs. destruct o; simpl in Hf; try discriminate; simpl; try exact Hs.
  - (* Write *) unfold step_write. simpl. apply seen_below_see; simpl; auto; lia.
  - (* Touch *) unfold step_write. simpl. destruct (s_fs s f).
    + apply seen_below_see; simpl; auto; lia.
    + intros f' t' x Hx. simpl in *. apply Hs in Hx. lia.
  - (* SaveOk *) destruct (process_success md5 v (s_ck s) (s_fs s) (s_db s) t (s_defs s t)). exact Hs.
  - (* ResetDep *) destruct (reset_dep md5 v (s_ck s) (s_fs s) (s_db s) t (s_defs s t)). exact Hs.
Qed.
Lemma fresh_hist_ok_from ops : forall s, seen_below s -> fs_fresh ops = true -> hist_ok_from md5 size_of v s ops = true.
Proof.
  induction ops as [|o ops IH]; intros s Hs Hf; simpl in *; auto.
  apply andb_true_iff in Hf. destruct Hf as [H1 H2].
  apply andb_true_iff. split; [|apply IH; auto; apply seen_below_step; auto].
  assert (Hfresh : forall f m, new_version size_of s o = Some (f, m) -> mtime m = s_clock s).
  { intros f m E. destruct o; simpl in *; try discriminate.
    - inversion E; subst. auto.
    - destruct (s_fs s f0); inversion E; subst. auto. }
  unfold op_ok. destruct (new_version size_of s o) as [[f m]|] eqn:E; auto.
  pose proof (Hfresh f m eq_refl) as Hm. unfold consistent. rewrite Hm.
  destruct (s_seen s f (s_clock s)) as [x|] eqn:Ex; auto. apply Hs in Ex. lia.
Qed.
Lemma fresh_hist_ok ops : fs_fresh ops = true -> hist_ok md5 size_of v ops = true.
Proof. apply fresh_hist_ok_from. intros f m x E. discriminate. Qed.

(* ---------- no TypeError in ANY history: typing of the records does not depend on FS-fresh ---------- *)
Definition typed_inv (s : state) : Prop := (forall t, rec_typed (getrec (s_db s) t)) /\ s_crashed s = false.

Lemma empty_typed : rec_typed empty_rec.
Proof. unfold rec_typed. simpl. auto. Qed.

Lemma typed_upd d t r : (forall x, rec_typed (getrec d x)) -> rec_typed r -> forall x, rec_typed (getrec (upd d t (Some r)) x).
Proof. intros H Hr x. unfold getrec, upd. destruct (N.eqb x t); auto. apply (H x). Qed.
Lemma typed_remove d t : (forall x, rec_typed (getrec d x)) -> forall x, rec_typed (getrec (remove d t) x).
Proof. intros H x. unfold getrec, remove, upd. destruct (N.eqb x t); [apply empty_typed | apply (H x)]. Qed.

Lemma typed_get_status s t gl :
  typed_inv s ->
  let r := get_status md5 v (s_ck s) (s_fs s) (s_db s) t (s_defs s t) gl in
  (forall x, rec_typed (getrec (g_db r) x)) /\ status_eqb (g_status r) Crash = false.
Proof.
  intros [Ht Hcr] r. split.
  - destruct (get_status_db md5 v (s_ck s) (s_fs s) (s_db s) t (s_defs s t) gl) as [E|[_ E]]; fold r in E; rewrite E; auto.
    apply typed_remove; auto.
  - pose proof (get_status_no_crash md5 v (s_ck s) (s_fs s) (s_db s) t (s_defs s t) gl (Ht t)) as H. fold r in H.
    destruct (g_status r); try reflexivity. congruence.
Qed.

Lemma typed_save c fs d t deps vals res d' o :
  (forall x, rec_typed (getrec d x)) -> save_success md5 v c fs d t deps vals res = (d', o) ->
  (forall x, rec_typed (getrec d' x)) /\
  match o with SaveDone => True | SaveMissing f => In f deps /\ fs f = None | SaveCrash => False end.
Proof.
  intros Ht H. unfold save_success in H.
  destruct (save_success_rec md5 v c fs (getrec d t) deps vals res) as [r' o'] eqn:E. inversion H; subst.
  destruct (save_success_rec_typed md5 v _ _ _ _ _ _ _ _ HB (Ht t) E) as [T1 T2].
  split; auto. apply typed_upd; auto.
Qed.

Lemma step_typed s o : typed_inv s -> typed_inv (step s o).
Proof.
  intros Hinv. pose proof Hinv as [Ht Hcr].
  assert (Hw : forall o', typed_inv (step_write size_of s o')).
  { intros o'. unfold step_write. destruct (new_version size_of s o') as [[f m]|]; exact Hinv. }
  destruct o; simpl; try exact Hinv; try apply Hw.
  - (* SaveOk *)
    unfold process_success.
    destruct (save_success md5 v (s_ck s) (s_fs s) (s_db s) t (file_dep (s_defs s t))
                (save_extra_values (s_db s) (s_defs s t)) (act_result (s_defs s t))) as [d' o] eqn:E.
    destruct (typed_save _ _ _ _ _ _ _ _ _ Ht E) as [T1 T2].
    destruct o; [| |destruct T2]; split; simpl; try rewrite Hcr; auto.
    unfold remove_success. apply typed_remove; auto.
  - (* Remove *) split; simpl; [apply typed_remove; auto | rewrite Hcr; reflexivity].
  - (* Ignore *)
    split; simpl; [|rewrite Hcr; reflexivity]. unfold ignore. apply typed_upd; auto. apply (Ht t).
  - (* ResetDep *)
    unfold reset_dep.
    destruct (forallb (exists_ (s_fs s)) (file_dep (s_defs s t))) eqn:Eall; simpl.
    2: { split; simpl; [exact Ht | rewrite Hcr; reflexivity]. }
    destruct (typed_get_status s t false Hinv) as [G1 G2]. cbv zeta in G1, G2.
    set (r := get_status md5 v (s_ck s) (s_fs s) (s_db s) t (s_defs s t) false) in *.
    assert (Hsave : forall d' o, save_success md5 v (s_ck s) (s_fs s) (g_db r) t (file_dep (s_defs s t))
                                   (get_values (s_db s) t) (get_result (s_db s) t) = (d', o) ->
              typed_inv (let '(d, code) := (d', match o with SaveDone => 2 | _ => 98 end) in
                   with_db s d (if code =? 2 then upd (s_last_ok s) t (Some (snap s t (get_values (s_db s) t)))
                                else if code =? 98 then upd (s_last_ok s) t None else prune d (s_last_ok s) t)
                           (code =? 98) [OReset t code])).
    { intros d' o E. destruct (typed_save _ _ _ _ _ _ _ _ _ G1 E) as [T1 T2].
      destruct o; simpl.
      - split; simpl; auto. rewrite Hcr; reflexivity.
      - destruct T2 as [Hin Hnone]. exfalso. exact (forallb_exists_in _ _ _ Eall Hin Hnone).
      - destruct T2. }
    destruct (g_status r) eqn:Est.
    + split; simpl; [exact G1 | rewrite Hcr; reflexivity].
    + destruct (save_success md5 v (s_ck s) (s_fs s) (g_db r) t (file_dep (s_defs s t)) (get_values (s_db s) t) (get_result (s_db s) t)) as [d' o] eqn:E.
      apply (Hsave d' o eq_refl).
    + destruct (save_success md5 v (s_ck s) (s_fs s) (g_db r) t (file_dep (s_defs s t)) (get_values (s_db s) t) (get_result (s_db s) t)) as [d' o] eqn:E.
      apply (Hsave d' o eq_refl).
    + discriminate G2.
  - (* ForgetAll *) split; simpl; [intros x; apply empty_typed | rewrite Hcr; reflexivity].
  - (* Check *) destruct (typed_get_status s t false Hinv) as [G1 G2]. split; simpl; [exact G1 | rewrite Hcr, G2; reflexivity].
  - (* CheckLog *) destruct (typed_get_status s t true Hinv) as [G1 G2]. split; simpl; [exact G1 | rewrite Hcr, G2; reflexivity].
Qed.

Lemma run_typed ops : typed_inv (run ops).
Proof.
  unfold History.run. assert (H : typed_inv init) by (split; [intros t; apply empty_typed | reflexivity]).
  revert H. generalize init. induction ops as [|o ops IH]; intros s H; simpl; auto. apply IH, step_typed, H.
Qed.

Lemma no_typeerror_run ops t gl :
  s_crashed (run ops) = false /\
  g_status (get_status md5 v (s_ck (run ops)) (s_fs (run ops)) (s_db (run ops)) t (s_defs (run ops) t) gl) <> Crash.
Proof.
  destruct (run_typed ops) as [Ht Hcr]. split; auto. apply get_status_no_crash. apply Ht.
Qed.

Lemma no_typeerror_at s t :
  db_reflects_ghost s -> s_crashed s = false /\ g_status (check s t) <> Crash.
Proof.
  intros (Hb & Ht & Hcr). split; auto. unfold History.check.
  apply get_status_no_crash. apply (task_inv_getrec s t (Ht t)).
Qed.

Lemma skipped_is_uptodate s t :
  executes md5 v s t false = false -> status_is_ignore (s_db s) t = false ->
  g_status (check s t) <> Error -> g_status (check s t) <> Crash -> g_status (check s t) = UpToDate.
Proof.
  unfold executes. intros H Hi H1 H2. rewrite Hi in H. simpl in H.
  destruct (g_status (check s t)); congruence.
Qed.

(* ---------- soundness and completeness of the verdict in any state satisfying the invariant ---------- *)
Lemma file_verdict_same c fs r f :
  file_verdict md5 c fs r f = FSame <->
  exists now e, fs f = Some now /\ r_saved r f = Some e /\ check_modified md5 c now e = Some false.
Proof.
  unfold file_verdict. destruct (fs f) as [now|].
  - destruct (r_saved r f) as [e|].
    + destruct (check_modified md5 c now e) as [[|]|] eqn:E; split; try discriminate.
      * intros (n' & e' & H1 & H2 & H3). inversion H1; inversion H2; subst. congruence.
      * intros _. exists now, e. auto.
      * intros (n' & e' & H1 & H2 & H3). inversion H1; inversion H2; subst. congruence.
      * intros (n' & e' & H1 & H2 & H3). inversion H1; inversion H2; subst. congruence.
    + split; [discriminate|]. intros (n' & e' & _ & H & _). discriminate.
  - split; [discriminate|]. intros (n' & e' & H & _). discriminate.
Qed.

(* the file part of the property: the file dependencies are as the last successful execution left them *)
Definition files_as_last_ok (s : state) (t : name) : Prop :=
  match s_last_ok s t with
  | Some g => g_ck g = s_ck s /\ same_set (file_dep (s_defs s t)) (file_dep (g_def g)) /\
              forall f, In f (file_dep (s_defs s t)) ->
                exists then_ now, g_fs g f = Some then_ /\ s_fs s f = Some now /\ unmodified md5 (s_ck s) then_ now
  | None => file_dep (s_defs s t) = []
  end.

Lemma deps_changed_false r df :
  deps_changed v r df = false -> forall p, r_deps r = Some p -> same_set p (file_dep df).
Proof.
  unfold deps_changed. intros H p Hp. rewrite Hp in H. apply set_eqb_same.
  destruct p; [rewrite HA in H; simpl in H|]; apply negb_false_iff in H; exact H.
Qed.
Lemma deps_changed_same r df :
  (forall p, r_deps r = Some p -> same_set p (file_dep df)) -> deps_changed v r df = false.
Proof.
  unfold deps_changed. intros H. destruct (r_deps r) as [p|]; auto.
  specialize (H p eq_refl). apply set_eqb_same in H.
  destruct p; rewrite H; simpl; auto. apply andb_false_r.
Qed.

Lemma sound_at s t :
  db_reflects_ghost s -> g_status (check s t) = UpToDate ->
  let df := s_defs s t in
  (forall u, In u (uptodate df) -> eval_utd (s_db s) t u <> Some false) /\
  (file_dep df <> [] \/ exists u b, In u (uptodate df) /\ eval_utd (s_db s) t u = Some b) /\
  (forall x, In x (targets df) -> exists_ (s_fs s) x = true) /\
  (forall f, In f (file_dep df) -> exists_ (s_fs s) f = true) /\
  (file_dep df = [] \/ exists g, s_last_ok s t = Some g) /\
  (forall g, s_last_ok s t = Some g ->
     g_ck g = s_ck s /\ same_set (file_dep df) (file_dep (g_def g)) /\
     forall f, In f (file_dep df) ->
       exists then_ now, g_fs g f = Some then_ /\ s_fs s f = Some now /\ unmodified md5 (s_ck s) then_ now).
Proof.
  intros (Hb & Ht & Hcr) H df. unfold check in H. apply get_status_uptodate_iff_fv in H; [|exact HA].
  destruct H as (H1 & H2 & H3 & H4 & H5 & H6). fold df in H1, H2, H3, H5, H6.
  rewrite Forall_forall in H6.
  split; [exact H1|]. split; [exact H2|]. split; [exact H3|].
  specialize (Ht t). unfold task_inv in Ht.
  split; [|split].
  - intros f Hf. apply H6 in Hf. apply file_verdict_same in Hf. destruct Hf as (now & e & E & _). unfold exists_. rewrite E. reflexivity.
  - destruct (file_dep df) as [|f fd] eqn:Efd; auto. right.
    assert (Hf : In f (f :: fd)) by (simpl; auto). apply H6 in Hf. apply file_verdict_same in Hf.
    destruct Hf as (now & e & _ & E & _). unfold getrec in E.
    destruct (s_db s t) as [r|]; [|discriminate].
    destruct (s_last_ok s t) as [g|]; [exists g; auto|].
    destruct Ht as (_ & _ & Hn). rewrite Hn in E. discriminate.
  - intros g Hg. rewrite Hg in Ht. destruct (s_db s t) as [r|] eqn:Er; [|destruct Ht].
    destruct Ht as (T1 & T2 & T3 & T4 & Tv & T5).
    rewrite (getrec_some _ _ _ Er) in H4, H5, H6.
    assert (Eck : g_ck g = s_ck s).
    { unfold ck_changed in H4. rewrite T4 in H4. apply negb_false_iff, ck_eqb_eq in H4. exact H4. }
    pose proof (deps_changed_false r df H5 _ T3) as Hset.
    split; [exact Eck|]. split; [apply same_set_sym; exact Hset|].
    intros f Hf. pose proof (H6 f Hf) as Hv. apply file_verdict_same in Hv. destruct Hv as (now & e & E1 & E2 & E3).
    destruct (T5 f (proj2 (Hset f) Hf)) as (then_ & G1 & G2).
    exists then_, now. split; auto. split; auto.
    rewrite G2 in E2. inversion E2; subst e. rewrite Eck in E3. apply check_modified_state_of in E3. exact E3.
Qed.

Lemma sound_files s t : db_reflects_ghost s -> g_status (check s t) = UpToDate -> files_as_last_ok s t.
Proof.
  intros Hinv H. destruct (sound_at s t Hinv H) as (_ & _ & _ & _ & H5 & H6).
  unfold files_as_last_ok. destruct (s_last_ok s t) as [g|]; [apply H6; auto|].
  destruct H5 as [H5|[g H5]]; [auto | discriminate].
Qed.

Lemma complete_files s t :
  db_reflects_ghost s -> files_as_last_ok s t ->
  ck_changed (s_ck s) (getrec (s_db s) t) = false /\ deps_changed v (getrec (s_db s) t) (s_defs s t) = false /\
  Forall (fun f => file_verdict md5 (s_ck s) (s_fs s) (getrec (s_db s) t) f = FSame) (file_dep (s_defs s t)).
Proof.
  intros (Hb & Ht & Hcr) HF. specialize (Ht t). unfold task_inv in Ht. unfold files_as_last_ok in HF.
  destruct (s_db s t) as [r|] eqn:Er; destruct (s_last_ok s t) as [g|] eqn:Eg.
  - rewrite (getrec_some _ _ _ Er). destruct Ht as (T1 & T2 & T3 & T4 & Tv & T5). destruct HF as (F1 & F2 & F3).
    split; [|split].
    + unfold ck_changed. rewrite T4, F1, ck_eqb_refl. reflexivity.
    + apply deps_changed_same. intros p Hp. rewrite T3 in Hp. inversion Hp; subst. apply same_set_sym; auto.
    + apply Forall_forall. intros f Hf. apply file_verdict_same.
      destruct (F3 f Hf) as (then_ & now & G1 & G2 & G3).
      destruct (T5 f (proj1 (F2 f) Hf)) as (then' & G4 & G5). rewrite G1 in G4. inversion G4; subst then'.
      exists now, (state_of md5 (g_ck g) then_). split; auto. split; auto.
      rewrite F1. apply check_modified_state_of. exact G3.
  - rewrite (getrec_some _ _ _ Er). destruct Ht as (T1 & T2 & T3).
    split; [unfold ck_changed; rewrite T2; reflexivity|].
    split; [unfold deps_changed; rewrite T1; reflexivity|]. rewrite HF. constructor.
  - destruct Ht.
  - rewrite (getrec_none _ _ Er). split; [reflexivity|]. split; [reflexivity|]. rewrite HF. constructor.
Qed.

(* ... and every file dependency is in the saved 'deps:' list (so that the loop of get_status compares
   states only, fixC or not) *)
Lemma complete_inside s t :
  db_reflects_ghost s -> files_as_last_ok s t ->
  forall f, In f (file_dep (s_defs s t)) -> outside_saved_deps (getrec (s_db s) t) f = false.
Proof.
  intros (Hb & Ht & Hcr) HF f Hf. specialize (Ht t). unfold task_inv in Ht. unfold files_as_last_ok in HF.
  destruct (s_db s t) as [r|] eqn:Er; destruct (s_last_ok s t) as [g|] eqn:Eg.
  - rewrite (getrec_some _ _ _ Er). destruct Ht as (T1 & T2 & T3 & _). destruct HF as (F1 & F2 & F3).
    unfold outside_saved_deps. rewrite T3. apply negb_false_iff. apply mem_In. apply F2. exact Hf.
  - rewrite HF in Hf. destruct Hf.
  - destruct Ht.
  - rewrite (getrec_none _ _ Er). reflexivity.
Qed.
Lemma complete_verdicts s t :
  db_reflects_ghost s -> files_as_last_ok s t ->
  Forall (fun f => dep_verdict md5 v (s_ck s) (s_fs s) (getrec (s_db s) t) f = FSame) (file_dep (s_defs s t)).
Proof.
  intros Hinv HF. destruct (complete_files s t Hinv HF) as (_ & _ & C3).
  apply (Forall_verdicts_inside md5 v); auto. apply complete_inside; auto.
Qed.

Lemma complete_at s t :
  db_reflects_ghost s ->
  let df := s_defs s t in
  (forall u, In u (uptodate df) -> eval_utd (s_db s) t u <> Some false) ->
  (file_dep df <> [] \/ exists u b, In u (uptodate df) /\ eval_utd (s_db s) t u = Some b) ->
  (forall x, In x (targets df) -> exists_ (s_fs s) x = true) ->
  match s_last_ok s t with
  | Some g => g_ck g = s_ck s /\ same_set (file_dep df) (file_dep (g_def g)) /\
              forall f, In f (file_dep df) ->
                exists then_ now, g_fs g f = Some then_ /\ s_fs s f = Some now /\ unmodified md5 (s_ck s) then_ now
  | None => file_dep df = []
  end ->
  g_status (check s t) = UpToDate.
Proof.
  intros Hinv df H1 H2 H3 HF. unfold check. apply get_status_uptodate_iff.
  destruct (complete_files s t Hinv HF) as (C1 & C2 & _). pose proof (complete_verdicts s t Hinv HF) as C3.
  split; [exact H1|]. split; [exact H2|]. split; [exact H3|]. auto.
Qed.

(* ---------- md5: a fresh mtime on the same content changes no verdict ---------- *)
Lemma refresh_same_verdict s f now now' clk t :
  db_reflects_ghost s -> s_ck s = MD5 -> s_fs s f = Some now ->
  consistent (s_seen s) f now' = true -> size now' = size now -> content now' = content now ->
  check (put s f now' clk) t = check s t.
Proof.
  intros (Hb & Ht & Hcr) Hck Hnow Hcons Hs Hc. unfold check. simpl.
  apply get_status_fs_ext.
  - intros x _. unfold exists_, upd. destruct (N.eqb_spec x f) as [->|]; auto. rewrite Hnow. reflexivity.
  - intros f' _.
    match goal with |- dep_verdict _ _ ?c ?fs1 ?r ?x = dep_verdict _ _ _ ?fs2 _ _ =>
      rewrite !(dep_verdict_spec md5); assert (FV : file_verdict md5 c fs1 r x = file_verdict md5 c fs2 r x); [|rewrite FV; reflexivity] end.
    unfold file_verdict, upd. destruct (N.eqb_spec f' f) as [->|]; auto. rewrite Hnow.
    set (r := getrec (if ck_changed (s_ck s) (getrec (s_db s) t) then remove (s_db s) t else s_db s) t).
    destruct (r_saved r f) as [e|] eqn:Ee; auto.
    destruct (task_inv_getrec s t (Ht t)) as [G1 G2].
    assert (Hr : r = empty_rec \/ (r = getrec (s_db s) t /\ ck_changed (s_ck s) (getrec (s_db s) t) = false)).
    { unfold r. destruct (ck_changed (s_ck s) (getrec (s_db s) t)); [left; apply getrec_remove | right; auto]. }
    destruct Hr as [Hr|[Hr Hcc]]; [rewrite Hr in Ee; discriminate|].
    rewrite Hr in Ee.
    assert (Hty : typed MD5 e = true).
    { unfold rec_typed in G2. unfold ck_changed in Hcc.
      destruct (r_checker (getrec (s_db s) t)) as [p|].
      - apply negb_false_iff, ck_eqb_eq in Hcc. subst p. rewrite <- Hck. apply (G2 f); auto.
      - rewrite G2 in Ee. discriminate. }
    rewrite Hck. destruct e as [m sz dg|m]; [|discriminate]. simpl.
    destruct (G1 f m sz dg Ee) as (c & Hseen & Hdg).
    rewrite Hs, Hc.
    (* the entry's version of f, the current one and the new one: equal mtimes mean equal (size, content) *)
    assert (Hnow_m : mtime now = m -> size now = sz /\ md5 (content now) = dg).
    { intros E. apply (truthful_now md5 (s_fs s) (s_seen s) (getrec (s_db s) t) f m sz dg now); auto. }
    assert (Hnew_m : mtime now' = m -> size now = sz /\ md5 (content now) = dg).
    { intros E. unfold consistent in Hcons. rewrite E, Hseen in Hcons.
      apply andb_true_iff in Hcons. destruct Hcons as [H1 H2]. apply Z.eqb_eq in H1. apply N.eqb_eq in H2.
      subst c. rewrite <- Hc, <- Hs. split; [symmetry; exact H1 | exact Hdg]. }
    destruct (Z.eqb_spec (mtime now') m) as [E1|E1]; destruct (Z.eqb_spec (mtime now) m) as [E2|E2]; auto.
    + destruct (Hnew_m E1) as [-> ->]. rewrite Z.eqb_refl, N.eqb_refl. reflexivity.
    + destruct (Hnow_m E2) as [-> ->]. rewrite Z.eqb_refl, N.eqb_refl. reflexivity.
Qed.

(* an operation that gives f another mtime (any: newer or older) but the size and content it has *)
Lemma same_content_md5 s o f now now' t :
  db_reflects_ghost s -> s_ck s = MD5 -> op_ok size_of s o = true ->
  new_version size_of s o = Some (f, now') -> s_fs s f = Some now -> size now' = size now -> content now' = content now ->
  check (step_write size_of s o) t = check s t.
Proof.
  intros Hinv Hck Hok Hnv Hnow Hs Hc. unfold step_write, op_ok in *. rewrite Hnv in *.
  apply (refresh_same_verdict s f now); auto.
Qed.

Lemma touch_md5 s f t :
  db_reflects_ghost s -> s_ck s = MD5 -> op_ok size_of s (Touch f) = true -> check (step s (Touch f)) t = check s t.
Proof.
  intros Hinv Hck Hok. simpl. destruct (s_fs s f) as [now|] eqn:E.
  - apply (same_content_md5 s (Touch f) f now {| mtime := s_clock s; size := size now; content := content now |}); auto.
    simpl. rewrite E. reflexivity.
  - unfold step_write. simpl. rewrite E. reflexivity.
Qed.

Lemma touch_at_md5 s f m t :
  db_reflects_ghost s -> s_ck s = MD5 -> op_ok size_of s (TouchAt f m) = true -> check (step s (TouchAt f m)) t = check s t.
Proof.
  intros Hinv Hck Hok. simpl. destruct (s_fs s f) as [now|] eqn:E.
  - apply (same_content_md5 s (TouchAt f m) f now {| mtime := m; size := size now; content := content now |}); auto.
    simpl. rewrite E. reflexivity.
  - unfold step_write. simpl. rewrite E. reflexivity.
Qed.

Lemma rewrite_at_md5 s f c m now t :
  db_reflects_ghost s -> s_ck s = MD5 -> op_ok size_of s (WriteAt f c m) = true ->
  s_fs s f = Some now -> content now = c -> size now = size_of c ->
  check (step s (WriteAt f c m)) t = check s t.
Proof.
  intros Hinv Hck Hok Hnow Hc Hs. simpl.
  apply (same_content_md5 s (WriteAt f c m) f now {| mtime := m; size := size_of c; content := c |}); auto.
Qed.

Lemma hist_ok_snoc ops o :
  hist_ok md5 size_of v (ops ++ [o]) = true <-> hist_ok md5 size_of v ops = true /\ op_ok size_of (run ops) o = true.
Proof.
  unfold hist_ok, History.run. generalize init. induction ops as [|a ops IH]; intros s; simpl.
  - rewrite andb_true_r. tauto.
  - rewrite andb_true_iff, IH, andb_true_iff. tauto.
Qed.

Lemma touch_md5_run ops f m t :
  hist_ok md5 size_of v (ops ++ [TouchAt f m]) = true -> s_ck (run ops) = MD5 ->
  check (run (ops ++ [TouchAt f m])) t = check (run ops) t.
Proof.
  intros Hf Hck. apply hist_ok_snoc in Hf. destruct Hf as [H1 H2].
  rewrite run_snoc. apply touch_at_md5; auto. apply run_inv; auto.
Qed.

Lemma touch_clock_md5_run ops f t :
  hist_ok md5 size_of v (ops ++ [Touch f]) = true -> s_ck (run ops) = MD5 ->
  check (run (ops ++ [Touch f])) t = check (run ops) t.
Proof.
  intros Hf Hck. apply hist_ok_snoc in Hf. destruct Hf as [H1 H2].
  rewrite run_snoc. apply touch_md5; auto. apply run_inv; auto.
Qed.

Lemma rewrite_md5_run ops f c m now t :
  hist_ok md5 size_of v (ops ++ [WriteAt f c m]) = true -> s_ck (run ops) = MD5 ->
  s_fs (run ops) f = Some now -> content now = c -> size now = size_of c ->
  check (run (ops ++ [WriteAt f c m])) t = check (run ops) t.
Proof.
  intros Hf Hck Hnow Hc Hs. apply hist_ok_snoc in Hf. destruct Hf as [H1 H2].
  rewrite run_snoc. apply (rewrite_at_md5 _ f c m now); auto. apply run_inv; auto.
Qed.

Lemma uptodate_not_executed s t : g_status (check s t) = UpToDate -> executes md5 v s t false = false.
Proof. intros H. unfold executes. fold (check s t). rewrite H. apply andb_false_r. Qed.

(* ---------- a run repeated after a successful one ---------- *)
Definition same_env (s s' : state) : Prop := s_fs s' = s_fs s /\ s_defs s' = s_defs s /\ s_ck s' = s_ck s.
Definition op_on (t : name) (o : op) : Prop := o = Check t \/ o = SaveOk t \/ o = Remove t.

Lemma step_on_env s t o : op_on t o -> same_env s (step s o).
Proof.
  intros [-> | [-> | ->]]; simpl; try (repeat split; reflexivity).
  destruct (process_success md5 v (s_ck s) (s_fs s) (s_db s) t (s_defs s t)) as [d o]. repeat split; reflexivity.
Qed.

Lemma step_on_frame s t o x :
  op_on t o -> x <> t -> s_db (step s o) x = s_db s x /\ s_last_ok (step s o) x = s_last_ok s x.
Proof.
  intros [-> | [-> | ->]] Hne; simpl.
  - rewrite prune_other by auto. split; auto.
    destruct (get_status_db md5 v (s_ck s) (s_fs s) (s_db s) t (s_defs s t) false) as [E|[_ E]]; rewrite E; auto.
    apply remove_other; auto.
  - unfold process_success.
    destruct (save_success md5 v (s_ck s) (s_fs s) (s_db s) t (file_dep (s_defs s t))
                (save_extra_values (s_db s) (s_defs s t)) (act_result (s_defs s t))) as [d' o] eqn:E.
    destruct (save_success_db _ _ _ _ _ _ _ _ _ E) as [Hfr _].
    destruct o; simpl; rewrite upd_other by auto; split; auto.
    unfold remove_success. rewrite remove_other by auto. auto.
  - unfold remove_success. rewrite remove_other, upd_other by auto. auto.
Qed.

Lemma run_task_ops_on s t : Forall (op_on t) (run_task_ops md5 v s t false false).
Proof.
  unfold run_task_ops. destruct (status_is_ignore (s_db s) t); [constructor|].
  constructor; [left; reflexivity|].
  destruct (g_status (History.check md5 v s t)); repeat (constructor; [unfold op_on; auto|]); constructor.
Qed.

Lemma run_from_on t ops : forall s, Forall (op_on t) ops ->
  same_env s (run_from s ops) /\
  forall x, x <> t -> s_db (run_from s ops) x = s_db s x /\ s_last_ok (run_from s ops) x = s_last_ok s x.
Proof.
  induction ops as [|o ops IH]; intros s H; simpl.
  - split; [repeat split; reflexivity | auto].
  - inversion H as [|? ? H1 H2]; subst.
    destruct (IH (step s o) H2) as [(E1 & E2 & E3) Hfr].
    destruct (step_on_env s t o H1) as (F1 & F2 & F3).
    split; [repeat split; congruence|].
    intros x Hne. destruct (Hfr x Hne) as [G1 G2]. destruct (step_on_frame s t o x H1 Hne) as [G3 G4].
    split; congruence.
Qed.

Lemma op_on_ok t ops : forall s, Forall (op_on t) ops -> hist_ok_from md5 size_of v s ops = true.
Proof.
  induction ops as [|o ops IH]; intros s H; simpl; auto. inversion H as [|? ? H1 H2]; subst.
  rewrite IH by auto. destruct H1 as [-> | [-> | ->]]; reflexivity.
Qed.

Lemma run_task_inv s t : db_reflects_ghost s -> db_reflects_ghost (run_task md5 size_of v s t false false).
Proof. intros H. apply run_from_inv; auto. apply (op_on_ok t), run_task_ops_on. Qed.

Lemma files_as_last_ok_ext s s' t :
  same_env s s' -> s_last_ok s' t = s_last_ok s t -> files_as_last_ok s t -> files_as_last_ok s' t.
Proof. unfold files_as_last_ok. intros (-> & -> & ->) ->. auto. Qed.

(* what processing t leaves: t is (still) ignored, or its file dependencies are as its last success saw them *)
Definition settled (s : state) (t : name) : Prop :=
  status_is_ignore (s_db s) t = true \/ files_as_last_ok s t.

Lemma run_task_settles s t :
  db_reflects_ghost s ->
  (forall f, In f (file_dep (s_defs s t)) -> exists_ (s_fs s) f = true) ->
  settled (run_task md5 size_of v s t false false) t.
Proof.
  intros Hinv Hex. unfold run_task, run_task_ops.
  destruct (status_is_ignore (s_db s) t) eqn:Eig; [left; exact Eig|].
  right. pose proof Hinv as (Hb & Ht & Hcr).
  destruct (g_status (History.check md5 v s t)) eqn:Est.
  - (* up-to-date *)
    pose proof (sound_files s t Hinv Est) as HF.
    apply (files_as_last_ok_ext s); auto.
    + apply (step_on_env s t). left; reflexivity.
    + simpl. unfold History.check in Est. rewrite (get_status_uptodate_db md5 v _ _ _ _ _ Est).
      unfold prune. specialize (Ht t). unfold task_inv in Ht.
      destruct (s_db s t); auto. rewrite upd_same. destruct (s_last_ok s t); [destruct Ht | reflexivity].
  - (* run: executed and saved *)
    set (s1 := step s (Check t)).
    assert (Hinv1 : db_reflects_ghost s1) by (apply step_inv; auto).
    assert (Henv : same_env s s1) by (apply (step_on_env s t); left; reflexivity).
    destruct Henv as (E1 & E2 & E3).
    change (files_as_last_ok (step s1 (SaveOk t)) t). clearbody s1. simpl. unfold process_success.
    destruct (save_success md5 v (s_ck s1) (s_fs s1) (s_db s1) t (file_dep (s_defs s1 t))
                (save_extra_values (s_db s1) (s_defs s1 t)) (act_result (s_defs s1 t))) as [d' o] eqn:E.
    pose proof Hinv1 as (_ & Ht1 & _). destruct (task_inv_getrec s1 t (Ht1 t)) as [G1 G2].
    pose proof (inv_save s1 (s_db s1) t _ _ d' o Hinv1 G1 G2 (fun _ _ => eq_refl) E) as H.
    destruct o.
    + unfold files_as_last_ok. simpl. rewrite upd_same. simpl.
      split; [reflexivity|]. split; [apply same_set_refl|].
      intros f Hf. rewrite E2 in Hf. specialize (Hex f Hf). unfold exists_ in Hex. rewrite <- E1 in Hex.
      destruct (s_fs s1 f) as [st|]; [|discriminate]. exists st, st. split; auto. split; auto. apply unmodified_refl.
    + destruct H as (Hin & Hnone & _). rewrite E2 in Hin. specialize (Hex f Hin). unfold exists_ in Hex.
      rewrite <- E1, Hnone in Hex. discriminate.
    + destruct H.
  - (* error: some file dependency is missing *)
    exfalso. unfold History.check in Est. apply get_status_error in Est. destruct Est as (f & Hin & Hnone).
    specialize (Hex f Hin). unfold exists_ in Hex. rewrite Hnone in Hex. discriminate.
  - exfalso. unfold History.check in Est. revert Est. apply get_status_no_crash. apply (task_inv_getrec s t (Ht t)).
Qed.

Lemma run_task_keeps_settled s t x :
  x <> t -> settled s x -> settled (run_task md5 size_of v s t false false) x.
Proof.
  intros Hne Hs. unfold run_task.
  destruct (run_from_on t (run_task_ops md5 v s t false false) s (run_task_ops_on s t)) as [Henv Hfr].
  destruct (Hfr x Hne) as [F1 F2]. destruct Hs as [Hs|Hs].
  - left. unfold status_is_ignore, getrec in *. rewrite F1. exact Hs.
  - right. apply (files_as_last_ok_ext s); auto.
Qed.

Lemma run_all_settles ts : forall s,
  db_reflects_ghost s ->
  (forall t f, In t ts -> In f (file_dep (s_defs s t)) -> exists_ (s_fs s) f = true) ->
  db_reflects_ghost (run_all md5 size_of v s ts) /\ same_env s (run_all md5 size_of v s ts) /\
  forall t, In t ts \/ settled s t -> settled (run_all md5 size_of v s ts) t.
Proof.
  induction ts as [|t0 ts IH]; intros s Hinv Hex; simpl.
  - split; auto. split; [repeat split; reflexivity|]. intros t [[]|H]; auto.
  - set (s1 := run_task md5 size_of v s t0 false false).
    assert (Hinv1 : db_reflects_ghost s1) by (apply run_task_inv; auto).
    destruct (run_from_on t0 (run_task_ops md5 v s t0 false false) s (run_task_ops_on s t0)) as [(E1 & E2 & E3) _].
    fold (run_task md5 size_of v s t0 false false) in E1, E2, E3. fold s1 in E1, E2, E3.
    assert (Hex1 : forall t f, In t ts -> In f (file_dep (s_defs s1 t)) -> exists_ (s_fs s1) f = true).
    { intros t f Hin Hf. rewrite E1. rewrite E2 in Hf. apply (Hex t); simpl; auto. }
    destruct (IH s1 Hinv1 Hex1) as (I1 & (I2 & I3 & I4) & I5).
    split; [exact I1|]. split; [repeat split; congruence|].
    intros t Ht. apply I5.
    destruct (in_dec N.eq_dec t ts) as [Hin|Hnin]; [left; exact Hin|]. right.
    destruct (N.eq_dec t t0) as [->|Hne].
    + apply run_task_settles; auto. intros f Hf. apply (Hex t0); simpl; auto.
    + apply run_task_keeps_settled; auto. destruct Ht as [[Heq|Hin]|Hs]; [congruence | contradiction | exact Hs].
Qed.

(* the verdict for a task whose files are as its last success saw them is decided by its uptodate items alone *)
Lemma settled_verdict s t :
  db_reflects_ghost s -> files_as_last_ok s t ->
  (forall x, In x (targets (s_defs s t)) -> exists_ (s_fs s) x = true) ->
  (g_status (check s t) = UpToDate <-> items_ok (s_db s) t (s_defs s t) /\ some_dep (s_db s) t (s_defs s t)) /\
  (g_status (check s t) = UpToDate \/ g_status (check s t) = Run).
Proof.
  intros Hinv HF Htg.
  destruct (complete_files s t Hinv HF) as (C1 & C2 & _). pose proof (complete_verdicts s t Hinv HF) as C3.
  assert (Hiff : g_status (check s t) = UpToDate <-> items_ok (s_db s) t (s_defs s t) /\ some_dep (s_db s) t (s_defs s t)).
  { unfold check. rewrite get_status_uptodate_iff. unfold targets_ok. tauto. }
  split; [exact Hiff|].
  destruct (g_status (check s t)) eqn:E; auto.
  - exfalso. unfold check in E.
    rewrite get_status_never in E; [discriminate|]. intros H. apply Hiff in H. unfold check in H. congruence.
  - exfalso. unfold check in E.
    rewrite get_status_never in E; [discriminate|]. intros H. apply Hiff in H. unfold check in H. congruence.
Qed.

Lemma rerun_at s0 ts t :
  db_reflects_ghost s0 ->
  (forall t f, In t ts -> In f (file_dep (s_defs s0 t)) -> exists_ (s_fs s0) f = true) ->
  let s1 := run_all md5 size_of v s0 ts in
  In t ts -> status_is_ignore (s_db s1) t = false ->
  (forall x, In x (targets (s_defs s1 t)) -> exists_ (s_fs s1) x = true) ->
  (executes md5 v s1 t false = false <->
     (forall u, In u (uptodate (s_defs s1 t)) -> eval_utd (s_db s1) t u <> Some false) /\
     (file_dep (s_defs s1 t) <> [] \/ exists u b, In u (uptodate (s_defs s1 t)) /\ eval_utd (s_db s1) t u = Some b)).
Proof.
  intros Hinv Hex s1 Hin Hig Htg.
  destruct (run_all_settles ts s0 Hinv Hex) as (I1 & _ & I3). fold s1 in I1, I3.
  destruct (I3 t (or_introl Hin)) as [Hs|Hs]; [congruence|].
  destruct (settled_verdict s1 t I1 Hs Htg) as [Hiff Hor].
  unfold executes. rewrite Hig. simpl. fold (check s1 t).
  unfold items_ok, some_dep in Hiff. rewrite <- Hiff.
  destruct Hor as [E|E]; rewrite E; split; congruence.
Qed.

End HistoryP.
