(* GetargsP.v -- proofs about Model/Getargs.v: the value saver of result_dep / getargs stores the provider's
   CURRENT result, for one SaveOk and for a whole run of the serial runner over any acyclic task set. *)
From Coq Require Import ZifyBool.
From DoitV Require Import Base Status History Getargs StatusP HistoryP.
Open Scope Z_scope.

(* ---------- values ---------- *)
Lemma vget_vset_same v k x : vget (vset v k x) k = Some x.
Proof.
  induction v as [|[k' x'] r IH]; simpl.
  - rewrite N.eqb_refl. reflexivity.
  - destruct (N.eqb k' k) eqn:E; simpl; rewrite E; auto.
Qed.

Lemma vget_vset_other v k k' x : k' <> k -> vget (vset v k x) k' = vget v k'.
Proof.
  intros Hne. induction v as [|[k0 x0] r IH]; simpl.
  - apply N.eqb_neq in Hne. rewrite N.eqb_sym in Hne. rewrite Hne. reflexivity.
  - destruct (N.eqb k0 k) eqn:E; simpl.
    + apply N.eqb_eq in E. subst k0.
      assert (F : N.eqb k k' = false) by (apply N.eqb_neq; congruence). rewrite F. reflexivity.
    + rewrite IH. reflexivity.
Qed.

Lemma k_result_inj a b : k_result a = k_result b -> a = b.
Proof. unfold k_result. lia. Qed.

(* the value a result_dep item saves: whatever the other items save, the key of `src` ends up holding the result of `src` read NOW *)
Lemma save_extra_result d df src :
  In (UResultDep src) (uptodate df) -> vget (save_extra_values d df) (k_result src) = Some (get_result d src).
Proof.
  unfold save_extra_values. generalize (act_values df).
  assert (Hstep : forall acc u, (vget acc (k_result src) = Some (get_result d src) \/ u = UResultDep src) ->
                                vget (vupdate acc (saver d u)) (k_result src) = Some (get_result d src)).
  { intros acc u H. destruct u as [b| |r| |dg|s]; simpl; unfold vupdate; simpl;
      try (destruct H as [H|H]; [exact H|discriminate]).
    - destruct H as [H|H]; [|discriminate]. rewrite vget_vset_other; auto. unfold k_result, k_runonce. lia.
    - destruct H as [H|H]; [|discriminate]. rewrite vget_vset_other; auto. unfold k_result, k_config. lia.
    - destruct (N.eq_dec s src) as [->|Hne].
      + apply vget_vset_same.
      + destruct H as [H|H]; [|congruence]. rewrite vget_vset_other; auto. intros E. apply k_result_inj in E. congruence. }
  induction (uptodate df) as [|u us IH]; intros acc Hin; [destruct Hin|]. simpl.
  assert (Hgen : forall l acc', vget acc' (k_result src) = Some (get_result d src) ->
                 vget (fold_left (fun a u0 => vupdate a (saver d u0)) l acc') (k_result src) = Some (get_result d src)).
  { induction l as [|u0 l IHl]; intros acc' H; simpl; [exact H|]. apply IHl. apply Hstep. left. exact H. }
  destruct Hin as [->|Hin].
  - apply Hgen. apply Hstep. auto.
  - apply IH. exact Hin.
Qed.

Lemma save_files_values md5 c fs deps : forall r, r_values (fst (save_files md5 c fs r deps)) = r_values r.
Proof.
  induction deps as [|f deps IH]; intros r; simpl; auto.
  destruct (fs f) as [st|]; simpl; auto.
  destruct (get_state md5 c st (r_saved r f)); simpl; auto. rewrite IH. reflexivity.
Qed.

Lemma save_success_rec_values md5 v c fs r0 deps values result :
  r_values (fst (save_success_rec md5 v c fs r0 deps values result)) = values.
Proof.
  unfold save_success_rec. cbv zeta.
  set (r3 := set_checker _ _).
  pose proof (save_files_values md5 c fs deps r3) as H.
  destruct (save_files md5 c fs r3 deps) as [r4 o]. cbn [fst] in H.
  assert (E : r_values r3 = values) by (unfold r3; destruct result; reflexivity).
  destruct o; simpl; congruence.
Qed.

Section GetargsP.
Variable md5 : N -> N.
Variable size_of : N -> Z.
Variable v : ver.
Hypothesis HA : fixA v = true.
Hypothesis HB : fixB v = true.

Notation step := (step md5 size_of v).
Notation run_from := (run_from md5 size_of v).
Notation check := (check md5 v).

(* every result_dep item of t (explicit, or implicit through getargs) finds, in t's saved values, the result its provider's record holds now *)
Definition result_current (s : state) (t : name) : Prop :=
  forall src, In (UResultDep src) (uptodate (s_defs s t)) -> src <> t ->
    vget (get_values (s_db s) t) (k_result src) = Some (get_result (s_db s) src).

(* ... then the item is true exactly when the provider's record holds a result at all *)
Lemma result_current_eval s t src :
  result_current s t -> In (UResultDep src) (uptodate (s_defs s t)) -> src <> t ->
  eval_utd (s_db s) t (UResultDep src) = Some (match get_result (s_db s) src with Some _ => true | None => false end).
Proof.
  intros H Hin Hne. simpl. rewrite (H src Hin Hne). destruct (get_result (s_db s) src); auto. rewrite N.eqb_refl. reflexivity.
Qed.

(* one recording step: whatever happened since t was checked, the SaveOk stores the provider's result of the moment of the SaveOk *)
Lemma saveok_result_current s t :
  (match s_log (step s (SaveOk t)) with OSave _ SaveDone :: _ => True | _ => False end) ->
  result_current (step s (SaveOk t)) t.
Proof.
  intros Hdone src Hin Hne. simpl in *. unfold process_success in *.
  pose proof (save_success_rec_values md5 v (s_ck s) (s_fs s) (getrec (s_db s) t) (file_dep (s_defs s t))
                (save_extra_values (s_db s) (s_defs s t)) (act_result (s_defs s t))) as Hv.
  unfold save_success in *.
  destruct (save_success_rec md5 v (s_ck s) (s_fs s) (getrec (s_db s) t) (file_dep (s_defs s t))
              (save_extra_values (s_db s) (s_defs s t)) (act_result (s_defs s t))) as [r' o]. simpl in Hv.
  destruct o; simpl in *; try contradiction.
  unfold get_values, get_result, getrec. rewrite upd_same, upd_other by auto. rewrite Hv.
  apply save_extra_result. exact Hin.
Qed.

Lemma saveok_reads_latest s t src :
  (match s_log (step s (SaveOk t)) with OSave _ SaveDone :: _ => True | _ => False end) ->
  In (UResultDep src) (uptodate (s_defs s t)) -> src <> t ->
  vget (get_values (s_db (step s (SaveOk t))) t) (k_result src) = Some (get_result (s_db (step s (SaveOk t))) src).
Proof.
  intros Hdone Hin Hne. apply (saveok_result_current s t Hdone src); [|exact Hne].
  destruct (step_on_env md5 size_of v s t (SaveOk t)) as (_ & Hd & _); [right; left; reflexivity|]. rewrite Hd. exact Hin.
Qed.

(* ---------- a whole run ---------- *)
Variable G : name -> rdef.
Variable fails : name -> bool.
Notation visit := (visit md5 size_of v G fails).

Definition finished (a : racc) (t : name) : Prop := fin_of (ra_fin a) t <> None.
Definition clean (a : racc) : Prop := ra_cyc a = false /\ ra_fuel a = false.

Lemma fin_of_app l t c x :
  fin_of (l ++ [(t, c)]) x = match fin_of l x with Some c' => Some c' | None => if N.eqb t x then Some c else None end.
Proof.
  induction l as [|[t' c'] l IH]; simpl; auto.
  destruct (N.eqb t' x); auto.
Qed.

Record ainv (a : racc) : Prop := {
  ai_defs : forall t, s_defs (ra_s a) t = eff (G t);
  ai_ghost : db_reflects_ghost md5 (ra_s a);
  ai_started : forall t, finished a t -> In t (ra_started a);
  ai_res : clean a -> forall t, fin_of (ra_fin a) t = Some 0 ->
           result_current (ra_s a) t /\
           forall src, In (UResultDep src) (uptodate (s_defs (ra_s a) t)) -> finished a src /\ src <> t;
  ai_files : forall t, (fin_of (ra_fin a) t = Some 0 \/ fin_of (ra_fin a) t = Some 2) -> files_as_last_ok md5 (ra_s a) t
}.

Record ext (a a' : racc) : Prop := {
  ex_started : forall t, In t (ra_started a) -> In t (ra_started a');
  ex_fin : forall t c, fin_of (ra_fin a) t = Some c -> fin_of (ra_fin a') t = Some c;
  ex_db : forall t, finished a t -> s_db (ra_s a') t = s_db (ra_s a) t /\ s_last_ok (ra_s a') t = s_last_ok (ra_s a) t;
  ex_env : same_env (ra_s a) (ra_s a');
  ex_cyc : ra_cyc a = true -> ra_cyc a' = true;
  ex_fuel : ra_fuel a = true -> ra_fuel a' = true
}.

Lemma ext_refl a : ext a a.
Proof. constructor; auto. repeat split; reflexivity. Qed.

Lemma ext_trans a b c : ext a b -> ext b c -> ext a c.
Proof.
  intros [A1 A2 A4 A5 A6 A7] [B1 B2 B4 B5 B6 B7]. constructor; auto.
  - intros t H. destruct (A4 t H) as [E1 E2].
    assert (Hb : finished b t).
    { unfold finished in *. destruct (fin_of (ra_fin a) t) as [c0|] eqn:E; [|congruence]. rewrite (A2 t c0 E). discriminate. }
    destruct (B4 t Hb) as [F1 F2]. split; congruence.
  - destruct A5 as (X1 & X2 & X3), B5 as (Y1 & Y2 & Y3). repeat split; congruence.
Qed.

Lemma ext_finished a a' t : ext a a' -> finished a t -> finished a' t.
Proof.
  intros E H. unfold finished in *. destruct (fin_of (ra_fin a) t) as [c|] eqn:F; [|congruence].
  rewrite (ex_fin _ _ E t c F). discriminate.
Qed.

Lemma ext_clean a a' : ext a a' -> clean a' -> clean a.
Proof.
  intros E [C1 C2]. split.
  - destruct (ra_cyc a) eqn:F; auto. rewrite (ex_cyc _ _ E F) in C1. discriminate.
  - destruct (ra_fuel a) eqn:F; auto. rewrite (ex_fuel _ _ E F) in C2. discriminate.
Qed.

(* operations on a task that is not finished yet *)
Lemma ops_on_unfinished a t ops :
  ainv a -> ~ finished a t -> Forall (op_on t) ops ->
  ainv (with_s a (run_from (ra_s a) ops)) /\ ext a (with_s a (run_from (ra_s a) ops)).
Proof.
  intros [I1 I2 I3 I4 I5] Hnf Hops.
  destruct (run_from_on md5 size_of v t ops (ra_s a) Hops) as [(E1 & E2 & E3) Hfr].
  assert (Hne : forall x, finished a x -> x <> t) by (intros x Hx ->; contradiction).
  split.
  - constructor; simpl.
    + intros x. rewrite E2. apply I1.
    + apply run_from_inv; auto. apply (op_on_ok md5 size_of v t); auto.
    + exact I3.
    + intros Hc x Hx. destruct (I4 Hc x Hx) as [R1 R2].
      assert (Hxf : finished a x) by (unfold finished; rewrite Hx; discriminate).
      split.
      * intros src Hin Hsrc. rewrite E2 in Hin. destruct (R2 src Hin) as [Hsf _].
        unfold get_values, get_result, getrec.
        rewrite (proj1 (Hfr x (Hne x Hxf))), (proj1 (Hfr src (Hne src Hsf))). apply R1; auto.
      * intros src Hin. rewrite E2 in Hin. apply R2; auto.
    + intros x Hx.
      assert (Hxf : finished a x) by (unfold finished; destruct Hx as [Hx|Hx]; rewrite Hx; discriminate).
      apply (files_as_last_ok_ext md5 (ra_s a)); [repeat split; auto | apply (Hfr x (Hne x Hxf)) | apply I5; auto].
  - constructor; simpl.
    + auto.
    + auto.
    + intros x Hx. apply Hfr, Hne, Hx.
    + repeat split; auto.
    + auto.
    + auto.
Qed.

(* the final report of a task that was started and is not finished *)
Lemma finish_unfinished a t c :
  ainv a -> In t (ra_started a) -> ~ finished a t ->
  (c = 0 -> clean a -> result_current (ra_s a) t /\
            forall src, In (UResultDep src) (uptodate (s_defs (ra_s a) t)) -> finished a src /\ src <> t) ->
  (c = 0 \/ c = 2 -> files_as_last_ok md5 (ra_s a) t) ->
  ainv (finish a (ra_s a) t c) /\ ext a (finish a (ra_s a) t c) /\ finished (finish a (ra_s a) t c) t /\
  forall x, finished (finish a (ra_s a) t c) x -> finished a x \/ x = t.
Proof.
  intros [I1 I2 I3 I4 I5] Hst Hnf Hres Hfiles.
  assert (Hnone : fin_of (ra_fin a) t = None) by (unfold finished in Hnf; destruct (fin_of (ra_fin a) t); [exfalso; apply Hnf; discriminate | reflexivity]).
  assert (Hfin : forall x, fin_of (ra_fin (finish a (ra_s a) t c)) x =
                           match fin_of (ra_fin a) x with Some c' => Some c' | None => if N.eqb t x then Some c else None end).
  { intros x. simpl. apply fin_of_app. }
  split; [|split; [|split]].
  - constructor; simpl ra_s; simpl ra_started; auto.
    + intros x Hx. unfold finished in Hx. rewrite Hfin in Hx.
      destruct (fin_of (ra_fin a) x) eqn:E; [apply I3; unfold finished; rewrite E; discriminate|].
      destruct (N.eqb_spec t x) as [<-|]; [exact Hst | congruence].
    + intros Hc x Hx. rewrite Hfin in Hx.
      assert (Hmono : forall y, finished a y -> finished (finish a (ra_s a) t c) y).
      { intros y Hy. unfold finished in *. rewrite Hfin. destruct (fin_of (ra_fin a) y); [discriminate | congruence]. }
      destruct (fin_of (ra_fin a) x) eqn:E.
      * inversion Hx; subst. destruct (I4 Hc x E) as [R1 R2]. split; auto.
        intros src Hin. destruct (R2 src Hin). split; auto.
      * destruct (N.eqb_spec t x) as [<-|]; [|discriminate]. inversion Hx; subst.
        destruct (Hres eq_refl Hc) as [R1 R2]. split; auto. intros src Hin. destruct (R2 src Hin). split; auto.
    + intros x Hx. rewrite !Hfin in Hx.
      destruct (fin_of (ra_fin a) x) eqn:E; [apply I5; rewrite E; exact Hx|].
      destruct (N.eqb_spec t x) as [<-|]; [|destruct Hx; discriminate].
      apply Hfiles. destruct Hx as [Hx|Hx]; inversion Hx; auto.
  - constructor; simpl ra_s; simpl ra_started; simpl ra_cyc; simpl ra_fuel; auto.
    + intros x c' Hx. rewrite Hfin, Hx. reflexivity.
    + repeat split; reflexivity.
  - unfold finished. rewrite Hfin, Hnone, N.eqb_refl. discriminate.
  - intros x Hx. unfold finished in *. rewrite Hfin in Hx.
    destruct (fin_of (ra_fin a) x) eqn:E; [left; discriminate|].
    destruct (N.eqb_spec t x) as [<-|]; [right; reflexivity | congruence].
Qed.

(* ---------- the pieces of visit ---------- *)
Lemma visit_tail a t ops c :
  ainv a -> In t (ra_started a) -> ~ finished a t -> Forall (op_on t) ops ->
  (c = 0 -> clean a -> result_current (run_from (ra_s a) ops) t /\
            forall src, In (UResultDep src) (uptodate (s_defs (run_from (ra_s a) ops) t)) -> finished a src /\ src <> t) ->
  (c = 0 \/ c = 2 -> files_as_last_ok md5 (run_from (ra_s a) ops) t) ->
  ainv (finish a (run_from (ra_s a) ops) t c) /\ ext a (finish a (run_from (ra_s a) ops) t c) /\
  finished (finish a (run_from (ra_s a) ops) t c) t /\
  forall x, finished (finish a (run_from (ra_s a) ops) t c) x -> finished a x \/ x = t.
Proof.
  intros Ha Hst Hnf Hops Hres Hfiles.
  destruct (ops_on_unfinished a t ops Ha Hnf Hops) as [Ha' E'].
  set (a' := with_s a (run_from (ra_s a) ops)) in *.
  change (finish a (run_from (ra_s a) ops) t c) with (finish a' (ra_s a') t c).
  destruct (finish_unfinished a' t c Ha' Hst Hnf) as (F1 & F2 & F3 & F4); auto.
  split; [exact F1|]. split; [exact (ext_trans _ _ _ E' F2)|]. split; [exact F3|exact F4].
Qed.

Definition newfin (a a' : racc) : Prop := forall x, finished a' x -> finished a x \/ ~ In x (ra_started a).
Definition done_or_flag (a : racc) (t : name) : Prop := finished a t \/ ra_cyc a = true \/ ra_fuel a = true.

Lemma newfin_trans a b c : ext a b -> newfin a b -> newfin b c -> newfin a c.
Proof.
  intros E N1 N2 x Hx. destruct (N2 x Hx) as [H|H]; [apply N1; exact H|].
  right. intros Hin. apply H. apply (ex_started _ _ E). exact Hin.
Qed.

Lemma done_or_flag_ext a a' t : ext a a' -> done_or_flag a t -> done_or_flag a' t.
Proof.
  intros E [H|[H|H]]; [left; apply (ext_finished _ _ _ E H) | right; left; apply (ex_cyc _ _ E H) | right; right; apply (ex_fuel _ _ E H)].
Qed.

Lemma done_clean a t : done_or_flag a t -> clean a -> finished a t.
Proof. intros [H|[H|H]] [C1 C2]; auto; congruence. Qed.

Definition good_visit (fuel : nat) : Prop :=
  forall a t, ainv a ->
    ainv (visit fuel a t) /\ ext a (visit fuel a t) /\ newfin a (visit fuel a t) /\ done_or_flag (visit fuel a t) t.

Lemma fold_good fuel : good_visit fuel -> forall l a, ainv a ->
  ainv (fold_left (visit fuel) l a) /\ ext a (fold_left (visit fuel) l a) /\ newfin a (fold_left (visit fuel) l a) /\
  forall x, In x l -> done_or_flag (fold_left (visit fuel) l a) x.
Proof.
  intros Hg. induction l as [|x l IH]; intros a Ha; simpl.
  - split; [exact Ha|]. split; [apply ext_refl|]. split; [intros y Hy; left; exact Hy | intros y []].
  - destruct (Hg a x Ha) as (A1 & E1 & N1 & D1).
    destruct (IH (visit fuel a x) A1) as (A2 & E2 & N2 & D2).
    split; [exact A2|]. split; [exact (ext_trans _ _ _ E1 E2)|]. split; [exact (newfin_trans _ _ _ E1 N1 N2)|].
    intros y [<-|Hy]; [apply (done_or_flag_ext _ _ _ E2 D1) | apply D2; exact Hy].
Qed.

(* flags and the node list alone *)
Lemma ainv_flag a a' :
  ainv a -> ra_s a' = ra_s a -> ra_started a' = ra_started a -> ra_fin a' = ra_fin a ->
  (clean a' -> clean a) -> ainv a'.
Proof.
  intros [I1 I2 I3 I4 I5] Es Est Ef Hc. constructor; unfold finished in *; rewrite ?Es, ?Est, ?Ef; auto.
Qed.

Lemma ext_flag a a' :
  ra_s a' = ra_s a -> (forall x, In x (ra_started a) -> In x (ra_started a')) -> ra_fin a' = ra_fin a ->
  (ra_cyc a = true -> ra_cyc a' = true) -> (ra_fuel a = true -> ra_fuel a' = true) -> ext a a'.
Proof.
  intros Es Est Ef Hc Hf. constructor; unfold finished; rewrite ?Es, ?Ef; auto. repeat split; reflexivity.
Qed.

Lemma saveok_settles s t :
  db_reflects_ghost md5 s ->
  (match s_log (step s (SaveOk t)) with OSave _ SaveDone :: _ => True | _ => False end) ->
  files_as_last_ok md5 (step s (SaveOk t)) t.
Proof.
  intros Hinv Hdone.
  assert (Hinv' : db_reflects_ghost md5 (step s (SaveOk t))) by (eapply step_inv; eauto).
  destruct Hinv' as (_ & Ht & _). specialize (Ht t). revert Ht Hdone. unfold files_as_last_ok, task_inv. simpl.
  unfold process_success.
  destruct (save_success md5 v (s_ck s) (s_fs s) (s_db s) t (file_dep (s_defs s t))
              (save_extra_values (s_db s) (s_defs s t)) (act_result (s_defs s t))) as [d' o] eqn:E.
  destruct (save_success_db md5 v _ _ _ _ _ _ _ _ _ E) as (_ & r' & Hr' & _).
  destruct o; simpl; [|intros _ []|intros _ []].
  rewrite Hr', upd_same. intros (_ & _ & R1 & R2 & R3 & R4) _. simpl in *.
  split; [reflexivity|]. split; [apply same_set_refl|].
  intros f Hf. destruct (R4 f Hf) as [st [Hst _]]. exists st, st. split; auto. split; auto. apply unmodified_refl.
Qed.

Lemma check_keeps_files s t :
  db_reflects_ghost md5 s -> g_status (check s t) = UpToDate -> files_as_last_ok md5 (step s (Check t)) t.
Proof.
  intros Hinv Est. pose proof Hinv as (Hb & Ht & Hcr).
  assert (HF : files_as_last_ok md5 s t) by (eapply sound_files; eauto).
  apply (files_as_last_ok_ext md5 s); auto.
  - apply (step_on_env md5 size_of v s t). left; reflexivity.
  - simpl. unfold History.check in Est. rewrite (get_status_uptodate_db md5 v _ _ _ _ _ Est).
    unfold prune. specialize (Ht t). unfold task_inv in Ht.
    destruct (s_db s t); auto. rewrite upd_same. destruct (s_last_ok s t); [destruct Ht | reflexivity].
Qed.

(* ---------- visit ---------- *)
Lemma started_ok a t : ainv a -> ~ In t (ra_started a) ->
  ainv (started a t) /\ ext a (started a t) /\ newfin a (started a t) /\ In t (ra_started (started a t)) /\ ~ finished (started a t) t.
Proof.
  intros Ha Hn.
  assert (Hnf : ~ finished a t) by (intros H; apply Hn, (ai_started _ Ha), H).
  split; [|split; [|split; [|split]]].
  - destruct Ha as [I1 I2 I3 I4 I5]. constructor; simpl; auto; try (intros x Hx; right; apply I3; exact Hx).
  - apply ext_flag; simpl; auto.
  - intros x Hx. left. exact Hx.
  - left. reflexivity.
  - exact Hnf.
Qed.

Lemma in_task_deps d src : In (UResultDep src) (uptodate (rd_def d)) -> In src (task_deps d).
Proof.
  unfold task_deps. intros H. apply in_flat_map. exists (UResultDep src). split; [exact H | left; reflexivity].
Qed.

Lemma in_eff_uptodate d src :
  In (UResultDep src) (uptodate (eff d)) -> In src (task_deps d) \/ In src (setup_tasks d).
Proof.
  simpl. rewrite in_app_iff. intros [H|H]; [left; apply in_task_deps; exact H|].
  right. apply in_map_iff in H. destruct H as [x [E Hx]]. inversion E; subst. exact Hx.
Qed.

(* what every branch of visit ends with, put back into the frame of the caller *)
Lemma wrap a b a' t :
  ext a b -> newfin a b -> ~ In t (ra_started a) ->
  ainv a' /\ ext b a' /\ finished a' t /\ (forall x, finished a' x -> finished b x \/ x = t) ->
  ainv a' /\ ext a a' /\ newfin a a' /\ done_or_flag a' t.
Proof.
  intros E N Hn (A & E' & F & Hnew).
  split; [exact A|]. split; [exact (ext_trans _ _ _ E E')|]. split; [|left; exact F].
  intros x Hx. destruct (Hnew x Hx) as [H| ->]; [apply N; exact H | right; exact Hn].
Qed.

Lemma visit_S fuel a t : visit (S fuel) a t =
    if mem t (ra_started a) then
      (match fin_of (ra_fin a) t with Some _ => a | None => set_cyc a end)
    else
    let a1 := fold_left (visit fuel) (task_deps (G t)) (started a t) in
    if dep_ign a1 (task_deps (G t)) || status_is_ignore (s_db (ra_s a1)) t then finish a1 (ra_s a1) t 3 else
    if dep_bad a1 (task_deps (G t)) then finish a1 (step (ra_s a1) (Remove t)) t 4 else
    match g_status (check (ra_s a1) t) with
    | Error => finish a1 (step (step (ra_s a1) (Check t)) (Remove t)) t 4
    | Crash => finish a1 (step (ra_s a1) (Check t)) t 98
    | UpToDate => finish a1 (step (ra_s a1) (Check t)) t 2
    | Run =>
        let a3 := fold_left (visit fuel) (setup_tasks (G t)) (with_s a1 (step (ra_s a1) (Check t))) in
        if dep_ign a3 (setup_tasks (G t)) then finish a3 (ra_s a3) t 3 else
        if dep_bad a3 (setup_tasks (G t)) then finish a3 (step (ra_s a3) (Remove t)) t 4 else
        if negb (args_ok (s_db (ra_s a3)) (rd_getargs (G t))) then finish a3 (step (ra_s a3) (Remove t)) t 4 else
        if fails t then finish a3 (step (ra_s a3) (Remove t)) t 1 else
        finish a3 (step (ra_s a3) (SaveOk t)) t (save_code (step (ra_s a3) (SaveOk t)))
    end.
Proof. reflexivity. Qed.

Ltac on_t := repeat (constructor; [first [left; reflexivity | right; left; reflexivity | right; right; reflexivity]|]); constructor.

Lemma visit_good : forall fuel, good_visit fuel.
Proof.
  induction fuel as [|fuel IH]; intros a t Ha.
  - (* out of fuel *)
    simpl. split; [|split; [|split]].
    + apply (ainv_flag a); auto. intros [_ C]. simpl in C. discriminate.
    + apply ext_flag; simpl; auto.
    + intros x Hx. left. exact Hx.
    + right. right. reflexivity.
  - rewrite visit_S. destruct (mem t (ra_started a)) eqn:Est.
    + destruct (fin_of (ra_fin a) t) as [c|] eqn:Ef.
      * split; [exact Ha|]. split; [apply ext_refl|]. split; [intros x Hx; left; exact Hx|].
        left. unfold finished. rewrite Ef. discriminate.
      * split; [|split; [|split]].
        -- apply (ainv_flag a); auto. intros [C _]. simpl in C. discriminate.
        -- apply ext_flag; simpl; auto.
        -- intros x Hx. left. exact Hx.
        -- right. left. reflexivity.
    + cbv zeta. apply mem_false_In in Est.
      destruct (started_ok a t Ha Est) as (Ha0 & E0 & N0 & Hst0 & Hnf0).
      destruct (fold_good fuel IH (task_deps (G t)) (started a t) Ha0) as (Ha1 & E1 & N1 & D1).
      set (a1 := fold_left (visit fuel) (task_deps (G t)) (started a t)) in *.
      assert (Ea1 : ext a a1) by exact (ext_trans _ _ _ E0 E1).
      assert (Na1 : newfin a a1) by exact (newfin_trans _ _ _ E0 N0 N1).
      assert (Hst1 : In t (ra_started a1)) by (apply (ex_started _ _ E1); exact Hst0).
      assert (Hnf1 : ~ finished a1 t).
      { intros H. destruct (N1 t H) as [H'|H']; [exact (Hnf0 H') | exact (H' Hst0)]. }
      destruct (dep_ign a1 (task_deps (G t)) || status_is_ignore (s_db (ra_s a1)) t).
      { apply (wrap a a1); auto. apply (visit_tail a1 t [] 3); [exact Ha1 | exact Hst1 | exact Hnf1 | on_t | intros H; discriminate | intros [H|H]; discriminate]. }
      destruct (dep_bad a1 (task_deps (G t))).
      { apply (wrap a a1); auto. apply (visit_tail a1 t [Remove t] 4); [exact Ha1 | exact Hst1 | exact Hnf1 | on_t | intros H; discriminate | intros [H|H]; discriminate]. }
      destruct (g_status (check (ra_s a1) t)) eqn:Est1.
      * (* up-to-date *)
        apply (wrap a a1); auto. apply (visit_tail a1 t [Check t] 2); [exact Ha1 | exact Hst1 | exact Hnf1 | on_t | intros H; discriminate |].
        intros _. change (run_from (ra_s a1) [Check t]) with (step (ra_s a1) (Check t)). apply check_keeps_files; [apply (ai_ghost _ Ha1) | exact Est1].
      * (* run: the setup-tasks, then the second select_task *)
        destruct (ops_on_unfinished a1 t [Check t] Ha1 Hnf1) as [Ha2 E2]; [on_t|].
        change (run_from (ra_s a1) [Check t]) with (step (ra_s a1) (Check t)) in Ha2, E2.
        set (a2 := with_s a1 (step (ra_s a1) (Check t))) in *.
        destruct (fold_good fuel IH (setup_tasks (G t)) a2 Ha2) as (Ha3 & E3 & N3 & D3).
        set (a3 := fold_left (visit fuel) (setup_tasks (G t)) a2) in *.
        assert (Ea3 : ext a a3) by exact (ext_trans _ _ _ Ea1 (ext_trans _ _ _ E2 E3)).
        assert (Na3 : newfin a a3).
        { apply (newfin_trans a a1 a3 Ea1 Na1). intros x Hx. destruct (N3 x Hx) as [H|H]; [left; exact H | right; exact H]. }
        assert (Hst3 : In t (ra_started a3)) by (apply (ex_started _ _ E3); exact Hst1).
        assert (Hnf3 : ~ finished a3 t).
        { intros H. destruct (N3 t H) as [H'|H']; [exact (Hnf1 H') | exact (H' Hst1)]. }
        destruct (dep_ign a3 (setup_tasks (G t))).
        { apply (wrap a a3); auto. apply (visit_tail a3 t [] 3); [exact Ha3 | exact Hst3 | exact Hnf3 | on_t | intros H; discriminate | intros [H|H]; discriminate]. }
        destruct (dep_bad a3 (setup_tasks (G t))).
        { apply (wrap a a3); auto. apply (visit_tail a3 t [Remove t] 4); [exact Ha3 | exact Hst3 | exact Hnf3 | on_t | intros H; discriminate | intros [H|H]; discriminate]. }
        destruct (args_ok (s_db (ra_s a3)) (rd_getargs (G t))); cbn [negb].
        2: { apply (wrap a a3); auto. apply (visit_tail a3 t [Remove t] 4); [exact Ha3 | exact Hst3 | exact Hnf3 | on_t | intros H; discriminate | intros [H|H]; discriminate]. }
        destruct (fails t).
        { apply (wrap a a3); auto. apply (visit_tail a3 t [Remove t] 1); [exact Ha3 | exact Hst3 | exact Hnf3 | on_t | intros H; discriminate | intros [H|H]; discriminate]. }
        apply (wrap a a3); auto.
        apply (visit_tail a3 t [SaveOk t] (save_code (step (ra_s a3) (SaveOk t)))); [exact Ha3 | exact Hst3 | exact Hnf3 | on_t | |].
        -- (* the values saved are current, and every provider is finished *)
           change (run_from (ra_s a3) [SaveOk t]) with (step (ra_s a3) (SaveOk t)). intros Hc Hcl.
           assert (Hdone : match s_log (step (ra_s a3) (SaveOk t)) with OSave _ SaveDone :: _ => True | _ => False end).
           { unfold save_code in Hc. destruct (s_log (step (ra_s a3) (SaveOk t))) as [|[| x [| |] |] l]; try discriminate. exact I. }
           split; [apply saveok_result_current; exact Hdone|].
           intros src Hin.
           assert (Hd : s_defs (step (ra_s a3) (SaveOk t)) = s_defs (ra_s a3)).
           { destruct (step_on_env md5 size_of v (ra_s a3) t (SaveOk t)) as (_ & Hd & _); [right; left; reflexivity | exact Hd]. }
           rewrite Hd, (ai_defs _ Ha3) in Hin.
           assert (Hf : finished a3 src).
           { apply done_clean; [|exact Hcl]. destruct (in_eff_uptodate _ _ Hin) as [H|H].
             - apply (done_or_flag_ext a1 a3 src (ext_trans _ _ _ E2 E3)). apply D1. exact H.
             - apply D3. exact H. }
           split; [exact Hf|]. intros ->. exact (Hnf3 Hf).
        -- change (run_from (ra_s a3) [SaveOk t]) with (step (ra_s a3) (SaveOk t)). intros [Hc|Hc].
           ++ apply saveok_settles; [apply (ai_ghost _ Ha3)|].
              unfold save_code in Hc. destruct (s_log (step (ra_s a3) (SaveOk t))) as [|[| x [| |] |] l]; try discriminate. exact I.
           ++ exfalso. unfold save_code in Hc. destruct (s_log (step (ra_s a3) (SaveOk t))) as [|[| x [| |] |] l]; discriminate.
      * (* error *)
        apply (wrap a a1); auto. apply (visit_tail a1 t [Check t; Remove t] 4); [exact Ha1 | exact Hst1 | exact Hnf1 | on_t | intros H; discriminate | intros [H|H]; discriminate].
      * (* crash *)
        apply (wrap a a1); auto. apply (visit_tail a1 t [Check t] 98); [exact Ha1 | exact Hst1 | exact Hnf1 | on_t | intros H; discriminate | intros [H|H]; discriminate].
Qed.

(* ---------- a whole run from a state of the invariant ---------- *)
Definition acc0 (s : state) : racc := {| ra_s := s; ra_started := []; ra_fin := []; ra_cyc := false; ra_fuel := false |}.

Lemma acc0_inv s : db_reflects_ghost md5 s -> (forall t, s_defs s t = eff (G t)) -> ainv (acc0 s).
Proof.
  intros Hg Hd. constructor; simpl.
  - exact Hd.
  - exact Hg.
  - intros t H. exfalso. apply H. reflexivity.
  - intros _ t H. discriminate.
  - intros t [H|H]; discriminate.
Qed.

Lemma run_acc_inv fuel s sel :
  db_reflects_ghost md5 s -> (forall t, s_defs s t = eff (G t)) ->
  ainv (run_acc md5 size_of v G fails fuel s sel) /\ same_env s (ra_s (run_acc md5 size_of v G fails fuel s sel)).
Proof.
  intros Hg Hd. unfold run_acc. fold (acc0 s).
  destruct (fold_good fuel (visit_good fuel) sel (acc0 s) (acc0_inv s Hg Hd)) as (A & E & _ & _).
  split; [exact A | exact (ex_env _ _ E)].
Qed.

(* after the run: every task that was executed and saved holds, for each of its result_dep items, the result the provider's record holds
   at the END of the run; the item is false only when the provider has no result at all *)
Lemma run_result_current fuel s sel t src :
  db_reflects_ghost md5 s -> (forall t, s_defs s t = eff (G t)) ->
  let a := run_acc md5 size_of v G fails fuel s sel in
  ra_cyc a = false -> ra_fuel a = false -> fin_of (ra_fin a) t = Some 0 ->
  In (UResultDep src) (uptodate (eff (G t))) ->
  vget (get_values (s_db (ra_s a)) t) (k_result src) = Some (get_result (s_db (ra_s a)) src) /\
  eval_utd (s_db (ra_s a)) t (UResultDep src) = Some (match get_result (s_db (ra_s a)) src with Some _ => true | None => false end).
Proof.
  intros Hg Hd a Hc Hf Hfin Hin.
  destruct (run_acc_inv fuel s sel Hg Hd) as [A _]. fold a in A.
  destruct (ai_res _ A (conj Hc Hf) t Hfin) as [R1 R2].
  rewrite <- (ai_defs _ A t) in Hin. destruct (R2 src Hin) as [_ Hne].
  split; [apply R1; auto | apply result_current_eval; auto].
Qed.

(* ... and the second look at such a task: it is executed again exactly when an item other than result_dep is false, or a provider has
   no result, or it has no dependency at all *)
Lemma run_second_look fuel s sel t :
  db_reflects_ghost md5 s -> (forall t, s_defs s t = eff (G t)) ->
  let a := run_acc md5 size_of v G fails fuel s sel in
  ra_cyc a = false -> ra_fuel a = false -> fin_of (ra_fin a) t = Some 0 ->
  status_is_ignore (s_db (ra_s a)) t = false ->
  (forall x, In x (targets (eff (G t))) -> exists_ (s_fs s) x = true) ->
  (executes md5 v (ra_s a) t false = false <->
     (forall u, In u (uptodate (eff (G t))) ->
        match u with
        | UResultDep src => get_result (s_db (ra_s a)) src <> None
        | _ => eval_utd (s_db (ra_s a)) t u <> Some false
        end) /\
     (file_dep (eff (G t)) <> [] \/ exists u b, In u (uptodate (eff (G t))) /\ eval_utd (s_db (ra_s a)) t u = Some b)).
Proof.
  intros Hg Hd a Hc Hf Hfin Hig Htg.
  destruct (run_acc_inv fuel s sel Hg Hd) as [A (E1 & E2 & E3)]. fold a in A, E1, E2, E3.
  destruct (ai_res _ A (conj Hc Hf) t Hfin) as [R1 R2].
  assert (Hfiles : files_as_last_ok md5 (ra_s a) t) by (apply (ai_files _ A); left; exact Hfin).
  assert (Htg' : forall x, In x (targets (s_defs (ra_s a) t)) -> exists_ (s_fs (ra_s a)) x = true).
  { intros x Hx. rewrite E1. apply Htg. rewrite <- (ai_defs _ A t). exact Hx. }
  destruct (settled_verdict md5 size_of v (ra_s a) t (ai_ghost _ A) Hfiles Htg') as [Hiff Hor].
  unfold items_ok, some_dep in Hiff. rewrite (ai_defs _ A t) in Hiff.
  assert (Hitems : (forall u, In u (uptodate (eff (G t))) -> eval_utd (s_db (ra_s a)) t u <> Some false) <->
                   (forall u, In u (uptodate (eff (G t))) ->
                      match u with
                      | UResultDep src => get_result (s_db (ra_s a)) src <> None
                      | _ => eval_utd (s_db (ra_s a)) t u <> Some false
                      end)).
  { split; intros H u Hu; specialize (H u Hu); destruct u as [b| |r| |dg|src]; auto.
    - assert (Hu' : In (UResultDep src) (uptodate (s_defs (ra_s a) t))) by (rewrite (ai_defs _ A t); exact Hu).
      destruct (R2 src Hu') as [_ Hne]. rewrite (result_current_eval _ _ _ R1 Hu' Hne) in H.
      destruct (get_result (s_db (ra_s a)) src); [discriminate | congruence].
    - assert (Hu' : In (UResultDep src) (uptodate (s_defs (ra_s a) t))) by (rewrite (ai_defs _ A t); exact Hu).
      destruct (R2 src Hu') as [_ Hne]. rewrite (result_current_eval _ _ _ R1 Hu' Hne).
      destruct (get_result (s_db (ra_s a)) src); [discriminate | congruence]. }
  unfold executes. rewrite Hig. simpl. fold (check (ra_s a) t).
  rewrite <- Hitems, <- Hiff.
  destruct Hor as [E|E]; rewrite E; split; congruence.
Qed.

End GetargsP.

(* ---------- run-level histories ---------- *)
Section GHistP.
Variable md5 : N -> N.
Variable size_of : N -> Z.
Variable v : ver.
Hypothesis HA : fixA v = true.
Hypothesis HB : fixB v = true.

Definition ginv (g : gstate) : Prop :=
  db_reflects_ghost md5 (gs_s g) /\ forall t, s_defs (gs_s g) t = eff (gs_defs g t).

Lemma step_defs s o : (match o with SetDef _ _ => False | _ => True end) -> s_defs (step md5 size_of v s o) = s_defs s.
Proof.
  intros H. destruct o; simpl; try reflexivity; try contradiction;
    try (unfold step_write; match goal with |- context [new_version ?a ?b ?c] => destruct (new_version a b c) as [[? ?]|] end; reflexivity).
  - destruct (process_success md5 v (s_ck s) (s_fs s) (s_db s) t (s_defs s t)). reflexivity.
  - destruct (reset_dep md5 v (s_ck s) (s_fs s) (s_db s) t (s_defs s t)). reflexivity.
Qed.

Lemma gstep_inv g o : gop_ok size_of g o = true -> ginv g -> ginv (gstep md5 size_of v g o).
Proof.
  intros Hok [Hg Hd]. destruct o as [o|t d|sel failing]; simpl.
  - split; simpl.
    + apply (step_inv md5 size_of v HB); auto. destruct o; auto; discriminate.
    + intros t. rewrite <- (Hd t). rewrite step_defs; [reflexivity | destruct o; auto; discriminate].
  - split; simpl; [exact Hg|]. intros x. unfold upd. destruct (N.eqb x t); [reflexivity | apply Hd].
  - destruct (run_acc_inv md5 size_of v HA HB (gs_defs g) (fun t => mem t failing) run_fuel (gs_s g) sel Hg Hd) as [A _].
    destruct A as [I1 I2 _ _ _]. split; simpl; [exact I2 | exact I1].
Qed.

Lemma grun_from_inv l : forall g, ghist_ok_from md5 size_of v g l = true -> ginv g -> ginv (grun_from md5 size_of v g l).
Proof.
  induction l as [|o l IH]; intros g Hok Hi; simpl in *; auto.
  apply andb_true_iff in Hok. destruct Hok as [H1 H2]. apply IH; auto. apply gstep_inv; auto.
Qed.

Lemma grun_inv l : ghist_ok md5 size_of v l = true -> ginv (grun md5 size_of v l).
Proof.
  intros H. apply grun_from_inv; auto. split; [apply init_inv | intros t; reflexivity].
Qed.

End GHistP.
