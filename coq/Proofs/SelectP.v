(* SelectP.v -- specifications and proofs about Model/Select.v *)
From DoitV Require Import Base Select.
Open Scope N_scope.

(* ---------- association lists ---------- *)
Lemma lookup_set_task tb k t x : lookup (set_task tb k t) x = if x =? k then Some t else lookup tb x.
Proof.
  induction tb as [|[k' t'] r IH]; simpl.
  - rewrite (N.eqb_sym k x). destruct (x =? k); reflexivity.
  - destruct (k' =? k) eqn:E; simpl.
    + apply N.eqb_eq in E; subst. rewrite (N.eqb_sym k x). destruct (x =? k); reflexivity.
    + destruct (k' =? x) eqn:E2.
      * apply N.eqb_eq in E2; subst. rewrite E. reflexivity.
      * apply IH.
Qed.

Lemma has_set_task tb k t x : has (set_task tb k t) x = (x =? k) || has tb x.
Proof. unfold has. rewrite lookup_set_task. destruct (x =? k); reflexivity. Qed.

Lemma keys_set_task tb k t : has tb k = true -> map fst (set_task tb k t) = map fst tb.
Proof.
  unfold has. induction tb as [|[k' t'] r IH]; simpl; [discriminate|].
  destruct (k' =? k) eqn:E; simpl.
  - apply N.eqb_eq in E; subst. reflexivity.
  - intros H. rewrite IH; auto.
Qed.

Lemma lookup_In tb k t : lookup tb k = Some t -> In (k, t) tb.
Proof.
  induction tb as [|[k' t'] r IH]; simpl; [discriminate|].
  destruct (k' =? k) eqn:E.
  - apply N.eqb_eq in E; subst. intros H; inversion H; auto.
  - auto.
Qed.

Lemma lookup_None_keys tb k : lookup tb k = None <-> ~ In k (map fst tb).
Proof.
  induction tb as [|[k' t'] r IH]; simpl; [tauto|].
  destruct (N.eqb_spec k' k); subst.
  - split; [discriminate | intros H; exfalso; auto].
  - rewrite IH. tauto.
Qed.

Lemma has_keys tb k : has tb k = true <-> In k (map fst tb).
Proof.
  unfold has. destruct (lookup tb k) eqn:E.
  - split; auto. intros _. apply lookup_In in E. apply (in_map fst) in E. exact E.
  - apply lookup_None_keys in E. split; [discriminate | contradiction].
Qed.

Lemma lookup_NoDup tb k t : NoDup (map fst tb) -> In (k, t) tb -> lookup tb k = Some t.
Proof.
  induction tb as [|[k' t'] r IH]; simpl; [tauto|].
  intros Hnd [H|H].
  - inversion H; subst. rewrite N.eqb_refl. reflexivity.
  - inversion Hnd; subst. destruct (N.eqb_spec k' k); subst.
    + exfalso. apply H2. apply (in_map fst) in H. exact H.
    + auto.
Qed.

Lemma lookup_map (g : stask -> stask) (tb : table) k :
  lookup (map (fun nt => (fst nt, g (snd nt))) tb) k = option_map g (lookup tb k).
Proof.
  induction tb as [|[k' t'] r IH]; simpl; auto. destruct (k' =? k); auto.
Qed.

Lemma keys_map (g : stask -> stask) (tb : table) : map fst (map (fun nt => (fst nt, g (snd nt))) tb) = map fst tb.
Proof. rewrite map_map. simpl. reflexivity. Qed.

(* ---------- specification vocabulary ---------- *)
(* a table without delayed creators *)
Definition no_loader (tb : table) : Prop := forall k t, In (k, t) tb -> s_loader t = None.
(* what a name given on the command line stands for: the task of that name, else the producer of that file *)
Definition stands_for (tg : tmap) (tb : table) (f n : name) : Prop :=
  (has tb f = true /\ n = f) \/ (has tb f = false /\ tg_get tg f = Some n).
Definition known (tg : tmap) (tb : table) (f : name) : Prop := has tb f = true \/ tg_get tg f <> None.

(* the targets dict: file -> the one task that lists it *)
Lemma tg_get_app tg1 tg2 f : tg_get (tg1 ++ tg2) f = match tg_get tg1 f with Some p => Some p | None => tg_get tg2 f end.
Proof.
  induction tg1 as [|[f' p] r IH]; simpl; auto. destruct (f' =? f); auto.
Qed.

Lemma add_targets_spec n l : forall tg tg',
  add_targets tg n l = inr tg' ->
  forall f, tg_get tg' f = match tg_get tg f with Some p => Some p | None => if mem f l then Some n else None end.
Proof.
  induction l as [|x r IH]; intros tg tg'; simpl.
  - intros H f; inversion H; subst. destruct (tg_get tg' f); auto.
  - destruct (tg_get tg x) eqn:E; [discriminate|]. intros H f. rewrite (IH _ _ H f).
    rewrite tg_get_app. simpl. destruct (tg_get tg f) eqn:E2; auto.
    rewrite (N.eqb_sym f x). destruct (x =? f) eqn:E3; auto.
Qed.

Lemma add_targets_fresh n l : forall tg tg',
  add_targets tg n l = inr tg' -> forall f, In f l -> tg_get tg f = None.
Proof.
  induction l as [|x r IH]; intros tg tg'; simpl; [tauto|].
  destruct (tg_get tg x) eqn:E; [discriminate|]. intros H f [<-|Hf]; auto.
  pose proof (IH _ _ H f Hf) as H2. rewrite tg_get_app in H2. destruct (tg_get tg f); auto.
Qed.

Lemma build_targets_keeps tb : forall tg tg' f n u t,
  build_targets tg tb = inr tg' -> tg_get tg f = Some n -> In (u, t) tb -> ~ In f (s_targets t).
Proof.
  induction tb as [|[n2 t2] r IH]; intros tg tg' f n u t; simpl; [tauto|].
  destruct (add_targets tg n2 (s_targets t2)) as [e|tg2] eqn:E4; [discriminate|].
  intros H Hg [Heq|Hin] Hf.
  - inversion Heq; subst. rewrite (add_targets_fresh _ _ _ _ E4 f Hf) in Hg. discriminate.
  - apply (IH tg2 tg' f n u t); auto. rewrite (add_targets_spec _ _ _ _ E4 f), Hg. reflexivity.
Qed.

Lemma build_targets_spec tb : forall tg tg',
  build_targets tg tb = inr tg' ->
  forall f u, tg_get tg' f = Some u <->
              tg_get tg f = Some u \/ (tg_get tg f = None /\ exists t, In (u, t) tb /\ In f (s_targets t)).
Proof.
  induction tb as [|[n t] r IH]; intros tg tg'; simpl.
  - intros H f u; inversion H; subst. split; auto. intros [H1|(_ & t & [] & _)]; auto.
  - destruct (add_targets tg n (s_targets t)) as [e|tg1] eqn:E1; [discriminate|].
    intros H f u. rewrite (IH _ _ H f u). rewrite !(add_targets_spec _ _ _ _ E1 f).
    destruct (tg_get tg f) as [p|] eqn:E2.
    + split; [intros [H1|[H1 _]]; [auto | discriminate] | intros [H1|[H1 _]]; [auto | discriminate]].
    + destruct (mem f (s_targets t)) eqn:E3.
      * split.
        -- intros [H1|[H1 _]]; [|discriminate]. inversion H1; subst. right. split; auto. exists t.
           apply mem_In in E3. auto.
        -- intros [H1|(_ & t' & [Heq|Hin] & Hf)]; [discriminate| |].
           ++ inversion Heq; subst. auto.
           ++ (* f is a target of a later task too: build_targets would have failed *)
              exfalso. apply (build_targets_keeps r tg1 tg' f n u t'); auto.
              rewrite (add_targets_spec _ _ _ _ E1 f), E2, E3. reflexivity.
      * apply mem_false_In in E3. split.
        -- intros [H1|(_ & t' & Hin & Hf)]; [discriminate|]. right. split; auto. exists t'. auto.
        -- intros [H1|(_ & t' & [Heq|Hin] & Hf)]; [discriminate| |].
           ++ inversion Heq; subst. contradiction.
           ++ right. split; auto. exists t'. auto.
Qed.

Lemma stands_for_fun tg tb l : forall a b,
  Forall2 (stands_for tg tb) l a -> Forall2 (stands_for tg tb) l b -> a = b.
Proof.
  induction l as [|x l IH]; intros a b Ha Hb; inversion Ha; inversion Hb; subst; auto.
  f_equal; [|apply IH; auto].
  match goal with
  | [ H1 : stands_for tg tb x ?u, H2 : stands_for tg tb x ?v |- ?u = ?v ] =>
      destruct H1 as [[P1 P2]|[P1 P2]]; destruct H2 as [[Q1 Q2]|[Q1 Q2]]; congruence
  end.
Qed.

Section P.
Variable has_star : name -> bool.
Variable matches : name -> name -> bool.
Variable basename_of : name -> name.
Variable re_match : name -> name -> bool.
Variable regex_name : name -> name -> name.
Variable is_regex_name : name -> bool.
Variable is_opt : name -> bool.

Notation get_wild := (get_wild matches).
Notation expand_wild := (expand_wild matches).
Notation init := (init matches).
Notation process_filter_legacy := (process_filter_legacy has_star matches).
Notation expand_sel := (expand_sel has_star matches).
Notation delayed_matched := (delayed_matched re_match is_regex_name).
Notation add_regex_task := (add_regex_task regex_name).
Notation filter_one := (filter_one basename_of re_match regex_name is_regex_name).
Notation filter_list := (filter_list basename_of re_match regex_name is_regex_name).
Notation name_action := (name_action has_star matches).
Notation process_filter := (process_filter has_star matches is_opt).
Notation filter_tasks := (filter_tasks has_star matches basename_of re_match regex_name is_regex_name is_opt).
Notation process := (process has_star matches basename_of re_match regex_name is_regex_name is_opt).
Notation select_core := (select_core has_star matches basename_of re_match regex_name is_regex_name is_opt).
Notation cmd_run_select := (cmd_run_select has_star matches basename_of re_match regex_name is_regex_name is_opt).

(* one element of the filter list, declaratively: the four ways a name is accepted, in the state
   (ph, tb) = (subtask_placeholders, tasks) *)
Inductive resolves (auto : bool) (tg : tmap) (ph : list name) (tb : table) (f : name)
  : list name -> table -> list name -> Prop :=
| by_name : has tb f = true -> resolves auto tg ph tb f ph tb [f]
| by_target p : has tb f = false -> tg_get tg f = Some p -> resolves auto tg ph tb f ph tb [p]
| by_delayed_sub bt l :
    has tb f = false -> tg_get tg f = None -> lookup tb (basename_of f) = Some bt -> s_loader bt = Some l ->
    resolves auto tg ph tb f (f :: ph) (set_task tb f (placeholder l [])) [f]
| by_delayed_regex :
    has tb f = false -> tg_get tg f = None -> lookup tb (basename_of f) = None ->
    delayed_matched auto ph tb f <> [] ->
    resolves auto tg ph tb f ph (fold_left (add_regex_task f) (delayed_matched auto ph tb f) tb)
             (map (fun nl => regex_name f (fst nl)) (delayed_matched auto ph tb f)).
(* ... and the only way it is rejected *)
Definition unresolvable (auto : bool) (tg : tmap) (ph : list name) (tb : table) (f : name) : Prop :=
  has tb f = false /\ tg_get tg f = None /\
  match lookup tb (basename_of f) with
  | Some bt => s_loader bt = None
  | None => delayed_matched auto ph tb f = []
  end.
Inductive resolves_all (auto : bool) (tg : tmap)
  : list name -> table -> list name -> list name -> table -> list name -> Prop :=
| ra_nil ph tb : resolves_all auto tg ph tb [] ph tb []
| ra_cons ph tb f r ph1 tb1 s ph2 tb2 s' :
    resolves auto tg ph tb f ph1 tb1 s -> resolves_all auto tg ph1 tb1 r ph2 tb2 s' ->
    resolves_all auto tg ph tb (f :: r) ph2 tb2 (s ++ s').

Lemma is_nil_false {A} (l : list A) : is_nil l = false <-> l <> [].
Proof. destruct l; simpl; split; congruence. Qed.

Lemma filter_one_Some auto tg ph tb f ph1 tb1 s :
  filter_one auto tg ph tb f = Some (ph1, tb1, s) <-> resolves auto tg ph tb f ph1 tb1 s.
Proof.
  unfold Select.filter_one. split.
  - destruct (has tb f) eqn:E1.
    { intros H; inversion H; subst. apply by_name; auto. }
    destruct (tg_get tg f) as [p|] eqn:E2.
    { intros H; inversion H; subst. apply by_target; auto. }
    destruct (lookup tb (basename_of f)) as [bt|] eqn:E3.
    { destruct (s_loader bt) as [l|] eqn:E4; [|discriminate].
      intros H; inversion H; subst. eapply by_delayed_sub; eauto. }
    destruct (is_nil (delayed_matched auto ph tb f)) eqn:E5; [discriminate|].
    intros H; inversion H; subst. apply by_delayed_regex; auto. apply is_nil_false; auto.
  - intros H; inversion H; subst.
    + rewrite H0. reflexivity.
    + rewrite H0, H1. reflexivity.
    + rewrite H0, H1, H2, H3. reflexivity.
    + rewrite H0, H1, H2. apply is_nil_false in H3. rewrite H3. reflexivity.
Qed.

Lemma filter_one_None auto tg ph tb f :
  filter_one auto tg ph tb f = None <-> unresolvable auto tg ph tb f.
Proof.
  unfold Select.filter_one, unresolvable. split.
  - destruct (has tb f) eqn:E1; [discriminate|].
    destruct (tg_get tg f) as [p|] eqn:E2; [discriminate|].
    destruct (lookup tb (basename_of f)) as [bt|] eqn:E3.
    { destruct (s_loader bt) as [l|] eqn:E4; [discriminate|]. auto. }
    destruct (is_nil (delayed_matched auto ph tb f)) eqn:E5; [|discriminate].
    apply is_nil_true in E5. auto.
  - intros (H1 & H2 & H3). rewrite H1, H2.
    destruct (lookup tb (basename_of f)) as [bt|]; [rewrite H3; reflexivity|].
    rewrite H3. reflexivity.
Qed.

Lemma filter_list_ok auto tg fl : forall ph tb ph' tb' sel,
  filter_list auto tg ph tb fl = inr (ph', tb', sel) <-> resolves_all auto tg ph tb fl ph' tb' sel.
Proof.
  induction fl as [|f r IH]; intros ph tb ph' tb' sel; cbn [Select.filter_list].
  - split.
    + intros H; inversion H; subst. constructor.
    + intros H; inversion H; subst. reflexivity.
  - split.
    + destruct (filter_one auto tg ph tb f) as [[[ph1 tb1] s]|] eqn:E1; [|discriminate].
      destruct (filter_list auto tg ph1 tb1 r) as [e|[[ph2 tb2] s']] eqn:E2; [discriminate|].
      intros H; inversion H; subst.
      econstructor; [apply filter_one_Some; eauto | apply IH; auto].
    + intros H; inversion H as [|a1 a2 a3 a4 a5 a6 a7 a8 a9 a10 Hr Hra]; subst.
      apply filter_one_Some in Hr. rewrite Hr.
      apply IH in Hra. rewrite Hra. reflexivity.
Qed.

Lemma filter_list_err auto tg fl : forall ph tb f,
  filter_list auto tg ph tb fl = inl f <->
  exists pre post ph1 tb1 s1, fl = pre ++ f :: post /\ resolves_all auto tg ph tb pre ph1 tb1 s1 /\
                              unresolvable auto tg ph1 tb1 f.
Proof.
  induction fl as [|x r IH]; intros ph tb f; cbn [Select.filter_list].
  - split; [discriminate|]. intros (pre & post & ph1 & tb1 & s1 & H & _). destruct pre; discriminate.
  - split.
    + destruct (filter_one auto tg ph tb x) as [[[ph1 tb1] s]|] eqn:E1.
      * destruct (filter_list auto tg ph1 tb1 r) as [e|[[ph2 tb2] s']] eqn:E2; [|discriminate].
        intros H; inversion H; subst.
        apply IH in E2. destruct E2 as (pre & post & ph3 & tb3 & s3 & -> & Hra & Hun).
        exists (x :: pre), post, ph3, tb3, (s ++ s3). split; [reflexivity|]. split; [|exact Hun].
        econstructor; eauto. apply filter_one_Some; auto.
      * intros H; inversion H; subst. exists [], r, ph, tb, [].
        split; [reflexivity|]. split; [constructor | apply filter_one_None; auto].
    + intros (pre & post & ph1 & tb1 & s1 & Heq & Hra & Hun).
      destruct pre as [|y pre]; simpl in Heq; inversion Heq; subst.
      * inversion Hra; subst. apply filter_one_None in Hun. rewrite Hun. reflexivity.
      * inversion Hra as [|a1 a2 a3 a4 phm tbm sm a8 a9 sr Hr Hra']; subst. apply filter_one_Some in Hr. rewrite Hr.
        assert (E : filter_list auto tg phm tbm (pre ++ f :: post) = inl f).
        { apply IH. exists pre, post, ph1, tb1, sr. auto. }
        rewrite E. reflexivity.
Qed.

(* ---------- the sub-task placeholders are never taken for task-creators (repair 01f48fb) ---------- *)
Lemma delayed_matched_In auto ph tb f k l :
  In (k, l) (delayed_matched auto ph tb f) <->
  exists t, In (k, t) tb /\ s_loader t = Some l /\ is_regex_name k = false /\ ~ In k ph /\
            match l_regex l with Some rx => re_match rx f = true | None => auto = true end.
Proof.
  unfold Select.delayed_matched. rewrite in_flat_map. split.
  - intros ([k' t] & Hin & H). simpl in H.
    destruct (s_loader t) as [l'|] eqn:El; [|destruct H].
    destruct (is_regex_name k') eqn:Er; [destruct H|].
    destruct (mem k' ph) eqn:Em; [destruct H|]. apply mem_false_In in Em.
    destruct (l_regex l') as [rx|] eqn:Ex.
    + destruct (re_match rx f) eqn:Em2; [|destruct H]. destruct H as [H|[]]. inversion H; subst.
      exists t. rewrite Ex. auto.
    + destruct auto; [|destruct H]. destruct H as [H|[]]. inversion H; subst.
      exists t. rewrite Ex. auto.
  - intros (t & Hin & El & Er & Em & Hx). exists (k, t). split; auto. simpl.
    rewrite El, Er. apply mem_false_In in Em. rewrite Em.
    destruct (l_regex l) as [rx|]; [rewrite Hx | rewrite Hx]; left; reflexivity.
Qed.

Lemma keys_add_regex_fold f dm : forall tb k,
  In k (map fst (fold_left (add_regex_task f) dm tb)) ->
  In k (map fst tb) \/ exists nl, In nl dm /\ k = regex_name f (fst nl).
Proof.
  induction dm as [|nl dm IH]; intros tb k; simpl; auto.
  intros H. apply IH in H. destruct H as [H|(nl' & Hn & ->)].
  - unfold Select.add_regex_task in H. apply has_keys in H. rewrite has_set_task in H.
    apply orb_true_iff in H. destruct H as [H|H].
    + apply N.eqb_eq in H. right. exists nl. auto.
    + left. apply has_keys. exact H.
  - right. exists nl'. auto.
Qed.

(* where the keys of the table come from while the loop runs: the loaded task list tb0, the sub-task
   placeholders, the `_regex_target..` placeholders *)
Definition keys_from (tb0 : table) (ph : list name) (tb : table) : Prop :=
  forall k, In k (map fst tb) -> In k (map fst tb0) \/ In k ph \/ is_regex_name k = true.

Lemma resolves_keys_from tb0 auto tg ph tb f ph1 tb1 s :
  (forall x k, is_regex_name (regex_name x k) = true) ->
  resolves auto tg ph tb f ph1 tb1 s -> keys_from tb0 ph tb -> keys_from tb0 ph1 tb1.
Proof.
  intros Hrn H Hk. inversion H; subst; auto.
  - intros k Hin. apply has_keys in Hin. rewrite has_set_task in Hin. apply orb_true_iff in Hin.
    destruct Hin as [Hin|Hin].
    + apply N.eqb_eq in Hin; subst. right; left; left; auto.
    + apply has_keys in Hin. destruct (Hk k Hin) as [H5|[H5|H5]]; auto. right; left; right; auto.
  - intros k Hin. apply keys_add_regex_fold in Hin. destruct Hin as [Hin|(nl & _ & ->)]; auto.
Qed.

Lemma resolves_all_keys_from tb0 auto tg ph tb fl ph' tb' sel :
  (forall x k, is_regex_name (regex_name x k) = true) ->
  resolves_all auto tg ph tb fl ph' tb' sel -> keys_from tb0 ph tb -> keys_from tb0 ph' tb'.
Proof.
  intros Hrn H. induction H; auto. intros Hk. apply IHresolves_all.
  eapply resolves_keys_from; eauto.
Qed.

(* [ph] grows by the names accepted as sub-tasks of a delayed creator: elements of the command line that
   were no task when they were read and are placeholders in the table from then on *)
Lemma has_add_regex_fold f dm x : forall tb,
  has tb x = true -> has (fold_left (add_regex_task f) dm tb) x = true.
Proof.
  induction dm as [|nl dm IH]; intros tb Hx; simpl; auto.
  apply IH. unfold Select.add_regex_task. rewrite has_set_task, Hx. apply orb_true_r.
Qed.

Lemma resolves_has_mono auto tg ph tb f ph1 tb1 s x :
  resolves auto tg ph tb f ph1 tb1 s -> has tb x = true -> has tb1 x = true.
Proof.
  intros H Hx. inversion H; subst; auto.
  - rewrite has_set_task, Hx. apply orb_true_r.
  - apply has_add_regex_fold; auto.
Qed.

Lemma resolves_all_has_mono auto tg ph tb fl ph' tb' sel x :
  resolves_all auto tg ph tb fl ph' tb' sel -> has tb x = true -> has tb' x = true.
Proof. intros H. induction H; auto. intros Hx. apply IHresolves_all. eapply resolves_has_mono; eauto. Qed.

Lemma resolves_all_ph auto tg ph tb fl ph' tb' sel :
  resolves_all auto tg ph tb fl ph' tb' sel ->
  forall x, In x ph' -> In x ph \/ (In x fl /\ has tb x = false /\ has tb' x = true).
Proof.
  intros H. induction H as [|ph tb f r ph1 tb1 s ph2 tb2 s' Hr Hra IH]; auto.
  intros x Hx. destruct (IH x Hx) as [H1|(H1 & H2 & H3)].
  - inversion Hr; subst; auto. destruct H1 as [->|H1]; auto.
    right. split; [left; auto|]. split; auto.
    eapply resolves_all_has_mono; eauto. rewrite has_set_task, N.eqb_refl. reflexivity.
  - right. split; [right; auto|]. split; auto.
    destruct (has tb x) eqn:E; auto. rewrite (resolves_has_mono _ _ _ _ _ _ _ _ x Hr E) in H2. discriminate.
Qed.

(* The repaired loop, whole command line (subtask_placeholders starts empty): whenever an element f is
   resolved through the target regexes, after any prefix of the command line, every task it is matched
   with -- i.e. every k for which a task `_regex_target_<f>:<k>` is created and loader.basename := k is
   executed -- is a task of the loaded task list tb0 carrying a loader, never one of the sub-task
   placeholders made for the prefix (these are the `basename:sub` names of the prefix that were no task). *)
Theorem regex_creators_original auto tg tb0 pre ph1 tb1 s1 f k l :
  (forall x k, is_regex_name (regex_name x k) = true) ->
  resolves_all auto tg [] tb0 pre ph1 tb1 s1 ->
  In (k, l) (delayed_matched auto ph1 tb1 f) ->
  In k (map fst tb0) /\ ~ In k ph1 /\ is_regex_name k = false /\
  (forall x, In x ph1 -> In x pre /\ has tb0 x = false /\ has tb1 x = true).
Proof.
  intros Hrn Hra Hin.
  assert (Hk : keys_from tb0 ph1 tb1).
  { eapply resolves_all_keys_from; eauto. intros x Hx. auto. }
  apply delayed_matched_In in Hin. destruct Hin as (t & Hin & _ & Hr & Hp & _).
  split; [|split; [auto|split; [auto|]]].
  - apply (in_map fst) in Hin. simpl in Hin. destruct (Hk k Hin) as [H|[H|H]]; auto; [contradiction | congruence].
  - intros x Hx. destruct (resolves_all_ph _ _ _ _ _ _ _ _ Hra x Hx) as [[]|H]; auto.
Qed.

(* ... and before the repair the loop went wrong only on command lines with such a sub-task name: when no
   sub-task placeholder is made, the old loop computes the same *)
Lemma resolves_all_ph_mono auto tg ph tb fl ph' tb' sel :
  resolves_all auto tg ph tb fl ph' tb' sel -> incl ph ph'.
Proof.
  intros H. induction H as [|ph tb f r ph1 tb1 s ph2 tb2 s' Hr Hra IH]; [apply incl_refl|].
  intros x Hx. apply IH. inversion Hr; subst; auto. right; auto.
Qed.

Theorem filter_list_legacy_same auto tg fl : forall tb tb' sel,
  resolves_all auto tg [] tb fl [] tb' sel ->
  filter_list_legacy basename_of re_match regex_name is_regex_name auto tg tb fl = inr (tb', sel).
Proof.
  induction fl as [|f r IH]; intros tb tb' sel H; cbn [Select.filter_list_legacy].
  - inversion H; subst. reflexivity.
  - inversion H as [|a1 a2 a3 a4 ph1 tb1 s a8 a9 s' Hr Hra]; subst.
    assert (ph1 = []) as ->.
    { apply resolves_all_ph_mono in Hra. destruct ph1 as [|x ph1]; auto. destruct (Hra x). left; auto. }
    apply filter_one_Some in Hr. unfold Select.filter_one_legacy. rewrite Hr.
    rewrite (IH _ _ _ Hra). reflexivity.
Qed.

(* ---------- tables without delayed creators ---------- *)
Lemma no_loader_lookup tb k t : no_loader tb -> lookup tb k = Some t -> s_loader t = None.
Proof. intros H E. apply lookup_In in E. eauto. Qed.

Lemma delayed_matched_no_loader auto ph tb f : no_loader tb -> delayed_matched auto ph tb f = [].
Proof.
  unfold Select.delayed_matched, no_loader. induction tb as [|[k t] r IH]; intros H; simpl; auto.
  rewrite (H k t) by (left; reflexivity). simpl. apply IH. intros k' t' Hin. apply (H k' t'). right; auto.
Qed.

Lemma resolves_static auto tg ph tb f ph1 tb1 s :
  no_loader tb ->
  (resolves auto tg ph tb f ph1 tb1 s <-> ph1 = ph /\ tb1 = tb /\ exists n, s = [n] /\ stands_for tg tb f n).
Proof.
  intros Hnl. unfold stands_for. split.
  - intros H; inversion H; subst.
    + split; auto. split; auto. exists f. auto.
    + split; auto. split; auto. exists p. auto.
    + rewrite (no_loader_lookup _ _ _ Hnl H2) in H3. discriminate.
    + rewrite delayed_matched_no_loader in H3; auto. congruence.
  - intros (-> & -> & n & -> & [[H1 ->]|[H1 H2]]).
    + apply by_name; auto.
    + apply by_target; auto.
Qed.

Lemma unresolvable_static auto tg ph tb f :
  no_loader tb -> (unresolvable auto tg ph tb f <-> ~ known tg tb f).
Proof.
  intros Hnl. unfold unresolvable, known. split.
  - intros (H1 & H2 & _) [H|H]; congruence.
  - intros H. destruct (has tb f) eqn:E1; [exfalso; auto|].
    destruct (tg_get tg f) eqn:E2; [exfalso; apply H; right; congruence|].
    repeat split; auto.
    destruct (lookup tb (basename_of f)) eqn:E3.
    + eapply no_loader_lookup; eauto.
    + apply delayed_matched_no_loader; auto.
Qed.

Lemma resolves_all_static auto tg ph tb fl ph' tb' sel :
  no_loader tb ->
  (resolves_all auto tg ph tb fl ph' tb' sel <-> ph' = ph /\ tb' = tb /\ Forall2 (stands_for tg tb) fl sel).
Proof.
  intros Hnl. split.
  - intros H. induction H.
    + split; auto.
    + apply resolves_static in H; auto. destruct H as (-> & -> & n & -> & Hs).
      destruct (IHresolves_all Hnl) as (-> & -> & HF). split; auto. split; auto. simpl. constructor; auto.
  - intros (-> & -> & HF). induction HF.
    + constructor.
    + change (y :: l') with ([y] ++ l'). econstructor; eauto.
      apply resolves_static; auto. split; auto. split; auto. exists y. auto.
Qed.

Lemma known_dec tg tb f : known tg tb f \/ ~ known tg tb f.
Proof.
  unfold known. destruct (has tb f); [left; auto|].
  destruct (tg_get tg f); [left; right; congruence | right; intros [H|H]; congruence].
Qed.

Lemma known_stands_for tg tb f : known tg tb f <-> exists n, stands_for tg tb f n.
Proof.
  unfold known, stands_for. split.
  - intros [H|H].
    + exists f. auto.
    + destruct (has tb f) eqn:E; [exists f; auto|].
      destruct (tg_get tg f) as [p|] eqn:E2; [exists p; auto | congruence].
  - intros (n & [[H _]|[_ H]]); [left; auto | right; congruence].
Qed.

Lemma Forall_known_Forall2 tg tb l : Forall (known tg tb) l -> exists s, Forall2 (stands_for tg tb) l s.
Proof.
  induction 1 as [|x l Hx _ IH].
  - exists []. constructor.
  - destruct IH as (s & Hs). apply known_stands_for in Hx. destruct Hx as (n & Hn).
    exists (n :: s). constructor; auto.
Qed.

Lemma Forall2_stands_known tg tb l s : Forall2 (stands_for tg tb) l s -> Forall (known tg tb) l.
Proof.
  induction 1; constructor; auto. apply known_stands_for. eauto.
Qed.

Theorem filter_list_static_ok auto tg ph tb fl ph' tb' sel :
  no_loader tb ->
  (filter_list auto tg ph tb fl = inr (ph', tb', sel) <->
   ph' = ph /\ tb' = tb /\ Forall2 (stands_for tg tb) fl sel).
Proof. intros H. rewrite filter_list_ok. apply resolves_all_static; auto. Qed.

Theorem filter_list_static_err auto tg ph tb fl f :
  no_loader tb ->
  (filter_list auto tg ph tb fl = inl f <->
   exists pre post, fl = pre ++ f :: post /\ Forall (known tg tb) pre /\ ~ known tg tb f).
Proof.
  intros Hnl. rewrite filter_list_err. split.
  - intros (pre & post & ph1 & tb1 & s1 & -> & Hra & Hun).
    apply resolves_all_static in Hra; auto. destruct Hra as (-> & -> & HF).
    exists pre, post. split; [reflexivity|]. split.
    + eapply Forall2_stands_known; eauto.
    + apply unresolvable_static in Hun; auto.
  - intros (pre & post & -> & Hk & Hun).
    destruct (Forall_known_Forall2 _ _ _ Hk) as (s & Hs).
    exists pre, post, ph, tb, s. split; [reflexivity|]. split.
    + apply resolves_all_static; auto.
    + apply unresolvable_static; auto.
Qed.

(* ---------- expansion of patterns ---------- *)
Lemma get_wild_In order p n : In n (get_wild order p) <-> In n order /\ matches p n = true.
Proof. unfold Select.get_wild. apply filter_In. Qed.

Lemma expand_sel_In order sel n :
  In n (expand_sel order sel) <->
  exists f, In f sel /\ (if has_star f then In n order /\ matches f n = true else n = f).
Proof.
  unfold Select.expand_sel. rewrite in_flat_map. split.
  - intros (f & Hf & Hn). exists f. split; auto.
    destruct (has_star f); [apply get_wild_In; auto | destruct Hn as [->|[]]; auto].
  - intros (f & Hf & Hn). exists f. split; auto.
    destruct (has_star f); [apply get_wild_In; auto | left; auto].
Qed.

Lemma mark_inited_In tb w : forall inited x, In x (mark_inited tb inited w) -> In x inited \/ In x w.
Proof.
  unfold mark_inited. induction w as [|y w IH]; intros inited x; simpl; auto.
  intros H. apply IH in H. destruct H as [H|H]; auto.
  destruct (has tb y); auto. apply addset_In in H. destruct H as [->|H]; auto.
Qed.

Lemma NoDup_app_inv {A} (a b : list A) : NoDup (a ++ b) -> NoDup b /\ forall x, In x a -> ~ In x b.
Proof.
  induction a as [|y a IH]; simpl; intros H.
  - split; auto.
  - inversion H; subst. destruct (IH H3) as [H4 H5]. split; auto.
    intros x [->|Hx]; auto. intros Hb. apply H2. apply in_or_app. auto.
Qed.

(* the code before the repair: a selection that names no task twice was expanded completely ... *)
Lemma process_filter_legacy_norepeat order tb sel : forall inited,
  NoDup (expand_sel order sel) -> (forall x, In x (expand_sel order sel) -> ~ In x inited) ->
  fst (process_filter_legacy order tb inited sel) = expand_sel order sel.
Proof.
  induction sel as [|f r IH]; intros inited Hnd Hdis; cbn [Select.process_filter_legacy]; auto.
  unfold Select.expand_sel in *. cbn [flat_map] in *.
  destruct (has_star f) eqn:Es.
  - cbn [fst]. f_equal. apply NoDup_app_inv in Hnd. destruct Hnd as [Hnd Hdj]. apply IH; auto.
    intros x Hx Hm. apply mark_inited_In in Hm. destruct Hm as [Hm|Hm].
    + apply (Hdis x); auto. apply in_or_app. auto.
    + apply (Hdj x); auto.
  - simpl in Hnd, Hdis. inversion Hnd; subst.
    destruct (has tb f) eqn:Eh.
    + destruct (mem f inited) eqn:Em.
      { apply mem_In in Em. exfalso. apply (Hdis f); auto. }
      cbn [fst]. simpl. f_equal. apply IH; auto.
      intros x Hx Hm. apply addset_In in Hm. destruct Hm as [->|Hm]; auto.
      apply (Hdis x); auto.
    + cbn [fst]. simpl. f_equal. apply IH; auto.
Qed.

(* ... but an element naming a task whose options were already initialised ended the selection *)
Lemma process_filter_legacy_repeat order tb inited f r :
  has_star f = false -> has tb f = true -> In f inited ->
  process_filter_legacy order tb inited (f :: r) = ([f], inited).
Proof.
  intros H1 H2 H3. cbn [Select.process_filter_legacy]. rewrite H1, H2.
  apply mem_In in H3. rewrite H3. reflexivity.
Qed.

(* ---------- TaskControl.__init__ ---------- *)
Lemma first_dup_None l : forall seen, first_dup seen l = None -> NoDup l /\ forall x, In x l -> ~ In x seen.
Proof.
  induction l as [|x r IH]; intros seen; simpl.
  - intros _. split; [constructor | tauto].
  - destruct (mem x seen) eqn:E; [discriminate|]. intros H. apply IH in H. destruct H as [H1 H2].
    apply mem_false_In in E. split.
    + constructor; auto. intros Hin. apply (H2 x Hin). left; auto.
    + intros y [->|Hy]; auto. intros Hs. apply (H2 y Hy). right; auto.
Qed.

Lemma add_implicit_fold_In tg deps : forall td x,
  In x (fold_left (add_implicit_one tg) deps td) <-> In x td \/ exists f, In f deps /\ tg_get tg f = Some x.
Proof.
  induction deps as [|d r IH]; intros td x; simpl.
  - split; auto. intros [H|(f & [] & _)]; auto.
  - rewrite IH. unfold add_implicit_one. split.
    + intros [H|(f & Hf & Hg)].
      * destruct (tg_get tg d) as [p|] eqn:E; auto.
        destruct (mem p td); auto. apply in_app_or in H. destruct H as [H|[<-|[]]]; auto.
        right. exists d. auto.
      * right. exists f. auto.
    + intros [H|(f & [<-|Hf] & Hg)].
      * left. destruct (tg_get tg d) as [p|]; auto. destruct (mem p td); auto. apply in_or_app; auto.
      * left. rewrite Hg. destruct (mem x td) eqn:E; [apply mem_In; auto | apply in_or_app; right; left; auto].
      * right. exists f. auto.
Qed.

Record init_spec (tb : table) (c : ctl) : Prop := {
  is_nodup : NoDup (map fst tb);
  is_order : c_order c = map fst tb;
  is_keys : map fst (c_tasks c) = map fst tb;
  is_task : forall k, lookup (c_tasks c) k =
              option_map (fun t => add_implicit (c_targets c) (expand_wild (map fst tb) t) (s_file_dep t)) (lookup tb k) }.

Lemma init_ok tb c : init tb = inr c -> init_spec tb c.
Proof.
  unfold Select.init. destruct (first_dup [] (map fst tb)) eqn:E1; [discriminate|].
  destruct (check_deps _ _); [discriminate|].
  destruct (build_targets [] _) as [e|tg] eqn:E3; [discriminate|].
  intros H; inversion H; subst; clear H. apply first_dup_None in E1. destruct E1 as [Hnd _].
  constructor; simpl; auto.
  - rewrite (keys_map (fun t => add_implicit tg t (s_file_dep t))), keys_map. reflexivity.
  - intros k. rewrite (lookup_map (fun t => add_implicit tg t (s_file_dep t))), lookup_map.
    destruct (lookup tb k); simpl; auto.
Qed.

(* task_dep after __init__ = declared + wild-card matches + producers of file dependencies *)
Theorem init_task_dep_exact tb c k t0 t d :
  init tb = inr c -> lookup tb k = Some t0 -> lookup (c_tasks c) k = Some t ->
  (In d (s_task_dep t) <->
   In d (s_task_dep t0) \/
   (exists p, In p (s_wild_dep t0) /\ In d (map fst tb) /\ matches p d = true) \/
   (exists f, In f (s_file_dep t0) /\ tg_get (c_targets c) f = Some d)).
Proof.
  intros Hi H0 H1. apply init_ok in Hi. rewrite (is_task _ _ Hi), H0 in H1. simpl in H1.
  inversion H1; subst; clear H1. simpl. rewrite add_implicit_fold_In, in_app_iff, in_flat_map.
  split.
  - intros [[H|(p & Hp & Hd)]|H]; auto. right; left. exists p. apply get_wild_In in Hd. tauto.
  - intros [H|[(p & Hp & Hd)|H]]; auto. left; right. exists p. split; auto. apply get_wild_In. auto.
Qed.

Theorem implicit_deps_complete tb c k t f u :
  init tb = inr c -> lookup (c_tasks c) k = Some t -> In f (s_file_dep t) ->
  tg_get (c_targets c) f = Some u -> In u (s_task_dep t).
Proof.
  intros Hi H1 Hf Hu. pose proof (init_ok _ _ Hi) as Hs. rewrite (is_task _ _ Hs) in H1.
  destruct (lookup tb k) as [t0|] eqn:E0; simpl in H1; [|discriminate].
  inversion H1; subst; clear H1. simpl in *. apply add_implicit_fold_In. right. exists f. auto.
Qed.

Theorem targets_exact tb c f u :
  init tb = inr c ->
  (tg_get (c_targets c) f = Some u <-> exists t, lookup tb u = Some t /\ In f (s_targets t)).
Proof.
  intros Hi. pose proof (init_ok _ _ Hi) as Hs. revert Hi. unfold Select.init.
  destruct (first_dup [] (map fst tb)) eqn:E1; [discriminate|].
  destruct (check_deps _ _); [discriminate|].
  destruct (build_targets [] _) as [e|tg] eqn:E3; [discriminate|].
  intros H; inversion H; subst; clear H. simpl.
  rewrite (build_targets_spec _ _ _ E3 f u). simpl.
  pose proof (is_nodup _ _ Hs) as Hnd. split.
  - intros [H|(_ & t & Hin & Hf)]; [discriminate|].
    apply in_map_iff in Hin. destruct Hin as ([k t0] & Heq & Hin). simpl in Heq. inversion Heq; subst.
    exists t0. split; auto. apply lookup_NoDup; auto.
  - intros (t & Hl & Hf). right. split; auto. apply lookup_In in Hl.
    exists (expand_wild (map fst tb) t). split; auto.
    apply in_map_iff. exists (u, t). auto.
Qed.

(* ---------- process / select_core ---------- *)
Lemma init_no_loader tb c : init tb = inr c -> no_loader tb -> no_loader (c_tasks c).
Proof.
  intros Hi Hnl k t Hin. pose proof (init_ok _ _ Hi) as Hs.
  assert (Hnd : NoDup (map fst (c_tasks c))) by (rewrite (is_keys _ _ Hs); apply (is_nodup _ _ Hs)).
  apply lookup_NoDup in Hin; auto. rewrite (is_task _ _ Hs) in Hin.
  destruct (lookup tb k) as [t0|] eqn:E; simpl in Hin; [|discriminate].
  inversion Hin; subst. simpl. apply lookup_In in E. eauto.
Qed.

(* ---------- _process_filter with task arguments ---------- *)
(* a command line on which nothing is an argument of a task: no token looks like an option, and no task
   that declares pos_arg is named explicitly (patterns may match such tasks) *)
Definition plain_sel (tb : table) (sel : list name) : Prop :=
  Forall (fun f => is_opt f = false /\
                   (has_star f = false -> forall t, lookup tb f = Some t -> s_pos_arg t = false)) sel.

Lemma pf_cons_name order tb m st x r :
  is_opt x = false -> (m = MName \/ exists o, m = MOpts o false) ->
  process_filter order tb m st (x :: r) =
  match name_action order tb st x with
  | (emit, None, st') => Some (emit, st')
  | (emit, Some m', st') =>
    match process_filter order tb m' st' r with
    | None => None
    | Some (fl, st'') => Some (emit ++ fl, st'')
    end
  end.
Proof.
  intros Ho [->|(o & ->)]; cbn [Select.process_filter]; [reflexivity|]. rewrite Ho. reflexivity.
Qed.

Theorem process_filter_plain order tb sel : forall m st,
  plain_sel tb sel -> (m = MName \/ exists o, m = MOpts o false) ->
  exists st', process_filter order tb m st sel = Some (expand_sel order sel, st').
Proof.
  induction sel as [|x r IH]; intros m st Hp Hm.
  - exists st. destruct Hm as [->|(o & ->)]; reflexivity.
  - inversion Hp as [|? ? [Ho Hpos] Hr]; subst. rewrite pf_cons_name; auto.
    unfold Select.name_action, Select.expand_sel. cbn [flat_map]. fold (expand_sel order r).
    destruct (has_star x) eqn:Es.
    + destruct (IH MName (mark_glob tb st (Select.get_wild matches order x)) Hr (or_introl eq_refl)) as (st' & E).
      rewrite E. eauto.
    + destruct (lookup tb x) as [t|] eqn:El.
      * rewrite (Hpos eq_refl t eq_refl). cbn [andb].
        destruct (mem x (p_inited st)).
        -- destruct (IH MName {| p_inited := addset x (p_inited st); p_posset := p_posset st |} Hr (or_introl eq_refl)) as (st' & E).
           rewrite E. eauto.
        -- destruct (IH (MOpts (s_opts t) false) {| p_inited := addset x (p_inited st); p_posset := p_posset st |} Hr
                        (or_intror (ex_intro _ _ eq_refl))) as (st' & E).
           rewrite E. eauto.
      * destruct (IH MName st Hr (or_introl eq_refl)) as (st' & E). rewrite E. eauto.
Qed.

(* what follows a pattern is always read as further selection elements, whatever the pattern matched *)
Theorem process_filter_after_glob order tb st g r :
  has_star g = true ->
  process_filter order tb MName st (g :: r) =
  match process_filter order tb MName (mark_glob tb st (get_wild order g)) r with
  | None => None
  | Some (fl, st') => Some (get_wild order g ++ fl, st')
  end.
Proof. intros H. cbn [Select.process_filter]. unfold Select.name_action. rewrite H. reflexivity. Qed.

(* what follows a task declaring pos_arg, named explicitly for the first time, are its values *)
Theorem process_filter_pos_arg order tb st p t r :
  has_star p = false -> lookup tb p = Some t -> s_pos_arg t = true -> ~ In p (p_posset st) ->
  Forall (fun x => is_opt x = false) r ->
  exists st', process_filter order tb MName st (p :: r) = Some ([p], st').
Proof.
  intros Hs Hl Hp Hn Hr. cbn [Select.process_filter]. unfold Select.name_action. rewrite Hs, Hl, Hp.
  apply mem_false_In in Hn. rewrite Hn. cbn [andb negb].
  destruct (mem p (p_inited st)); [eauto|].
  destruct r as [|y r']; cbn [Select.process_filter]; [eauto|].
  inversion Hr; subst. rewrite H1. eauto.
Qed.

(* no --single: exactly the tasks the names stand for, in the order given; or the first unknown name *)
Theorem select_exact auto tb c sel :
  init tb = inr c -> no_loader tb -> plain_sel (c_tasks c) sel ->
  (forall selected tb' tg',
     select_core auto false (Some sel) tb = ROk tb' tg' selected <->
     tb' = c_tasks c /\ tg' = c_targets c /\
     Forall2 (stands_for (c_targets c) (c_tasks c)) (expand_sel (c_order c) sel) selected) /\
  (forall f,
     select_core auto false (Some sel) tb = RNotFound f <->
     exists pre post, expand_sel (c_order c) sel = pre ++ f :: post /\
                      Forall (known (c_targets c) (c_tasks c)) pre /\ ~ known (c_targets c) (c_tasks c) f).
Proof.
  intros Hi Hnl Hpl. pose proof (init_ok _ _ Hi) as Hs. pose proof (init_no_loader _ _ Hi Hnl) as Hnl'.
  destruct (process_filter_plain (c_order c) (c_tasks c) sel MName pstate0 Hpl (or_introl eq_refl)) as (st' & Hpf).
  unfold Select.select_core. rewrite Hi. cbn [Select.process]. unfold Select.filter_tasks. rewrite Hpf.
  split.
  - intros selected tb' tg'.
    destruct (filter_list auto (c_targets c) [] (c_tasks c) (expand_sel (c_order c) sel)) as [e|[[ph1 tb1] s]] eqn:E.
    + split; [discriminate|]. intros (-> & -> & HF).
      assert (E2 : filter_list auto (c_targets c) [] (c_tasks c) (expand_sel (c_order c) sel) = inr ([], c_tasks c, selected))
        by (apply filter_list_static_ok; auto).
      congruence.
    + apply filter_list_static_ok in E; auto. destruct E as (-> & -> & HF). split.
      * intros H; inversion H; subst. auto.
      * intros (-> & -> & HF2). f_equal.
        eapply stands_for_fun; eauto.
  - intros f.
    destruct (filter_list auto (c_targets c) [] (c_tasks c) (expand_sel (c_order c) sel)) as [e|[[ph1 tb1] s]] eqn:E.
    + pose proof E as E'. apply filter_list_static_err in E; auto. split.
      * intros H; inversion H; subst. auto.
      * intros H. apply (filter_list_static_err auto _ []) in H; auto. congruence.
    + split; [discriminate|]. intros H. apply (filter_list_static_err auto _ []) in H; auto. congruence.
Qed.

(* whatever the table and the command line: how a selection fails, and that it then selects nothing *)
Theorem select_failures auto single tb c sel :
  init tb = inr c ->
  (select_core auto single (Some sel) tb = RParseErr <->
   process_filter (c_order c) (c_tasks c) MName pstate0 sel = None) /\
  (forall f, select_core auto single (Some sel) tb = RNotFound f <->
   exists fl st pre post ph1 tb1 s1,
     process_filter (c_order c) (c_tasks c) MName pstate0 sel = Some (fl, st) /\ fl = pre ++ f :: post /\
     resolves_all auto (c_targets c) [] (c_tasks c) pre ph1 tb1 s1 /\ unresolvable auto (c_targets c) ph1 tb1 f).
Proof.
  intros Hi. unfold Select.select_core. rewrite Hi. cbn [Select.process]. unfold Select.filter_tasks.
  destruct (process_filter (c_order c) (c_tasks c) MName pstate0 sel) as [[fl st]|] eqn:Epf.
  - split.
    + destruct (filter_list auto (c_targets c) [] (c_tasks c) fl) as [e|[[ph1 tb1] s]]; split; discriminate.
    + intros f. split.
      * destruct (filter_list auto (c_targets c) [] (c_tasks c) fl) as [e|[[ph1 tb1] s]] eqn:E; [|discriminate].
        intros H; inversion H; subst. apply filter_list_err in E.
        destruct E as (pre & post & ph1 & tb1 & s1 & E1 & E2 & E3). exists fl, st, pre, post, ph1, tb1, s1. auto.
      * intros (fl' & st' & pre & post & ph1 & tb1 & s1 & E0 & E1 & E2 & E3). inversion E0; subst.
        assert (E : filter_list auto (c_targets c) [] (c_tasks c) (pre ++ f :: post) = inl f).
        { apply filter_list_err. exists pre, post, ph1, tb1, s1. auto. }
        rewrite E. reflexivity.
  - split; [split; reflexivity|]. intros f. split; [discriminate|].
    intros (fl' & st' & pre & post & ph1 & tb1 & s1 & E0 & _). discriminate.
Qed.

(* ---------- default_tasks ---------- *)
Lemma sel_tasks_args args d : args <> [] -> sel_tasks args d = Some args.
Proof. destruct args; [congruence | reflexivity]. Qed.

Theorem default_spec auto single tb :
  (forall args d, args <> [] -> cmd_run_select auto single args d tb = select_core auto single (Some args) tb) /\
  (forall d, cmd_run_select auto single [] (Some d) tb = select_core auto single (Some d) tb) /\
  (forall c, init tb = inr c ->
     cmd_run_select auto single [] None tb =
     ROk (if single then single_step (c_tasks c) (map fst tb) else c_tasks c) (c_targets c) (map fst tb)).
Proof.
  unfold Select.cmd_run_select. repeat split.
  - intros args d H. rewrite sel_tasks_args; auto.
  - intros c H. unfold Select.select_core. rewrite H. simpl. rewrite (is_order _ _ (init_ok _ _ H)). reflexivity.
Qed.

(* selection by target file name is by the EXACT declared string.  In any state (ph, tb1) of the loop of
   _filter_tasks, for an element f that is not the name of a task:
   (1) f is a string some task p of the loaded list declares in `targets`  ->  the element stands for p, nothing
       is added to the table;
   (2) f is no declared target string of any task (e.g. another spelling of the same path: names are opaque,
       two spellings are two names)  ->  the targets dict plays no part: the element is treated exactly as if
       no task had any target (rejected, unless a delayed creator accounts for it). *)
Theorem target_lookup_exact auto tb c ph tb1 f :
  init tb = inr c -> has tb1 f = false ->
  (forall p, (exists t, lookup tb p = Some t /\ In f (s_targets t)) ->
     filter_list auto (c_targets c) ph tb1 [f] = inr (ph, tb1, [p])) /\
  ((forall u t, lookup tb u = Some t -> ~ In f (s_targets t)) ->
     tg_get (c_targets c) f = None /\
     filter_list auto (c_targets c) ph tb1 [f] = filter_list auto [] ph tb1 [f]).
Proof.
  intros Hi Hf. split.
  - intros p Hp. apply (targets_exact tb c f p Hi) in Hp.
    cbn [Select.filter_list]. unfold Select.filter_one. rewrite Hf, Hp. reflexivity.
  - intros Hn.
    assert (Hg : tg_get (c_targets c) f = None).
    { destruct (tg_get (c_targets c) f) as [u|] eqn:E; auto.
      apply (targets_exact tb c f u Hi) in E. destruct E as (t & Hl & Hin). exfalso. exact (Hn u t Hl Hin). }
    split; auto. cbn [Select.filter_list]. unfold Select.filter_one. rewrite Hf, Hg. reflexivity.
Qed.

End P.

(* ---------- --single ---------- *)
(* tb' is tb with the task_dep of some tasks cut down to a part of what it was, nothing else touched *)
Definition reduced (tb tb' : table) : Prop :=
  map fst tb' = map fst tb /\
  forall k, match lookup tb k, lookup tb' k with
            | None, None => True
            | Some t, Some t' => exists l, t' = with_task_dep t l /\ incl l (s_task_dep t)
            | _, _ => False
            end.

Lemma with_task_dep_same t : with_task_dep t (s_task_dep t) = t.
Proof. destruct t; reflexivity. Qed.

Lemma reduced_refl tb : reduced tb tb.
Proof.
  split; auto. intros k. destruct (lookup tb k) as [t|]; auto.
  exists (s_task_dep t). split; [symmetry; apply with_task_dep_same | apply incl_refl].
Qed.

Lemma reduced_trans a b c : reduced a b -> reduced b c -> reduced a c.
Proof.
  intros [H1 H2] [H3 H4]. split; [congruence|]. intros k. specialize (H2 k). specialize (H4 k).
  destruct (lookup a k) as [ta|], (lookup b k) as [tb_|], (lookup c k) as [tc|]; auto; try contradiction.
  destruct H2 as (l1 & -> & I1), H4 as (l2 & -> & I2). exists l2. split; auto.
  simpl in I2. eapply incl_tran; eauto.
Qed.

Lemma reduced_set tb k t l :
  lookup tb k = Some t -> incl l (s_task_dep t) -> reduced tb (set_task tb k (with_task_dep t l)).
Proof.
  intros E I. split.
  - apply keys_set_task. unfold has. rewrite E. reflexivity.
  - intros x. rewrite lookup_set_task. destruct (N.eqb_spec x k); subst.
    + rewrite E. exists l. auto.
    + destruct (lookup tb x) as [t0|]; auto.
      exists (s_task_dep t0). split; [symmetry; apply with_task_dep_same | apply incl_refl].
Qed.

Lemma reduced_clear_dep tb k : reduced tb (clear_dep tb k).
Proof.
  unfold clear_dep. destruct (lookup tb k) as [t|] eqn:E; [|apply reduced_refl].
  apply reduced_set; auto. intros x [].
Qed.

Lemma reduced_fold_clear l : forall tb, reduced tb (fold_left clear_dep l tb).
Proof.
  induction l as [|x r IH]; intros tb; simpl; [apply reduced_refl|].
  eapply reduced_trans; [apply reduced_clear_dep | apply IH].
Qed.

Lemma reduced_has tb tb' k : reduced tb tb' -> has tb' k = has tb k.
Proof.
  intros [_ H]. specialize (H k). unfold has. destruct (lookup tb k), (lookup tb' k); auto; contradiction.
Qed.

Lemma reduced_single_one tb k : reduced tb (single_one tb k).
Proof.
  unfold single_one. destruct (lookup tb k) as [t|] eqn:E; [|apply reduced_refl].
  destruct (s_has_subtask t); [|apply reduced_clear_dep].
  set (subs := filter (is_sub_of tb k) (s_task_dep t)).
  pose proof (reduced_fold_clear subs tb) as R1. split.
  - rewrite keys_set_task; [apply R1|]. rewrite (reduced_has tb); auto. unfold has. rewrite E. reflexivity.
  - intros x. rewrite lookup_set_task. destruct (N.eqb_spec x k); subst.
    + rewrite E. exists subs. split; auto. unfold subs. intros y Hy. apply filter_In in Hy. tauto.
    + destruct R1 as [_ R1]. apply R1.
Qed.

Lemma reduced_single_step l : forall tb, reduced tb (single_step tb l).
Proof.
  unfold single_step. induction l as [|x r IH]; intros tb; simpl; [apply reduced_refl|].
  eapply reduced_trans; [apply reduced_single_one | apply IH].
Qed.

(* consequences of [reduced] *)
Lemma reduced_keeps_empty tb tb' k : reduced tb tb' -> task_dep_of tb k = [] -> task_dep_of tb' k = [].
Proof.
  intros [_ H]. specialize (H k). unfold task_dep_of.
  destruct (lookup tb k) as [t|], (lookup tb' k) as [t'|]; try contradiction; auto.
  destruct H as (l & -> & I). simpl. intros E. rewrite E in I. destruct l as [|y l]; auto.
  exfalso. apply (I y). left; auto.
Qed.

Lemma reduced_dep_incl tb tb' k d : reduced tb tb' -> In d (task_dep_of tb' k) -> In d (task_dep_of tb k).
Proof.
  intros [_ H]. specialize (H k). unfold task_dep_of.
  destruct (lookup tb k) as [t|], (lookup tb' k) as [t'|]; try contradiction; auto.
  destruct H as (l & -> & I). simpl. apply I.
Qed.

Lemma reduced_fields tb tb' k t t' :
  reduced tb tb' -> lookup tb k = Some t -> lookup tb' k = Some t' ->
  s_has_subtask t' = s_has_subtask t /\ s_subtask_of t' = s_subtask_of t.
Proof.
  intros [_ H] H1 H2. specialize (H k). rewrite H1, H2 in H. destruct H as (l & -> & _). auto.
Qed.

Lemma reduced_is_sub_of tb tb' g k : reduced tb tb' -> is_sub_of tb' g k = is_sub_of tb g k.
Proof.
  intros [_ H]. specialize (H k). unfold is_sub_of.
  destruct (lookup tb k) as [t|], (lookup tb' k) as [t'|]; try contradiction; auto.
  destruct H as (l & -> & _). reflexivity.
Qed.

Lemma clear_dep_lookup_other tb k x : x <> k -> lookup (clear_dep tb k) x = lookup tb x.
Proof.
  intros H. unfold clear_dep. destruct (lookup tb k); auto. rewrite lookup_set_task.
  apply N.eqb_neq in H. rewrite H. reflexivity.
Qed.

Lemma fold_clear_lookup_notin l : forall tb x, ~ In x l -> lookup (fold_left clear_dep l tb) x = lookup tb x.
Proof.
  induction l as [|y r IH]; intros tb x H; simpl; auto.
  rewrite IH by (intros Hin; apply H; right; auto).
  apply clear_dep_lookup_other. intros ->. apply H. left; auto.
Qed.

Lemma clear_dep_empties tb k : task_dep_of (clear_dep tb k) k = [].
Proof.
  unfold clear_dep, task_dep_of. destruct (lookup tb k) eqn:E; [|rewrite E; reflexivity].
  rewrite lookup_set_task, N.eqb_refl. reflexivity.
Qed.

Lemma fold_clear_empties l : forall tb d, In d l -> task_dep_of (fold_left clear_dep l tb) d = [].
Proof.
  induction l as [|x r IH]; intros tb d; simpl; [tauto|].
  intros [->|Hin]; [|apply IH; auto].
  eapply reduced_keeps_empty; [apply reduced_fold_clear | apply clear_dep_empties].
Qed.

(* one step of --single on task k *)
Lemma single_one_other tb k x :
  x <> k -> (forall t, lookup tb k = Some t -> s_has_subtask t = true -> is_sub_of tb k x = false) ->
  lookup (single_one tb k) x = lookup tb x.
Proof.
  intros Hne Hsub. unfold single_one. destruct (lookup tb k) as [t|] eqn:E; auto.
  destruct (s_has_subtask t) eqn:Es; [|apply clear_dep_lookup_other; auto].
  rewrite lookup_set_task. apply N.eqb_neq in Hne. rewrite Hne.
  apply fold_clear_lookup_notin. intros Hin. apply filter_In in Hin. destruct Hin as [_ Hin].
  rewrite (Hsub t) in Hin; auto. discriminate.
Qed.

Lemma single_one_group tb g t :
  lookup tb g = Some t -> s_has_subtask t = true ->
  lookup (single_one tb g) g = Some (with_task_dep t (filter (is_sub_of tb g) (s_task_dep t))).
Proof.
  intros E Es. unfold single_one. rewrite E, Es. rewrite lookup_set_task, N.eqb_refl. reflexivity.
Qed.

Lemma is_sub_of_None tb g k t : lookup tb k = Some t -> s_subtask_of t = None -> is_sub_of tb g k = false.
Proof. intros E H. unfold is_sub_of. rewrite E, H. reflexivity. Qed.

Lemma filter_idem {A} (p : A -> bool) l : filter p (filter p l) = filter p l.
Proof.
  induction l as [|x l IH]; simpl; auto. destruct (p x) eqn:E; simpl; [rewrite E|]; congruence.
Qed.

(* a task that is nobody's sub-task is touched only when it is itself selected *)
Lemma single_step_untouched sel : forall tb k t,
  ~ In k sel -> lookup tb k = Some t -> s_subtask_of t = None -> lookup (single_step tb sel) k = Some t.
Proof.
  induction sel as [|x r IH]; intros tb k t Hin E Hs; auto.
  change (single_step tb (x :: r)) with (single_step (single_one tb x) r).
  apply IH; auto.
  - intros H; apply Hin; right; auto.
  - rewrite single_one_other; auto.
    + intros ->. apply Hin. left; auto.
    + intros t0 _ _. eapply is_sub_of_None; eauto.
Qed.

(* a selected group that is nobody's sub-task keeps exactly its sub-tasks *)
Lemma single_step_group sel : forall tb g t,
  In g sel -> lookup tb g = Some t -> s_has_subtask t = true -> s_subtask_of t = None ->
  task_dep_of (single_step tb sel) g = filter (is_sub_of tb g) (s_task_dep t).
Proof.
  induction sel as [|x r IH]; intros tb g t Hin E Es Hs; [destruct Hin|].
  change (single_step tb (x :: r)) with (single_step (single_one tb x) r).
  destruct (N.eq_dec x g) as [->|Hne].
  - pose proof (single_one_group tb g t E Es) as E1.
    destruct (in_dec N.eq_dec g r) as [Hr|Hr].
    + rewrite (IH _ g _ Hr E1); auto. simpl.
      rewrite (filter_ext _ (is_sub_of tb g)) by (intro; apply reduced_is_sub_of; apply reduced_single_one).
      apply filter_idem.
    + unfold task_dep_of. rewrite (single_step_untouched r _ g _ Hr E1); auto.
  - destruct Hin as [Hin|Hin]; [contradiction|].
    assert (E1 : lookup (single_one tb x) g = Some t).
    { rewrite single_one_other; auto. intros t0 _ _. eapply is_sub_of_None; eauto. }
    rewrite (IH _ g t Hin E1); auto.
    apply filter_ext. intro. apply reduced_is_sub_of. apply reduced_single_one.
Qed.

Record single_spec (tb : table) (sel : list name) (tb' : table) : Prop := {
  (* same tasks in the same order; a task is unchanged or its task_dep is cut down *)
  ss_frame : reduced tb tb';
  (* a selected task that is not a group has no task_dep left *)
  ss_plain : forall k t, In k sel -> lookup tb k = Some t -> s_has_subtask t = false -> task_dep_of tb' k = [];
  (* a selected group depends on sub-tasks of its own only, and these have no task_dep left *)
  ss_subs : forall g t d, In g sel -> lookup tb g = Some t -> s_has_subtask t = true -> In d (task_dep_of tb' g) ->
              In d (s_task_dep t) /\ is_sub_of tb g d = true /\ (d <> g -> task_dep_of tb' d = []);
  (* ... on all of them, unless the group is declared as a sub-task itself *)
  ss_group : forall g t, In g sel -> lookup tb g = Some t -> s_has_subtask t = true -> s_subtask_of t = None ->
               task_dep_of tb' g = filter (is_sub_of tb g) (s_task_dep t);
  (* nothing else was touched *)
  ss_only : forall k, task_dep_of tb' k <> task_dep_of tb k ->
              In k sel \/ exists g t, In g sel /\ lookup tb g = Some t /\ s_has_subtask t = true /\
                                     In k (s_task_dep t) /\ is_sub_of tb g k = true }.

Lemma single_one_only tb x k :
  task_dep_of (single_one tb x) k <> task_dep_of tb k ->
  k = x \/ exists t, lookup tb x = Some t /\ s_has_subtask t = true /\ In k (s_task_dep t) /\ is_sub_of tb x k = true.
Proof.
  intros H. destruct (N.eq_dec k x) as [->|Hne]; auto. right.
  unfold single_one in H. destruct (lookup tb x) as [t|] eqn:E; [|congruence].
  destruct (s_has_subtask t) eqn:Es.
  - exists t. repeat split; auto.
    + destruct (in_dec N.eq_dec k (filter (is_sub_of tb x) (s_task_dep t))) as [Hin|Hin].
      * apply filter_In in Hin. tauto.
      * exfalso. apply H. unfold task_dep_of. rewrite lookup_set_task.
        apply N.eqb_neq in Hne. rewrite Hne. rewrite fold_clear_lookup_notin; auto.
    + destruct (in_dec N.eq_dec k (filter (is_sub_of tb x) (s_task_dep t))) as [Hin|Hin].
      * apply filter_In in Hin. tauto.
      * exfalso. apply H. unfold task_dep_of. rewrite lookup_set_task.
        apply N.eqb_neq in Hne. rewrite Hne. rewrite fold_clear_lookup_notin; auto.
  - exfalso. apply H. unfold task_dep_of. rewrite clear_dep_lookup_other; auto.
Qed.

Theorem single_step_spec sel : forall tb, single_spec tb sel (single_step tb sel).
Proof.
  induction sel as [|x r IH]; intros tb.
  - constructor.
    + apply reduced_refl.
    + intros k t [].
    + intros g t d [].
    + intros g t [].
    + intros k H. exfalso. apply H. reflexivity.
  - pose proof (reduced_single_one tb x) as C1.
    specialize (IH (single_one tb x)). destruct IH as [F P S G O].
    change (single_step tb (x :: r)) with (single_step (single_one tb x) r).
    constructor.
    + eapply reduced_trans; eauto.
    + intros k t [->|Hin] Hl Hs.
      * eapply reduced_keeps_empty; [exact F|].
        unfold single_one. rewrite Hl, Hs. apply clear_dep_empties.
      * destruct C1 as [_ C1']. pose proof (C1' k) as Ck. rewrite Hl in Ck.
        destruct (lookup (single_one tb x) k) as [t1|] eqn:E1; [|contradiction].
        apply (P k t1); auto. destruct Ck as (l & -> & _); auto.
    + intros g t d Hin Hl Hs Hd.
      destruct (in_dec N.eq_dec g r) as [Hr|Hr].
      * (* processed again later: the induction hypothesis, read back through the first step *)
        pose proof C1 as [_ C1']. pose proof (C1' g) as Cg. rewrite Hl in Cg.
        destruct (lookup (single_one tb x) g) as [t1|] eqn:E1; [|contradiction].
        destruct Cg as (l & -> & I).
        destruct (S g _ d Hr E1 Hs Hd) as (H1 & H2 & H3). simpl in H1.
        rewrite (reduced_is_sub_of tb) in H2; auto.
      * (* processed now and never again *)
        destruct Hin as [->|Hin]; [|contradiction].
        pose proof (single_one_group tb g t Hl Hs) as E1.
        assert (Hd1 : In d (task_dep_of (single_one tb g) g)) by (eapply reduced_dep_incl; eauto).
        unfold task_dep_of in Hd1. rewrite E1 in Hd1. simpl in Hd1.
        pose proof Hd1 as Hd2. apply filter_In in Hd2.
        destruct Hd2 as [Hd0 Hsub]. split; auto. split; auto. intros Hne.
        eapply reduced_keeps_empty; [exact F|].
        unfold single_one. rewrite Hl, Hs. unfold task_dep_of. rewrite lookup_set_task.
        apply N.eqb_neq in Hne. rewrite Hne. apply fold_clear_empties; auto.
    + intros g t Hin Hl Hs Hn.
      change (single_step (single_one tb x) r) with (single_step tb (x :: r)).
      apply single_step_group; auto.
    + intros k Hne.
      destruct (list_eq_dec N.eq_dec (task_dep_of (single_one tb x) k) (task_dep_of tb k)) as [Heq|Hne1].
      * rewrite <- Heq in Hne. destruct (O k Hne) as [Hin|(g & t & Hin & Hl & Hs & Hk & Hsub)].
        -- left. right. auto.
        -- right. pose proof C1 as [_ C1']. specialize (C1' g). rewrite Hl in C1'.
           destruct (lookup tb g) as [t0|] eqn:E0; [|contradiction]. destruct C1' as (l & -> & I).
           exists g, t0. simpl in *. repeat split; auto.
           rewrite <- (reduced_is_sub_of tb (single_one tb x)); auto.
      * apply single_one_only in Hne1. destruct Hne1 as [->|(t & Hl & Hs & Hk & Hsub)].
        -- left. left. auto.
        -- right. exists x, t. repeat split; auto. left; auto.
Qed.
