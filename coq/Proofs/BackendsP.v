(* BackendsP.v -- proofs about Model/Backends.v: each backend (current code) refines the abstract map *)
From Coq Require Import ZifyBool.
From DoitV Require Import Base Backends.

Ltac splits := repeat match goal with |- _ /\ _ => split end.

(* ---------- pointwise equality of dicts ---------- *)
Lemma rec_eq_refl a : rec_eq a a.
Proof. intro k; reflexivity. Qed.
Lemma orec_eq_refl a : orec_eq a a.
Proof. destruct a; simpl; auto. apply rec_eq_refl. Qed.
Lemma orec_eq_sym a b : orec_eq a b -> orec_eq b a.
Proof. destruct a, b; simpl; auto. intros H k; symmetry; apply H. Qed.
Lemma orec_eq_trans a b c : orec_eq a b -> orec_eq b c -> orec_eq a c.
Proof. destruct a, b, c; simpl; auto; try tauto. intros H1 H2 k. rewrite H1. apply H2. Qed.
Lemma orec_eq_rget a b k : orec_eq a b -> rget a k = rget b k.
Proof. destruct a, b; simpl; auto; try tauto. Qed.
Definition is_some {A} (o : option A) : bool := match o with Some _ => true | None => false end.
Lemma orec_eq_is_some a b : orec_eq a b -> is_some a = is_some b.
Proof. destruct a, b; simpl; auto; try tauto. Qed.
Lemma orec_eq_orempty a b : orec_eq a b -> rec_eq (orempty a) (orempty b).
Proof. destruct a, b; simpl; auto; try tauto. intros _. apply rec_eq_refl. Qed.
Lemma rset_eq a b k v : rec_eq a b -> rec_eq (rset a k v) (rset b k v).
Proof. intros H x. unfold rset, upd. destruct (N.eqb x k); auto. Qed.
Lemma has_is_some {A} (m : N -> option A) t : has m t = is_some (m t).
Proof. reflexivity. Qed.

Lemma setdefault_assign_spec d t dflt k v t0 :
  setdefault_assign d t dflt k v t0 =
  if N.eqb t0 t then Some (rset (match d t with Some r => r | None => dflt end) k v) else d t0.
Proof.
  unfold setdefault_assign, has, upd. destruct (N.eqb_spec t0 t) as [->|Hne].
  - destruct (d t) eqn:E; simpl.
    + rewrite E. reflexivity.
    + rewrite N.eqb_refl. reflexivity.
  - destruct (d t) eqn:E; simpl; auto.
    apply N.eqb_neq in Hne. rewrite Hne. reflexivity.
Qed.

(* ---------- sets as lists ---------- *)
Lemma bool_eq_iff (a b : bool) : (a = true <-> b = true) -> a = b.
Proof. destruct a, b; intros [H1 H2]; auto. symmetry; auto. Qed.
Lemma mem_addset x y l : mem x (addset y l) = N.eqb x y || mem x l.
Proof.
  apply bool_eq_iff. rewrite mem_In, addset_In, orb_true_iff, mem_In, N.eqb_eq. tauto.
Qed.
Lemma mem_rem x y l : mem x (rem y l) = mem x l && negb (N.eqb x y).
Proof.
  apply bool_eq_iff. rewrite mem_In, rem_In, andb_true_iff, mem_In, negb_true_iff, N.eqb_neq. tauto.
Qed.
Lemma mem_rem_if x y l :
  mem x (if mem y l then rem y l else l) = mem x l && negb (N.eqb x y).
Proof.
  destruct (mem y l) eqn:E.
  - apply mem_rem.
  - destruct (N.eqb_spec x y) as [->|Hne]; simpl.
    + rewrite E. reflexivity.
    + rewrite andb_true_r. reflexivity.
Qed.
Lemma del_if {A} (m : N -> option A) t t0 :
  (if has m t then del m t else m) t0 = if N.eqb t0 t then None else m t0.
Proof.
  unfold has, del. destruct (m t) eqn:E; auto.
  destruct (N.eqb_spec t0 t) as [->|]; auto.
Qed.

Lemma del_map_eq (a a' m : tmap) t :
  map_eq a m -> (forall t0, a' t0 = if N.eqb t0 t then None else a t0) -> map_eq a' (del m t).
Proof.
  intros H Ha t0. rewrite Ha. unfold del. destruct (N.eqb t0 t); simpl; auto.
Qed.

(* ---------- runs ---------- *)
Lemma run_app {S} (step : S -> op -> S * obs) a : forall s b,
  run step s (a ++ b) = run step s a ++ run step (exec step s a) b.
Proof. induction a as [|o a IH]; intros s b; simpl; auto. rewrite IH. reflexivity. Qed.
Lemma exec_app {S} (step : S -> op -> S * obs) a : forall s b,
  exec step s (a ++ b) = exec step (exec step s a) b.
Proof. induction a as [|o a IH]; intros s b; simpl; auto. Qed.
Lemma run_length {S} (step : S -> op -> S * obs) ops : forall s, length (run step s ops) = length ops.
Proof. induction ops as [|o r IH]; intros s; simpl; auto. Qed.

Lemma run_sim {S} (step : S -> op -> S * obs) (R : S -> spec -> Prop) :
  (forall s m o, R s m ->
     snd (step s o) = snd (spec_step m o) /\ R (fst (step s o)) (fst (spec_step m o))) ->
  forall ops s m, R s m -> run step s ops = run spec_step m ops.
Proof.
  intros Hstep. induction ops as [|o r IH]; intros s m HR; simpl; auto.
  destruct (Hstep s m o HR) as [H1 H2]. rewrite H1. f_equal. apply IH. exact H2.
Qed.

(* ---------- the abstract map: a task without record stays without until a set names it ---------- *)
Definition sets_task (t : N) (o : op) : bool :=
  match o with Set_ t' _ _ => N.eqb t' t | _ => false end.
Definition no_set (t : N) (ops : list op) : Prop := forall o, In o ops -> sets_task t o = false.

Lemma spec_absent_step m t o : m t = None -> sets_task t o = false -> fst (spec_step m o) t = None.
Proof.
  intros Hm Ho. destruct o as [t' k v|t' k|t'|t'| |]; simpl in *; auto.
  - unfold upd. rewrite N.eqb_sym, Ho. exact Hm.
  - unfold del. destruct (N.eqb t t'); auto.
Qed.
Lemma spec_absent_exec ops : forall m t, m t = None -> no_set t ops -> exec spec_step m ops t = None.
Proof.
  induction ops as [|o r IH]; intros m t Hm Hn; simpl; auto.
  apply IH.
  - apply spec_absent_step; auto. apply Hn. left; reflexivity.
  - intros o' Ho'. apply Hn. right; exact Ho'.
Qed.

Lemma spec_removed_stays_absent pre mid t k : no_set t mid ->
  run_spec (pre ++ Remove t :: mid ++ [Get t k; In_ t]) =
  run_spec (pre ++ Remove t :: mid) ++ [OVal None; OBool false].
Proof.
  intros Hn. unfold run_spec.
  change (Remove t :: mid ++ [Get t k; In_ t]) with ((Remove t :: mid) ++ [Get t k; In_ t]).
  rewrite app_assoc, run_app. f_equal.
  rewrite exec_app. simpl.
  assert (H : exec spec_step (del (exec spec_step empty pre) t) mid t = None).
  { apply spec_absent_exec; auto. unfold del. rewrite N.eqb_refl. reflexivity. }
  unfold has. rewrite H. reflexivity.
Qed.
Lemma spec_remove_all_stays_absent pre mid t k : no_set t mid ->
  run_spec (pre ++ RemoveAll :: mid ++ [Get t k; In_ t]) =
  run_spec (pre ++ RemoveAll :: mid) ++ [OVal None; OBool false].
Proof.
  intros Hn. unfold run_spec.
  change (RemoveAll :: mid ++ [Get t k; In_ t]) with ((RemoveAll :: mid) ++ [Get t k; In_ t]).
  rewrite app_assoc, run_app. f_equal.
  rewrite exec_app. simpl.
  assert (H : exec spec_step empty mid t = None) by (apply spec_absent_exec; auto).
  unfold has. rewrite H. reflexivity.
Qed.
(* closing and reopening at any point is invisible to everything that follows *)
Lemma spec_reopen_invisible ops rest :
  exists a b, run_spec (ops ++ rest) = a ++ b /\ run_spec (ops ++ Reopen :: rest) = a ++ OUnit :: b /\
              length a = length ops.
Proof.
  exists (run_spec ops), (run spec_step (exec spec_step empty ops) rest). unfold run_spec.
  rewrite !run_app. simpl. repeat split. apply run_length.
Qed.

(* ================= JsonDB ================= *)
Section Json.
  Variable F : Type.
  Variable encdb : tmap -> F.
  Variable decdb : F -> tmap.
  Hypothesis Hcodec : dbcodec_ok F encdb decdb.

  Definition Rj (s : jsondb F) (m : spec) : Prop := map_eq (j_db F s) m.

  Lemma json_sim s m o : Rj s m ->
    snd (json_step F encdb decdb s o) = snd (spec_step m o) /\
    Rj (fst (json_step F encdb decdb s o)) (fst (spec_step m o)).
  Proof.
    intros HR. destruct o as [t k v|t k|t|t| |]; simpl.
    - split; auto. intros t0. simpl. rewrite setdefault_assign_spec. unfold upd.
      destruct (N.eqb t0 t); [|apply HR].
      simpl. apply rset_eq. specialize (HR t).
      destruct (j_db F s t), (m t); simpl in *; auto; try tauto. apply rec_eq_refl.
    - split; auto. f_equal. unfold json_get, has. specialize (HR t).
      destruct (j_db F s t), (m t); simpl in *; auto; tauto.
    - split; auto. f_equal. unfold json_in. rewrite !has_is_some. apply orec_eq_is_some, HR.
    - split; auto. apply (del_map_eq (j_db F s)); auto. intros t0. apply del_if.
    - split; auto. intros t0. simpl. exact I.
    - split; auto. intros t0. simpl. eapply orec_eq_trans; [apply Hcodec | apply HR].
  Qed.

  Lemma json_refines ops : run_json F encdb decdb ops = run_spec ops.
  Proof.
    unfold run_json, run_spec. apply (run_sim _ Rj); [intros; apply json_sim; auto|].
    intros t. simpl. exact I.
  Qed.
End Json.

(* ================= DbmDB and SqliteDB share the cache / dirty-set discipline ================= *)
Section PerRecord.
  Variable E : Type.
  Variable enc : trec -> E.
  Variable dec : E -> trec.
  Hypothesis Hcodec : codec_ok E enc dec.

  (* what a store (the dbm file / the table seen through the connection) and a cache hold together *)
  Definition absv (store : N -> option E) (cache : tmap) (t : N) : option trec :=
    match cache t with
    | Some r => Some r
    | None => match store t with Some e => Some (dec e) | None => None end
    end.
  (* every dirty id is cached; a cached id that is not dirty is a copy of the stored record *)
  Definition invv (store : N -> option E) (cache : tmap) (dirty : list N) : Prop :=
    (forall t, mem t dirty = true -> cache t <> None) /\
    (forall t r, cache t = Some r -> mem t dirty = false -> exists e, store t = Some e /\ r = dec e).

  Lemma flush_spec cache dirty : forall store,
    (forall t, mem t dirty = true -> cache t <> None) ->
    exists store', dbm_flush E enc cache dirty store = Some store' /\
      forall t, store' t = if mem t dirty then option_map enc (cache t) else store t.
  Proof.
    induction dirty as [|a r IH]; intros store Hd; simpl.
    - exists store. split; auto.
    - destruct (cache a) as [ra|] eqn:Ea.
      2:{ exfalso. apply (Hd a); auto. simpl. rewrite N.eqb_refl. reflexivity. }
      destruct (IH (upd store a (Some (enc ra)))) as [st' [H1 H2]].
      { intros t Ht. apply Hd. simpl. rewrite Ht. apply orb_true_r. }
      exists st'. split; auto. intros t. rewrite H2. unfold upd.
      destruct (mem t r) eqn:Em.
      + rewrite orb_true_r. reflexivity.
      + rewrite orb_false_r. destruct (N.eqb_spec t a) as [->|]; auto. rewrite Ea. reflexivity.
  Qed.

  (* after dump + constructor: the new store alone holds what store + cache held *)
  Lemma flush_abs store cache dirty store' :
    invv store cache dirty ->
    (forall t, store' t = if mem t dirty then option_map enc (cache t) else store t) ->
    forall t, orec_eq (absv store' empty t) (absv store cache t).
  Proof.
    intros [I1 I2] Hs t. unfold absv, empty. rewrite Hs.
    destruct (mem t dirty) eqn:Em.
    - destruct (cache t) as [r|] eqn:Ec; [|exfalso; apply (I1 t); auto].
      simpl. apply Hcodec.
    - destruct (cache t) as [r|] eqn:Ec.
      + destruct (I2 t r Ec Em) as [e [He ->]]. rewrite He. simpl. apply rec_eq_refl.
      + destruct (store t); simpl; auto. apply rec_eq_refl.
  Qed.

  Lemma invv_open store : invv store empty [].
  Proof. split; [intros t H; discriminate | intros t r H; discriminate]. Qed.

  (* loading a record into the cache (get on a miss in the cache, hit in the store) *)
  Lemma absv_load store cache t e t0 :
    cache t = None -> store t = Some e ->
    absv store (upd cache t (Some (dec e))) t0 = absv store cache t0.
  Proof.
    intros Hc Hs. unfold absv, upd. destruct (N.eqb_spec t0 t) as [->|]; auto.
    rewrite Hc, Hs. reflexivity.
  Qed.
  Lemma invv_load store cache dirty t e :
    cache t = None -> store t = Some e -> invv store cache dirty ->
    invv store (upd cache t (Some (dec e))) dirty.
  Proof.
    intros Hc Hs [I1 I2]. split.
    - intros t0 Hm. unfold upd. destruct (N.eqb t0 t); [discriminate | auto].
    - intros t0 r. unfold upd. destruct (N.eqb_spec t0 t) as [->|].
      + intros H _. inversion H; subst. exists e; auto.
      + apply I2.
  Qed.

  (* set: cache[t] := rset (old record or {}) k v; dirty += t *)
  Lemma set_sim store cache dirty t k v (m : spec) cache' :
    invv store cache dirty -> map_eq (absv store cache) m ->
    (forall t0, cache' t0 = if N.eqb t0 t then Some (rset (orempty (absv store cache t)) k v) else cache t0) ->
    invv store cache' (addset t dirty) /\
    map_eq (absv store cache') (upd m t (Some (rset (orempty (m t)) k v))).
  Proof.
    intros [I1 I2] HR Hc. split; [split|].
    - intros t0. rewrite mem_addset, Hc. destruct (N.eqb t0 t); simpl; [discriminate | apply I1].
    - intros t0 r. rewrite mem_addset, Hc. destruct (N.eqb t0 t); simpl; [discriminate | apply I2].
    - intros t0. unfold absv at 1. rewrite Hc. unfold upd. destruct (N.eqb_spec t0 t) as [->|].
      + simpl. apply rset_eq, orec_eq_orempty, HR.
      + apply HR.
  Qed.

  (* remove *)
  Lemma remove_sim store cache dirty t (m : spec) store' cache' dirty' :
    invv store cache dirty -> map_eq (absv store cache) m ->
    (forall t0, store' t0 = if N.eqb t0 t then None else store t0) ->
    (forall t0, cache' t0 = if N.eqb t0 t then None else cache t0) ->
    (forall t0, mem t0 dirty' = mem t0 dirty && negb (N.eqb t0 t)) ->
    invv store' cache' dirty' /\ map_eq (absv store' cache') (del m t).
  Proof.
    intros [I1 I2] HR Hs Hc Hd. split; [split|].
    - intros t0. rewrite Hd, Hc. destruct (N.eqb t0 t); simpl.
      + rewrite andb_false_r. discriminate.
      + rewrite andb_true_r. apply I1.
    - intros t0 r. rewrite Hd, Hc, Hs. destruct (N.eqb t0 t); simpl.
      + discriminate.
      + rewrite andb_true_r. apply I2.
    - intros t0. unfold absv, del. rewrite Hc, Hs. destruct (N.eqb t0 t); simpl; auto. apply HR.
  Qed.

  (* ---------------- DbmDB ---------------- *)
  Definition absd (s : dbmdb E) := absv (d_dbm E s) (d_db E s).
  Definition invd (s : dbmdb E) := invv (d_dbm E s) (d_db E s) (d_dirty E s).
  Definition Rd (s : dbmdb E) (m : spec) : Prop := invd s /\ map_eq (absd s) m.

  Lemma dbm_get_facts s t k :
    let s' := fst (dbm_get E dec s t k) in
    d_dbm E s' = d_dbm E s /\ d_dirty E s' = d_dirty E s /\
    (forall t0, absd s' t0 = absd s t0) /\ (invd s -> invd s') /\
    d_db E s' t = absd s t /\ (forall t0, t0 <> t -> d_db E s' t0 = d_db E s t0) /\
    snd (dbm_get E dec s t k) = rget (absd s t) k.
  Proof.
    unfold dbm_get, absd, invd. destruct (d_db E s t) as [r|] eqn:Ec.
    - simpl. unfold absv. rewrite Ec. splits; auto.
    - destruct (d_dbm E s t) as [e|] eqn:Es; simpl.
      + splits; auto.
        * intros t0. apply absv_load; auto.
        * apply invv_load; auto.
        * unfold absv. rewrite Ec, Es. apply upd_same.
        * intros t0 Hne. apply upd_other; auto.
        * unfold absv. rewrite Ec, Es. reflexivity.
      + unfold absv. rewrite Ec, Es. splits; auto.
  Qed.

  Lemma dbm_set_load s t k :
    (if has (d_db E s) t then s else fst (dbm_get E dec s t k)) = fst (dbm_get E dec s t k).
  Proof. unfold has, dbm_get. destruct (d_db E s t); reflexivity. Qed.

  Lemma dbm_sim s m o : Rd s m ->
    snd (dbm_step E enc dec false s o) = snd (spec_step m o) /\
    Rd (fst (dbm_step E enc dec false s o)) (fst (spec_step m o)).
  Proof.
    intros [HI HR]. destruct o as [t k v|t k|t|t| |]; simpl.
    - split; auto. unfold dbm_set. rewrite dbm_set_load.
      destruct (dbm_get_facts s t k) as (G1 & G2 & G3 & G4 & G5 & G6 & G7).
      set (s1 := fst (dbm_get E dec s t k)) in *.
      unfold Rd, invd, absd. simpl. rewrite G1.
      destruct (set_sim (d_dbm E s) (d_db E s1) (d_dirty E s1) t k v m
                  (setdefault_assign (d_db E s1) t empty k v)) as [S1 S2].
      + specialize (G4 HI). unfold invd in G4. rewrite G1 in G4. exact G4.
      + intros t0. specialize (G3 t0). unfold absd in G3. rewrite G1 in G3. rewrite G3. apply HR.
      + intros t0. rewrite setdefault_assign_spec. destruct (N.eqb t0 t); auto.
        do 2 f_equal. specialize (G3 t). unfold absd in G3. rewrite G1 in G3. rewrite G3, G5.
        unfold absd. destruct (absv (d_dbm E s) (d_db E s) t); reflexivity.
      + split; auto.
    - destruct (dbm_get_facts s t k) as (G1 & G2 & G3 & G4 & G5 & G6 & G7).
      split.
      + rewrite G7. f_equal. apply orec_eq_rget, HR.
      + split; auto. intros t0. rewrite G3. apply HR.
    - split; [|split; auto]. f_equal. unfold dbm_in.
      rewrite (has_is_some m), <- (orec_eq_is_some _ _ (HR t)).
      destruct HI as [I1 I2]. unfold absd, absv, has. specialize (I1 t). specialize (I2 t).
      destruct (d_db E s t) as [r|]; destruct (mem t (d_dirty E s)); simpl.
      + apply orb_true_r.
      + destruct (I2 r eq_refl eq_refl) as [e [He _]]. rewrite He. reflexivity.
      + exfalso. apply I1; auto.
      + destruct (d_dbm E s t); reflexivity.
    - split; auto. unfold Rd, invd, absd, dbm_remove. simpl.
      apply (remove_sim (d_dbm E s) (d_db E s) (d_dirty E s) t m); auto.
      + intros t0. apply del_if.
      + intros t0. apply del_if.
      + intros t0. apply mem_rem_if.
    - split; auto. split; [apply invv_open | intros t0; exact I].
    - destruct HI as [I1 I2].
      destruct (flush_spec (d_db E s) (d_dirty E s) (d_dbm E s) I1) as [st' [H1 H2]].
      unfold dbm_dump. rewrite H1. simpl. split; auto. split; [apply invv_open|].
      intros t0. eapply orec_eq_trans; [|apply HR].
      apply (flush_abs (d_dbm E s) (d_db E s) (d_dirty E s) st'); auto. split; auto.
  Qed.

  Lemma dbm_refines ops : run_dbm E enc dec false ops = run_spec ops.
  Proof.
    unfold run_dbm, run_spec. apply (run_sim _ Rd); [intros; apply dbm_sim; auto|].
    split; [apply invv_open | intros t; exact I].
  Qed.

  (* ---------------- SqliteDB ---------------- *)
  Definition absq (s : sqlitedb E) := absv (q_txn E s) (q_cache E s).
  Definition invq (s : sqlitedb E) := invv (q_txn E s) (q_cache E s) (q_dirty E s).
  Definition Rq (s : sqlitedb E) (m : spec) : Prop := invq s /\ map_eq (absq s) m.

  Lemma sq_get_facts s t k :
    let s' := fst (sq_get E dec false s t k) in
    (forall t0, absq s' t0 = absq s t0) /\ (invq s -> invq s') /\
    snd (sq_get E dec false s t k) = rget (absq s t) k.
  Proof.
    unfold sq_get, sq_data, absq, invq. destruct (q_cache E s t) as [r|] eqn:Ec.
    - simpl. unfold absv. rewrite Ec. splits; auto.
    - destruct (q_txn E s t) as [e|] eqn:Es; simpl.
      + splits; auto.
        * intros t0. apply absv_load; auto.
        * apply invv_load; auto.
        * unfold absv. rewrite Ec, Es. reflexivity.
      + unfold absv. rewrite Ec, Es. splits; auto.
  Qed.

  Lemma sq_sim s m o : Rq s m ->
    snd (sq_step E enc dec false false s o) = snd (spec_step m o) /\
    Rq (fst (sq_step E enc dec false false s o)) (fst (spec_step m o)).
  Proof.
    intros [HI HR]. destruct o as [t k v|t k|t|t| |]; simpl.
    - split; auto. unfold Rq, invq, absq, sq_set. simpl.
      apply (set_sim (q_txn E s) (q_cache E s) (q_dirty E s) t k v m); auto.
      intros t0. rewrite setdefault_assign_spec. destruct (N.eqb t0 t); auto.
      do 2 f_equal. unfold absv, sq_data.
      destruct (q_cache E s t); auto.
    - destruct (sq_get_facts s t k) as (G3 & G4 & G7).
      split.
      + rewrite G7. f_equal. apply orec_eq_rget, HR.
      + split; auto. intros t0. rewrite G3. apply HR.
    - split; [|split; auto]. f_equal. unfold sq_in.
      rewrite (has_is_some m), <- (orec_eq_is_some _ _ (HR t)).
      unfold absq, absv, has.
      destruct (q_cache E s t); auto. destruct (q_txn E s t); reflexivity.
    - split; auto. unfold Rq, invq, absq, sq_remove. simpl.
      apply (remove_sim (q_txn E s) (q_cache E s) (q_dirty E s) t m); auto.
      + intros t0. apply del_if.
      + intros t0. apply mem_rem_if.
    - split; auto. split; [apply invv_open | intros t0; exact I].
    - destruct HI as [I1 I2].
      destruct (flush_spec (q_cache E s) (q_dirty E s) (q_txn E s) I1) as [st' [H1 H2]].
      unfold sq_dump. rewrite H1. simpl. split; auto. split; [apply invv_open|].
      intros t0. eapply orec_eq_trans; [|apply HR].
      apply (flush_abs (q_txn E s) (q_cache E s) (q_dirty E s) st'); auto. split; auto.
  Qed.

  Lemma sqlite_refines ops : run_sqlite E enc dec false false ops = run_spec ops.
  Proof.
    unfold run_sqlite, run_spec. apply (run_sim _ Rq); [intros; apply sq_sim; auto|].
    split; [apply invv_open | intros t; exact I].
  Qed.
End PerRecord.

(* the identity codec satisfies the hypotheses *)
Lemma id_codec_ok : codec_ok trec idr idr.
Proof. intros r k. reflexivity. Qed.
Lemma id_dbcodec_ok : dbcodec_ok tmap idm idm.
Proof. intros m t. apply orec_eq_refl. Qed.

(* ---------- consequences for all three backends at once (statements repeated in Properties/C07.v) ---------- *)
Lemma no_exception : forall (E F : Type) enc dec encdb decdb,
  codec_ok E enc dec -> dbcodec_ok F encdb decdb ->
  forall ops,
    ~ In OExc (run_json F encdb decdb ops) /\ ~ In OExc (run_dbm E enc dec false ops) /\
    ~ In OExc (run_sqlite E enc dec false false ops).
Proof.
  intros E F enc dec encdb decdb H1 H2 ops.
  rewrite (json_refines F encdb decdb H2), (dbm_refines E enc dec H1), (sqlite_refines E enc dec H1).
  assert (H : forall ops m, ~ In OExc (run spec_step m ops)).
  { clear. induction ops as [|o r IH]; intros m; simpl; [tauto|].
    intros [H|H]; [destruct o; discriminate | exact (IH _ H)]. }
  repeat split; apply H.
Qed.

Lemma backends_indistinguishable : forall (E F : Type) enc dec encdb decdb,
  codec_ok E enc dec -> dbcodec_ok F encdb decdb ->
  forall ops,
    run_json F encdb decdb ops = run_dbm E enc dec false ops /\
    run_dbm E enc dec false ops = run_sqlite E enc dec false false ops.
Proof.
  intros E F enc dec encdb decdb H1 H2 ops.
  rewrite (json_refines F encdb decdb H2), (dbm_refines E enc dec H1), (sqlite_refines E enc dec H1).
  split; reflexivity.
Qed.

Lemma removed_never_reappears : forall (E F : Type) enc dec encdb decdb,
  codec_ok E enc dec -> dbcodec_ok F encdb decdb ->
  forall pre mid t k, no_set t mid ->
    let after_remove := pre ++ Remove t :: mid in
    let after_remove_all := pre ++ RemoveAll :: mid in
    let absent := [OVal None; OBool false] in
    (run_json F encdb decdb (pre ++ Remove t :: mid ++ [Get t k; In_ t]) = run_json F encdb decdb after_remove ++ absent /\
     run_dbm E enc dec false (pre ++ Remove t :: mid ++ [Get t k; In_ t]) = run_dbm E enc dec false after_remove ++ absent /\
     run_sqlite E enc dec false false (pre ++ Remove t :: mid ++ [Get t k; In_ t]) = run_sqlite E enc dec false false after_remove ++ absent) /\
    (run_json F encdb decdb (pre ++ RemoveAll :: mid ++ [Get t k; In_ t]) = run_json F encdb decdb after_remove_all ++ absent /\
     run_dbm E enc dec false (pre ++ RemoveAll :: mid ++ [Get t k; In_ t]) = run_dbm E enc dec false after_remove_all ++ absent /\
     run_sqlite E enc dec false false (pre ++ RemoveAll :: mid ++ [Get t k; In_ t]) = run_sqlite E enc dec false false after_remove_all ++ absent).
Proof.
  intros E F enc dec encdb decdb H1 H2 pre mid t k Hn. cbv zeta.
  rewrite !(json_refines F encdb decdb H2), !(dbm_refines E enc dec H1), !(sqlite_refines E enc dec H1).
  repeat split; first [exact (spec_removed_stays_absent pre mid t k Hn) | exact (spec_remove_all_stays_absent pre mid t k Hn)].
Qed.

Lemma reopen_preserves_contents : forall (E F : Type) enc dec encdb decdb,
  codec_ok E enc dec -> dbcodec_ok F encdb decdb ->
  forall ops rest,
    (exists a b, run_json F encdb decdb (ops ++ rest) = a ++ b /\
                 run_json F encdb decdb (ops ++ Reopen :: rest) = a ++ OUnit :: b /\ length a = length ops) /\
    (exists a b, run_dbm E enc dec false (ops ++ rest) = a ++ b /\
                 run_dbm E enc dec false (ops ++ Reopen :: rest) = a ++ OUnit :: b /\ length a = length ops) /\
    (exists a b, run_sqlite E enc dec false false (ops ++ rest) = a ++ b /\
                 run_sqlite E enc dec false false (ops ++ Reopen :: rest) = a ++ OUnit :: b /\ length a = length ops).
Proof.
  intros E F enc dec encdb decdb H1 H2 ops rest.
  rewrite !(json_refines F encdb decdb H2), !(dbm_refines E enc dec H1), !(sqlite_refines E enc dec H1).
  repeat split; exact (spec_reopen_invisible ops rest).
Qed.


(* ================= JsonDB over the text layer (sessions under different locales) ================= *)
Lemma run_sim2 {S1 S2} (step1 : S1 -> op -> S1 * obs) (step2 : S2 -> op -> S2 * obs) (R : S1 -> S2 -> Prop) :
  (forall a b o, R a b -> snd (step1 a o) = snd (step2 b o) /\ R (fst (step1 a o)) (fst (step2 b o))) ->
  forall ops a b, R a b -> run step1 a ops = run step2 b ops.
Proof.
  intros Hstep. induction ops as [|o r IH]; intros a b HR; simpl; auto.
  destruct (Hstep a b o HR) as [H1 H2]. rewrite H1. f_equal. apply IH. exact H2.
Qed.

Section JsonTextP.
  Variable F : Type.
  Variable encdb : tmap -> F.
  Variable decdb : F -> tmap.
  Variable B : Type.
  Variable L : Type.
  Variable tenc : L -> F -> option B.
  Variable tdec : L -> B -> option F.
  Variable trunc : B.
  Variable locs : nat -> L.
  Hypothesis Htext : text_ok F encdb B L tenc tdec.

  (* the answers and the next dict of a JsonDB object depend on its dict only *)
  Lemma json_step_db (a b : jsondb F) o : j_db F a = j_db F b ->
    snd (json_step F encdb decdb a o) = snd (json_step F encdb decdb b o) /\
    j_db F (fst (json_step F encdb decdb a o)) = j_db F (fst (json_step F encdb decdb b o)).
  Proof.
    intros H. destruct a as [fa da], b as [fb db]. simpl in H. subst db.
    destruct o as [t k v|t k|t|t| |]; simpl; auto.
  Qed.

  Lemma jsonl_sim (a : jsondb_l F B) (b : jsondb F) o : j_db F (jl_obj F B a) = j_db F b ->
    snd (jsonl_step F encdb decdb B L tenc tdec trunc locs a o) = snd (json_step F encdb decdb b o) /\
    j_db F (jl_obj F B (fst (jsonl_step F encdb decdb B L tenc tdec trunc locs a o))) =
    j_db F (fst (json_step F encdb decdb b o)).
  Proof.
    intros H. destruct o as [t k v|t k|t|t| |];
      try (exact (json_step_db (jl_obj F B a) b _ H)).
    simpl. destruct (Htext (j_db F (jl_obj F B a)) (locs (jl_n F B a)) (locs (S (jl_n F B a)))) as [x [H1 H2]].
    rewrite H1, H2. simpl. rewrite H. auto.
  Qed.

  Lemma json_text_refines_json ops :
    run_json_text F encdb decdb B L tenc tdec trunc locs ops = run_json F encdb decdb ops.
  Proof.
    unfold run_json_text, run_json.
    apply (run_sim2 _ _ (fun a b => j_db F (jl_obj F B a) = j_db F b)).
    - intros a b o H. apply jsonl_sim. exact H.
    - reflexivity.
  Qed.
End JsonTextP.

Lemma json_text_refines : forall (F B L : Type) encdb decdb (tenc : L -> F -> option B) tdec trunc,
  dbcodec_ok F encdb decdb -> text_ok F encdb B L tenc tdec ->
  forall (locs : nat -> L) ops,
    run_json_text F encdb decdb B L tenc tdec trunc locs ops = run_spec ops /\
    ~ In OExc (run_json_text F encdb decdb B L tenc tdec trunc locs ops).
Proof.
  intros F B L encdb decdb tenc tdec trunc H1 H2 locs ops.
  rewrite (json_text_refines_json F encdb decdb B L tenc tdec trunc locs H2 ops).
  rewrite (json_refines F encdb decdb H1). split; auto.
  assert (H : forall ops m, ~ In OExc (run spec_step m ops)).
  { clear. induction ops as [|o r IH]; intros m; simpl; [tauto|].
    intros [H|H]; [destruct o; discriminate | exact (IH _ H)]. }
  apply H.
Qed.

(* the identity text layer satisfies the hypothesis *)
Lemma id_text_ok : text_ok tmap idm tmap unit (fun _ f => Some f) (fun _ b => Some b).
Proof. intros m l l'. exists (idm m). split; reflexivity. Qed.
