(* DeclTableP.v -- the table the dispatcher works on has exactly the edges the dodo file declares, task by task
   (Model/DeclTable.v); hence the cycle diagnostics of the serial runner are never raised over a declaration
   whose graph is acyclic. *)
From DoitV Require Import Base Dispatch Runner DeclTable DispatchP DispatchInv RunnerTr RunnerP AncP HoldP.
Open Scope N_scope.

Lemma fold_add_if_new_In (l : list name) : forall acc x, In x (fold_left add_if_new l acc) <-> In x acc \/ In x l.
Proof.
  induction l as [|a l IH]; intros acc x; simpl; [tauto|].
  rewrite IH. unfold add_if_new. destruct (mem a acc) eqn:E.
  - apply mem_In in E. split; intros H; intuition (subst; auto).
  - rewrite in_app_iff. simpl. split; intros H; intuition auto.
Qed.

Section D.
Variable dd : name -> option dtask.

Lemma get_task_decl k : get_task (decl_table dd) k = match dd k with Some d => finish_dtask d | None => empty_task end.
Proof. unfold get_task, decl_table. destruct (dd k); reflexivity. Qed.

Lemma setup_row_In (d : dtask) y : In y (t_setup (finish_dtask d)) <-> In y (d_setup d) \/ In y (d_getargs d).
Proof.
  unfold finish_dtask, t_setup. rewrite in_app_iff, fold_add_if_new_In, filter_In. split.
  - intros [H|[H|[H _]]]; auto. destruct H.
  - intros [H|H]; auto. destruct (mem y (d_setup d)) eqn:E.
    + left. apply mem_In. exact E.
    + right. right. split; [exact H|]. reflexivity.
Qed.

(* the row of task k has the edges k declares, no other *)
Lemma decl_row_edges k y :
  In y (static_deps (decl_table dd) k) <-> In y (d_direct (get_dtask dd k)).
Proof.
  unfold static_deps, get_dtask, d_direct. rewrite get_task_decl. destruct (dd k) as [d|].
  - rewrite !in_app_iff, setup_row_In. simpl t_task_dep. simpl t_calc_dep.
    rewrite !fold_add_if_new_In, in_app_iff. simpl. tauto.
  - simpl. tauto.
Qed.

Lemma decl_calc_dep_In k c : In c (t_calc_dep (get_task (decl_table dd) k)) <-> In c (d_calc_dep (get_dtask dd k)).
Proof.
  unfold get_dtask. rewrite get_task_decl. destruct (dd k) as [d|]; simpl; [|tauto].
  rewrite fold_add_if_new_In. simpl. tauto.
Qed.

Lemma decl_new_calc_nil c : t_calc_new_calc (get_task (decl_table dd) c) = [].
Proof. rewrite get_task_decl. destruct (dd c); reflexivity. Qed.

Lemma decl_eff_calc t c : eff_calc (decl_table dd) t c -> In c (d_calc_dep (get_dtask dd t)).
Proof.
  induction 1 as [c H|c c' _ _ H].
  - apply decl_calc_dep_In. exact H.
  - rewrite decl_new_calc_nil in H. destruct H.
Qed.

Lemma decl_calc_results c y :
  In y (calc_results (decl_table dd) c) <-> In y (d_ret_task (get_dtask dd c) ++ d_ret_file (get_dtask dd c)).
Proof.
  unfold calc_results, get_dtask. rewrite get_task_decl. destruct (dd c) as [d|]; simpl.
  - rewrite app_nil_r. tauto.
  - tauto.
Qed.

(* effective dependencies of the table = declared dependencies *)
Lemma decl_eff_dep_iff t y : eff_dep (decl_table dd) t y <-> decl_dep dd t y.
Proof.
  split.
  - intros [H|c Hc H].
    + apply dd_direct. apply decl_row_edges. exact H.
    + apply (dd_returned dd t y c); [apply decl_eff_calc; exact Hc|apply decl_calc_results; exact H].
  - intros [H|c Hc H].
    + apply ed_static. apply decl_row_edges. exact H.
    + apply (ed_dyn (decl_table dd) t y c); [apply ec_static; apply decl_calc_dep_In; exact Hc|apply decl_calc_results; exact H].
Qed.

Lemma decl_reach_iff x y : reach (decl_table dd) x y <-> decl_reach dd x y.
Proof.
  split.
  - induction 1 as [x y H|x y z H _ IH].
    + apply dr_step. apply decl_eff_dep_iff. exact H.
    + apply (dr_trans dd x y z); [apply decl_eff_dep_iff; exact H|exact IH].
  - induction 1 as [x y H|x y z H _ IH].
    + apply re_step. apply decl_eff_dep_iff. exact H.
    + apply (re_trans (decl_table dd) x y z); [apply decl_eff_dep_iff; exact H|exact IH].
Qed.

Lemma decl_acyclic_no_diagnostic wake_rank calc_rank continue_ always fuel sel :
  (forall k, ~ decl_reach dd k k) ->
  let tr := fst (run_serial (decl_table dd) wake_rank calc_rank continue_ always fuel sel) in
  ~ In EHoldError tr /\ forall p, ~ In (ECycleError p) tr.
Proof.
  intros Hac. apply serial_acyclic_no_diagnostic. intros k Hk. apply (Hac k). apply decl_reach_iff. exact Hk.
Qed.

Lemma decl_diagnostic_real wake_rank calc_rank continue_ always fuel sel :
  let tr := fst (run_serial (decl_table dd) wake_rank calc_rank continue_ always fuel sel) in
  (In EHoldError tr \/ exists p, In (ECycleError p) tr) -> exists k, decl_reach dd k k.
Proof.
  cbv zeta. intros [H|[p H]].
  - destruct (serial_hold_error_is_real _ _ _ _ _ fuel sel H) as [k Hk]. exists k. apply decl_reach_iff. exact Hk.
  - destruct (serial_cycle_error_is_real _ _ _ _ _ fuel sel p H) as [k Hk]. exists k. apply decl_reach_iff. exact Hk.
Qed.

End D.
