(* TermP.v -- liveness of the serial runner model: over a finite task table the run terminates.
   With enough fuel [serial] never answers StopFuel, whatever the graph (cycles end through the two
   cycle diagnostics), the selection, the flags and the set-order oracles; dependencies growing at run
   time through calc_dep results (_process_calc_dep_results) included.

   Main results (end of file): serial_terminates (the target statement), serial_terminates_explicit
   (same with the explicit bound [enough_fuel]), run_serial_exit_code_not_99, serial_acyclic_completes;
   inside Section T: gen_step_terminates, disp_run_terminates, serial_terminates_in.

   Method: a potential PHI = NN + QQ on the dispatcher state that strictly decreases at every recursive
   call of gen_step (NN) and of disp_run (PHI) and at every iteration of serial (PHI), and never
   increases in _update_waiting / select_task / process_task_result.
   Ud is a duplicate-free list containing the selection, the names of the table and every name in a list
   of a task of the table; M bounds the length of every t_calc_new_task.
     NN d  = sum over u in Ud of NW u (node_of d u)         (a name without a node counts as its fresh node)
     NW u nd = 12 |pend_task| + (12M+12) |pend_calc| + 4 |wait_run| + (12M+4) |wait_calc|
               + 12 credit(all_task) + (12M+12) credit(all_calc) + ph u nd
     credit l = number of names of Ud not in l   (what a calc result can still add: implicit task_dep and
               calc_dep are added only if new; the explicit task_dep of one result are at most M)
     ph u nd  = position of the program counter: 6+9s (+3 when nothing is pending) at the top of the loop,
               8+9s+5|rest|+(12M+4)|calcs|+9|tks| in the calc_dep loop, 7+9s+5|rest|+4|tks| in the task_dep
               loop, 6+9s / 5+9s / 4+9s / 2+5|rest|+4s / 1 / 0 afterwards   (s = number of setup tasks of u)
     QQ d  = 4 |ready| + 4 |tasks_to_run| + 3 if a node is current
   Invariants used: CL (every name met is in Ud; ready/current nodes exist), and the wait-graph invariant
   HI / PS of HoldP.v (a node in `waiting` waits for something; waiting_select is never set in a serial run):
   a wake-up is paid by the removal of an entry of a wait list. *)
From DoitV Require Import Base Dispatch Runner DispatchP DispatchInv RunnerTr RunnerP AncP HoldP.
Open Scope nat_scope.

Ltac nlia := unfold name in *; lia.

(* ---------- lists ---------- *)
Lemma filter_len_le {A} (f : A -> bool) (l : list A) : length (filter f l) <= length l.
Proof. induction l as [|x l IH]; simpl; auto. destruct (f x); simpl; lia. Qed.

Lemma NoDup_snoc (l : list name) x : NoDup l -> ~ In x l -> NoDup (l ++ [x]).
Proof.
  induction l as [|y l IH]; intros H Hn; simpl.
  - constructor; [intros []|constructor].
  - inversion H; subst. constructor.
    + rewrite in_app_iff. simpl. intros [A|[A|[]]]; [contradiction|]. apply Hn. left. auto.
    + apply IH; auto. intros A. apply Hn. right. exact A.
Qed.

Lemma rem_length_le x l : length (rem x l) <= length l.
Proof. unfold rem. apply filter_len_le. Qed.

Lemma rem_length_lt x l : In x l -> length (rem x l) + 1 <= length l.
Proof.
  unfold rem. induction l as [|y l IH]; intros H; [destruct H|]. cbn [filter].
  destruct (N.eqb_spec x y) as [->|Hne]; cbn [negb length].
  - match goal with |- length (filter ?f ?l0) + 1 <= _ => pose proof (filter_len_le f l0) end. unfold name in *. lia.
  - destruct H as [H|H]; [congruence|]. apply IH in H. lia.
Qed.

Lemma addset_length x l : length (addset x l) <= length l + 1.
Proof. unfold addset. destruct (mem x l); [lia|]. rewrite app_length. simpl. lia. Qed.

Lemma insert_by_length rank x l : length (insert_by rank x l) = S (length l).
Proof. induction l as [|y r IH]; simpl; auto. destruct (N.ltb (rank x) (rank y)); simpl; auto. Qed.
Lemma sort_by_length rank l : length (sort_by rank l) = length l.
Proof. induction l as [|y r IH]; simpl; auto. rewrite insert_by_length. auto. Qed.

Lemma sort_by_incl rank l (U : list name) : incl l U -> incl (sort_by rank l) U.
Proof. intros H x Hx. apply H. apply sort_by_In in Hx. exact Hx. Qed.

(* sums over a duplicate-free list of names *)
Fixpoint sumN (f : name -> nat) (l : list name) : nat :=
  match l with [] => 0 | x :: r => f x + sumN f r end.

Lemma sumN_ext f g l : (forall z, In z l -> f z = g z) -> sumN f l = sumN g l.
Proof.
  induction l as [|x r IH]; intros H; simpl; auto.
  rewrite (H x (or_introl eq_refl)), IH; auto. intros z Hz. apply H. right. exact Hz.
Qed.

Lemma sumN_upd f g l k : NoDup l -> In k l -> (forall z, z <> k -> g z = f z) ->
  sumN g l + f k = sumN f l + g k.
Proof.
  induction l as [|x r IH]; intros Hnd Hin Ho; [destruct Hin|].
  inversion Hnd as [|? ? Hx Hr]; subst. simpl. destruct Hin as [->|Hin].
  - rewrite (sumN_ext g f r); [lia|]. intros z Hz. apply Ho. intros ->. contradiction.
  - rewrite (Ho x) by (intros ->; contradiction). specialize (IH Hr Hin Ho). lia.
Qed.

Lemma sumN_In_le f l k : In k l -> f k <= sumN f l.
Proof.
  induction l as [|x r IH]; intros H; [destruct H|]. simpl. destruct H as [->|H]; [lia|]. apply IH in H. lia.
Qed.

Lemma fain (l : list name) : forall acc x, In x (fold_left add_if_new l acc) <-> In x acc \/ In x l.
Proof.
  induction l as [|a l IH]; intros acc x; simpl; [tauto|].
  rewrite IH. unfold add_if_new. destruct (mem a acc) eqn:E.
  - apply mem_In in E. split; intros H; [destruct H as [H|H]; auto|destruct H as [H|[H|H]]; subst; auto].
  - rewrite in_app_iff. simpl. tauto.
Qed.

Section T.
Variable tasks : name -> option task.
Variable Ud : list name.      (* the finite universe of names *)
Variable M : nat.             (* bound of the explicit task_dep a calc result brings *)
Variable wake_rank : name -> name -> N.
Variable calc_rank : name -> N.
Variable continue_ always : bool.

Notation get_task := (get_task tasks).
Notation node_of := (node_of tasks).
Notation process_calc := (process_calc tasks).
Notation add_wait_one := (add_wait_one tasks).
Notation add_wait_run := (add_wait_run tasks).
Notation gen_node := (gen_node tasks).
Notation set_pc := (set_pc tasks).
Notation gen_step := (gen_step tasks calc_rank).
Notation disp_run := (disp_run tasks calc_rank).
Notation next_from_torun := (next_from_torun tasks).
Notation update_waiting := (update_waiting tasks wake_rank).

Definition tclosed : Prop := forall k,
  incl (t_task_dep (get_task k)) Ud /\ incl (t_setup (get_task k)) Ud /\ incl (t_calc_dep (get_task k)) Ud /\
  incl (t_calc_new_task (get_task k)) Ud /\ incl (t_calc_new_impl (get_task k)) Ud /\
  incl (t_calc_new_calc (get_task k)) Ud.

Hypothesis HND : NoDup Ud.
Hypothesis HTC : tclosed.
Hypothesis HM : forall c, length (t_calc_new_task (get_task c)) <= M.

(* ---------- credits: the names of the universe a list does not contain yet ---------- *)
Definition credit (l : list name) : nat := length (filter (fun u => negb (mem u l)) Ud).

Lemma filter_length_mono {A} (f g : A -> bool) (l : list A) :
  (forall x, f x = true -> g x = true) -> length (filter f l) <= length (filter g l).
Proof.
  intros H. induction l as [|x l IH]; simpl; auto.
  destruct (f x) eqn:Ef.
  - rewrite (H x Ef). simpl. lia.
  - destruct (g x); simpl; lia.
Qed.

Lemma filter_length_strict {A} (f g : A -> bool) (l : list A) x :
  (forall y, f y = true -> g y = true) -> In x l -> f x = false -> g x = true ->
  length (filter f l) + 1 <= length (filter g l).
Proof.
  intros H. induction l as [|y l IH]; intros Hin Hf Hg; [destruct Hin|]. simpl.
  destruct Hin as [->|Hin].
  - rewrite Hf, Hg. simpl. pose proof (filter_length_mono f g l H). lia.
  - specialize (IH Hin Hf Hg). destruct (f y) eqn:Ef.
    + rewrite (H y Ef). simpl. lia.
    + destruct (g y); simpl; lia.
Qed.

Lemma credit_incl l l' : incl l l' -> credit l' <= credit l.
Proof.
  intros H. unfold credit. apply filter_length_mono. intros x Hx.
  apply negb_true_iff in Hx. apply negb_true_iff. apply mem_false_In in Hx. apply mem_false_In.
  intros Hin. apply Hx. apply H. exact Hin.
Qed.

Lemma credit_snoc l x : In x Ud -> ~ In x l -> credit (l ++ [x]) + 1 <= credit l.
Proof.
  intros Hu Hn. unfold credit. apply (filter_length_strict _ _ Ud x); auto.
  - intros y Hy. apply negb_true_iff in Hy. apply negb_true_iff. apply mem_false_In in Hy. apply mem_false_In.
    intros Hin. apply Hy. apply in_or_app. left. exact Hin.
  - apply negb_false_iff. apply mem_In. apply in_or_app. right. left. reflexivity.
  - apply negb_true_iff. apply mem_false_In. exact Hn.
Qed.

Lemma fold_add_if_new_credit l : forall acc, incl l Ud ->
  length (fold_left add_if_new l acc) + credit (fold_left add_if_new l acc) <= length acc + credit acc.
Proof.
  induction l as [|x l IH]; intros acc Hl; simpl; [lia|].
  assert (Hl' : incl l Ud) by (intros z Hz; apply Hl; right; exact Hz).
  specialize (IH (add_if_new acc x) Hl'). unfold add_if_new in *. destruct (mem x acc) eqn:E; [exact IH|].
  apply mem_false_In in E. pose proof (credit_snoc acc x (Hl x (or_introl eq_refl)) E) as Hc.
  rewrite app_length in IH. simpl in IH. lia.
Qed.

Lemma fold_add_if_new_length l : forall acc, length acc <= length (fold_left add_if_new l acc).
Proof.
  induction l as [|x l IH]; intros acc; simpl; [lia|].
  specialize (IH (add_if_new acc x)). unfold add_if_new in *. destruct (mem x acc); auto.
  rewrite app_length in IH. simpl in IH. lia.
Qed.

Lemma fold_add_if_new_NoDup l : forall acc, NoDup acc -> NoDup (fold_left add_if_new l acc).
Proof.
  induction l as [|x l IH]; intros acc H; simpl; auto. apply IH. unfold add_if_new.
  destruct (mem x acc) eqn:E; auto. apply mem_false_In in E.
  apply NoDup_snoc; auto.
Qed.

Lemma credit_app_new l : forall acc, NoDup l -> incl l Ud -> (forall x, In x l -> ~ In x acc) ->
  length l + credit (acc ++ l) <= credit acc.
Proof.
  induction l as [|x l IH]; intros acc Hn Hi Hd.
  - rewrite app_nil_r. simpl. lia.
  - inversion Hn as [|? ? Hx Hl]; subst.
    assert (E : acc ++ x :: l = (acc ++ [x]) ++ l) by (rewrite <- app_assoc; reflexivity).
    rewrite E. specialize (IH (acc ++ [x]) Hl).
    assert (H1 : incl l Ud) by (intros z Hz; apply Hi; right; exact Hz).
    assert (H2 : forall y, In y l -> ~ In y (acc ++ [x])).
    { intros y Hy Hin. apply in_app_iff in Hin. destruct Hin as [Hin|[<-|[]]].
      - apply (Hd y); [right; exact Hy|exact Hin].
      - contradiction. }
    specialize (IH H1 H2).
    pose proof (credit_snoc acc x (Hi x (or_introl eq_refl)) (Hd x (or_introl eq_refl))). simpl. lia.
Qed.

(* ---------- the potential ---------- *)
Definition lp (nd : node) : nat := if is_nil (n_pend_task nd) && is_nil (n_pend_calc nd) then 3 else 0.
Definition su (u : name) : nat := length (t_setup (get_task u)).
Definition ph (u : name) (nd : node) : nat :=
  match n_pc nd with
  | PLoop => 6 + 9 * su u + lp nd
  | PCalc rest calcs tks => 8 + 9 * su u + 5 * length rest + (12 * M + 4) * length calcs + 9 * length tks
  | PTask rest tks => 7 + 9 * su u + 5 * length rest + 4 * length tks
  | PSelf => 6 + 9 * su u
  | PAfterSelf => 5 + 9 * su u
  | PAfterSelWait => 4 + 9 * su u
  | PSetup rest => 2 + 5 * length rest + 4 * su u
  | PSetupWaited => 1
  | PDone => 0 end.

(* weight of the node of name u *)
Definition NW (u : name) (nd : node) : nat :=
  12 * length (n_pend_task nd) + (12 * M + 12) * length (n_pend_calc nd) +
  4 * length (n_wrun nd) + (12 * M + 4) * length (n_wcalc nd) +
  12 * credit (n_all_task nd) + (12 * M + 12) * credit (n_all_calc nd) + ph u nd.

Definition NN (d : dstate) : nat := sumN (fun u => NW u (node_of d u)) Ud.
Definition QQ (d : dstate) : nat :=
  4 * length (d_ready d) + 4 * length (d_torun d) + match d_cur d with Some _ => 3 | None => 0 end.
Definition PHI (d : dstate) : nat := NN d + QQ d.

Lemma NN_set_node d k nd : In k Ud -> NN (set_node d k nd) + NW k (node_of d k) = NN d + NW k nd.
Proof.
  intros Hk. unfold NN.
  pose proof (sumN_upd (fun u => NW u (node_of d u)) (fun u => NW u (node_of (set_node d k nd) u)) Ud k HND Hk) as H.
  cbv beta in H. rewrite (node_of_set_same tasks) in H. apply H.
  intros z Hz. rewrite (node_of_set_other tasks) by exact Hz. reflexivity.
Qed.

Lemma NN_set_node_le d k nd c : In k Ud -> NW k nd <= NW k (node_of d k) + c -> NN (set_node d k nd) <= NN d + c.
Proof. intros Hk H. pose proof (NN_set_node d k nd Hk). lia. Qed.
Lemma NN_set_node_dec d k nd c : In k Ud -> NW k nd + c <= NW k (node_of d k) -> NN (set_node d k nd) + c <= NN d.
Proof. intros Hk H. pose proof (NN_set_node d k nd Hk). lia. Qed.

(* ---------- closure: every name the dispatcher can meet is in the universe ---------- *)
Definition pcin (p : pc) : Prop :=
  match p with
  | PCalc r c t => incl r Ud /\ incl c Ud /\ incl t Ud
  | PTask r t => incl r Ud /\ incl t Ud
  | PSetup r => incl r Ud
  | _ => True end.
Definition nin (nd : node) : Prop :=
  incl (n_pend_task nd) Ud /\ incl (n_pend_calc nd) Ud /\ incl (n_wme nd) Ud /\ pcin (n_pc nd).
Record CL (d : dstate) : Prop := {
  cl_n : forall k, nin (node_of d k);
  cl_r : forall x, In x (d_ready d) -> In x Ud /\ exn d x;
  cl_t : incl (d_torun d) Ud;
  cl_c : forall x, d_cur d = Some x -> In x Ud /\ exn d x }.

Lemma nin_new pa k : nin (new_node tasks pa k).
Proof.
  destruct (HTC k) as (A & B & C & _). unfold nin; simpl. repeat split; auto. intros x [].
Qed.

Lemma exn_set d k nd z : exn d z -> exn (set_node d k nd) z.
Proof.
  unfold exn. intros H. destruct (N.eqb_spec z k) as [->|Hne].
  - rewrite (nodes_set_same). discriminate.
  - rewrite (nodes_set_other) by auto. exact H.
Qed.
Lemma exn_set_same d k nd : exn (set_node d k nd) k.
Proof. unfold exn. rewrite nodes_set_same. discriminate. Qed.

Lemma CL_set_node d k nd : CL d -> nin nd -> CL (set_node d k nd).
Proof.
  intros [A B C D] H. split; simpl; auto.
  - intros z. destruct (N.eqb_spec z k) as [->|Hne].
    + rewrite (node_of_set_same tasks). exact H.
    + rewrite (node_of_set_other tasks) by auto. apply A.
  - intros x Hx. destruct (B x Hx). split; auto. apply exn_set. auto.
  - intros x Hx. destruct (D x Hx). split; auto. apply exn_set. auto.
Qed.

(* the queues *)
Definition sameq (d d' : dstate) : Prop :=
  d_ready d' = d_ready d /\ d_waiting d' = d_waiting d /\ d_torun d' = d_torun d /\ d_cur d' = d_cur d.
Lemma sameq_refl d : sameq d d. Proof. repeat split. Qed.
Lemma sameq_trans a b c : sameq a b -> sameq b c -> sameq a c.
Proof. unfold sameq. intuition congruence. Qed.
Lemma sameq_set_node d k nd : sameq d (set_node d k nd). Proof. repeat split. Qed.
Lemma QQ_sameq d d' : sameq d d' -> QQ d' = QQ d.
Proof. intros (A & B & C & D). unfold QQ. rewrite A, C, D. reflexivity. Qed.

(* ---------- calc results ---------- *)
Lemma lp_app nd nd' a b : n_pend_task nd' = n_pend_task nd ++ a -> n_pend_calc nd' = n_pend_calc nd ++ b -> lp nd' <= lp nd.
Proof.
  unfold lp. intros -> ->. destruct (n_pend_task nd), (n_pend_calc nd), a, b; simpl; lia.
Qed.

Lemma process_calc_NW u nd c s : NW u (process_calc nd c s) <= NW u nd + 12 * M.
Proof.
  unfold Dispatch.process_calc. destruct (calc_values_visible s); [|lia].
  set (t := get_task c).
  set (all1 := n_all_task nd ++ t_calc_new_task t).
  set (impl := fold_left add_if_new (t_calc_new_impl t) all1).
  set (newc := filter (fun x => negb (mem x (n_all_calc nd))) (fold_left add_if_new (t_calc_new_calc t) [])).
  cbv zeta.
  destruct (HTC c) as (_ & _ & _ & T4 & T5 & T6). fold t in T4, T5, T6.
  assert (Ha : length impl + credit impl <= length (n_all_task nd) + length (t_calc_new_task t) + credit (n_all_task nd)).
  { pose proof (fold_add_if_new_credit (t_calc_new_impl t) all1 T5) as H. fold impl in H.
    assert (credit all1 <= credit (n_all_task nd)) by (apply credit_incl; unfold all1; apply incl_appl, incl_refl).
    assert (length all1 = length (n_all_task nd) + length (t_calc_new_task t)) by (unfold all1; apply app_length).
    nlia. }
  assert (Hb : length (n_all_task nd) + length (t_calc_new_task t) <= length impl).
  { pose proof (fold_add_if_new_length (t_calc_new_impl t) all1) as H. fold impl in H.
    assert (length all1 = length (n_all_task nd) + length (t_calc_new_task t)) by (unfold all1; apply app_length).
    nlia. }
  assert (Hd : length newc + credit (n_all_calc nd ++ newc) <= credit (n_all_calc nd)).
  { apply credit_app_new.
    - unfold newc. apply NoDup_filter. apply fold_add_if_new_NoDup. apply NoDup_nil.
    - intros x Hx. unfold newc in Hx. apply filter_In in Hx. destruct Hx as [Hx _].
      apply fain in Hx. destruct Hx as [[]|Hx]. apply T6. exact Hx.
    - intros x Hx. unfold newc in Hx. apply filter_In in Hx. destruct Hx as [_ Hx].
      apply negb_true_iff in Hx. apply mem_false_In. exact Hx. }
  pose proof (HM c) as Hm. fold t in Hm.
  set (nd' := nd_deps nd _ _ _ _).
  assert (He : ph u nd' <= ph u nd).
  { unfold ph. change (n_pc nd') with (n_pc nd). destruct (n_pc nd); try lia.
    pose proof (lp_app nd nd' _ _ eq_refl eq_refl). lia. }
  unfold NW. unfold nd' at 1 2 3 4 5 6. cbn [n_pend_task n_pend_calc n_wrun n_wcalc n_all_task n_all_calc nd_deps].
  rewrite !app_length, skipn_length.
  pose proof (Nat.mul_le_mono_l _ _ (12 * M + 12) Hd) as Hd'.
  nlia.
Qed.

Lemma fold_add_if_new_ext2 (l : list name) : forall a l0, exists ext,
  fold_left add_if_new l (a ++ l0) = a ++ ext /\ incl ext (l0 ++ l).
Proof.
  induction l as [|x l IH]; intros a l0; simpl.
  - exists l0. split; auto. rewrite app_nil_r. apply incl_refl.
  - unfold add_if_new at 2. destruct (mem x (a ++ l0)).
    + destruct (IH a l0) as (ext & E & I). exists ext. split; auto.
      intros z Hz. apply I in Hz. rewrite in_app_iff in *. simpl. tauto.
    + rewrite <- app_assoc. destruct (IH a (l0 ++ [x])) as (ext & E & I). exists ext. split; auto.
      intros z Hz. apply I in Hz. rewrite !in_app_iff in *. simpl in *. tauto.
Qed.

Lemma process_calc_nin nd c s : nin nd -> nin (process_calc nd c s).
Proof.
  intros (A & B & C & D). unfold Dispatch.process_calc. destruct (calc_values_visible s); [|repeat split; auto].
  destruct (HTC c) as (_ & _ & _ & T4 & T5 & T6).
  unfold nin; cbn [n_pend_task n_pend_calc n_wme n_pc nd_deps]. repeat split; auto.
  - apply incl_app; auto.
    destruct (fold_add_if_new_ext2 (t_calc_new_impl (get_task c)) (n_all_task nd) (t_calc_new_task (get_task c))) as (ext & E & I).
    rewrite E. rewrite skipn_app, skipn_all, Nat.sub_diag. simpl.
    intros x Hx. apply I in Hx. apply in_app_iff in Hx. destruct Hx as [Hx|Hx]; [apply T4|apply T5]; exact Hx.
  - apply incl_app; auto. intros x Hx. apply filter_In in Hx. destruct Hx as [Hx _].
    apply fain in Hx. destruct Hx as [[]|Hx]. apply T6. exact Hx.
Qed.

(* ---------- small frame facts ---------- *)
Definition NB (nd : node) : nat :=
  12 * length (n_pend_task nd) + (12 * M + 12) * length (n_pend_calc nd) +
  4 * length (n_wrun nd) + (12 * M + 4) * length (n_wcalc nd) +
  12 * credit (n_all_task nd) + (12 * M + 12) * credit (n_all_calc nd).
Lemma NW_split u nd : NW u nd = NB nd + ph u nd. Proof. reflexivity. Qed.

Lemma parent_status_NW u nd dep s : NW u (parent_status nd dep s) = NW u nd.
Proof. destruct s; reflexivity. Qed.
Lemma parent_status_nin nd dep s : nin nd -> nin (parent_status nd dep s).
Proof. destruct s; auto. Qed.
Lemma parent_status_pc nd dep s : n_pc (parent_status nd dep s) = n_pc nd.
Proof. destruct s; reflexivity. Qed.
Lemma process_calc_pc nd c s : n_pc (process_calc nd c s) = n_pc nd.
Proof. unfold Dispatch.process_calc. destruct (calc_values_visible s); reflexivity. Qed.

Lemma set_pc_T d me p : CL d -> In me Ud -> pcin p ->
  CL (set_pc d me p) /\ sameq d (set_pc d me p) /\ exn (set_pc d me p) me /\
  (forall z, exn d z -> exn (set_pc d me p) z) /\
  NN (set_pc d me p) + ph me (node_of d me) = NN d + ph me (nd_pc (node_of d me) p).
Proof.
  intros H Hme Hp. unfold Dispatch.set_pc. split; [|split; [|split; [|split]]].
  - apply CL_set_node; auto. destruct (cl_n _ H me) as (A & B & C & D). repeat split; auto.
  - apply sameq_set_node.
  - apply exn_set_same.
  - intros z Hz. apply exn_set. exact Hz.
  - pose proof (NN_set_node d me (nd_pc (node_of d me) p) Hme) as E.
    rewrite !NW_split in E. change (NB (nd_pc (node_of d me) p)) with (NB (node_of d me)) in E. lia.
Qed.

(* ---------- _node_add_wait_run ---------- *)
Definition awc (calc : bool) : nat := if calc then 12 * M + 4 else 4.

Lemma add_wait_one_T d me x calc : CL d -> In me Ud -> In x Ud ->
  let d' := add_wait_one d me x calc in
  CL d' /\ sameq d d' /\ NN d' <= NN d + awc calc /\ n_pc (node_of d' me) = n_pc (node_of d me) /\
  (forall z, exn d z -> exn d' z).
Proof.
  intros H Hme Hx. cbv zeta. unfold Dispatch.add_wait_one.
  destruct (unfinished (Dispatch.st_of tasks d x)).
  - set (nx := node_of d x).
    set (d1 := set_node d x (nd_wme nx (addset me (n_wme nx)))).
    assert (H1 : CL d1).
    { apply CL_set_node; auto. destruct (cl_n _ H x) as (A & B & C & D). fold nx in A, B, C, D.
      repeat split; auto. simpl. intros z Hz. apply addset_In in Hz. destruct Hz as [->|Hz]; auto. }
    assert (N1 : NN d1 <= NN d + 0).
    { apply NN_set_node_le; auto. change (NW x (nd_wme nx (addset me (n_wme nx)))) with (NW x nx). unfold nx. lia. }
    set (nd1 := node_of d1 me).
    assert (Ep : n_pc nd1 = n_pc (node_of d me)).
    { unfold nd1, d1. destruct (N.eqb_spec me x) as [->|Hne].
      - rewrite (node_of_set_same tasks). reflexivity.
      - rewrite (node_of_set_other tasks) by auto. reflexivity. }
    set (ndm := if calc then nd_wait nd1 (n_wrun nd1) (addset x (n_wcalc nd1))
                else nd_wait nd1 (addset x (n_wrun nd1)) (n_wcalc nd1)).
    assert (Hin : nin ndm).
    { destruct (cl_n _ H1 me) as (A & B & C & D). fold nd1 in A, B, C, D. unfold ndm. destruct calc; repeat split; auto. }
    assert (Hw : NW me ndm <= NW me nd1 + awc calc).
    { unfold ndm, awc. destruct calc; unfold NW, ph, lp; cbn [n_pend_task n_pend_calc n_wrun n_wcalc n_all_task n_all_calc n_pc nd_wait].
      - pose proof (Nat.mul_le_mono_l _ _ (12 * M + 4) (addset_length x (n_wcalc nd1))). nlia.
      - pose proof (addset_length x (n_wrun nd1)). nlia. }
    split; [apply CL_set_node; auto|]. split; [eapply sameq_trans; apply sameq_set_node|].
    split; [|split].
    + pose proof (NN_set_node_le d1 me ndm (awc calc) Hme Hw). lia.
    + rewrite (node_of_set_same tasks). rewrite <- Ep. unfold ndm. destruct calc; reflexivity.
    + intros z Hz. apply exn_set. apply exn_set. exact Hz.
  - set (sx := Dispatch.st_of tasks d x).
    set (nd1 := parent_status (node_of d me) x sx).
    set (nd' := if calc then process_calc nd1 x sx else nd1).
    assert (Hin : nin nd').
    { unfold nd'. destruct calc; [apply process_calc_nin|]; apply parent_status_nin; apply (cl_n _ H). }
    assert (Hw : NW me nd' <= NW me (node_of d me) + awc calc).
    { unfold nd', awc. destruct calc.
      - pose proof (process_calc_NW me nd1 x sx) as P. unfold nd1 in P at 2. rewrite parent_status_NW in P. lia.
      - unfold nd1. rewrite parent_status_NW. lia. }
    split; [apply CL_set_node; auto|]. split; [apply sameq_set_node|]. split; [|split].
    + apply NN_set_node_le; auto.
    + rewrite (node_of_set_same tasks). unfold nd'. destruct calc; rewrite ?process_calc_pc; apply parent_status_pc.
    + intros z Hz. apply exn_set. exact Hz.
Qed.

Lemma add_wait_run_T l : forall d me calc, CL d -> In me Ud -> incl l Ud ->
  let d' := add_wait_run d me l calc in
  CL d' /\ sameq d d' /\ NN d' <= NN d + awc calc * length l /\ n_pc (node_of d' me) = n_pc (node_of d me) /\
  (forall z, exn d z -> exn d' z).
Proof.
  induction l as [|x r IH]; intros d me calc H Hme Hl; cbn [Dispatch.add_wait_run]; cbv zeta.
  - split; auto. split; [apply sameq_refl|]. split; [simpl; lia|]. split; auto.
  - destruct (add_wait_one_T d me x calc H Hme (Hl x (or_introl eq_refl))) as (A1 & A2 & A3 & A4 & A5).
    destruct (IH (add_wait_one d me x calc) me calc A1 Hme) as (B1 & B2 & B3 & B4 & B5).
    { intros z Hz. apply Hl. right. exact Hz. }
    split; auto. split; [eapply sameq_trans; eauto|]. split; [|split].
    + cbn [length]. nlia.
    + congruence.
    + intros z Hz. apply B5. apply A5. exact Hz.
Qed.

(* ---------- _gen_node ---------- *)
Lemma gen_node_T d pa c g d1 : CL d -> In c Ud -> gen_node d pa c = (g, d1) ->
  CL d1 /\ sameq d d1 /\ NN d1 = NN d /\ (forall z, exn d z -> exn d1 z) /\
  (forall z, exn d z -> node_of d1 z = node_of d z) /\ (g = GNew -> exn d1 c).
Proof.
  intros H Hc E. unfold Dispatch.gen_node in E. destruct (d_nodes d c) eqn:Ec.
  - assert (d1 = d /\ g <> GNew) as [-> Hg].
    { destruct pa as [a|]; [destruct (mem c a)|]; inversion E; subst; split; auto; discriminate. }
    split; auto. split; [apply sameq_refl|]. split; auto. split; auto. split; auto. intros Hg'. contradiction.
  - inversion E; subst. clear E.
    split; [apply CL_set_node; auto; apply nin_new|]. split; [apply sameq_set_node|]. split; [|split; [|split]].
    + pose proof (NN_set_node d c (new_node tasks match pa with Some a => a | None => [] end c) Hc) as P.
      unfold Dispatch.node_of in P. rewrite Ec in P.
      change (NW c (new_node tasks match pa with Some a => a | None => [] end c)) with (NW c (new_node tasks [] c)) in P. lia.
    + intros z Hz. apply exn_set. exact Hz.
    + intros z Hz. apply (node_of_set_other tasks). intros ->. apply Hz. exact Ec.
    + intros _. apply exn_set_same.
Qed.

Lemma child_T d me c p' g d1 pa : CL d -> In me Ud -> exn d me -> In c Ud ->
  gen_node d pa c = (g, d1) -> pcin p' ->
  ph me (nd_pc (node_of d me) p') + 5 <= ph me (node_of d me) ->
  let d2 := set_pc d1 me p' in
  CL d2 /\ sameq d d2 /\ NN d2 + 5 <= NN d /\ exn d2 me /\ (g = GNew -> In c Ud /\ exn d2 c).
Proof.
  intros H Hme Hex Hc Eg Hp Hph. cbv zeta.
  destruct (gen_node_T d pa c g d1 H Hc Eg) as (A1 & A2 & A3 & A4 & A5 & A6).
  destruct (set_pc_T d1 me p' A1 Hme Hp) as (B1 & B2 & B3 & B4 & B5).
  rewrite (A5 me Hex) in B5.
  split; [exact B1|]. split; [eapply sameq_trans; eauto|]. split; [lia|]. split; [exact B3|].
  intros Hg. split; [exact Hc|]. apply B4. apply A6. exact Hg.
Qed.

(* ---------- one resumption of a node's generator ---------- *)
Definition gpostT (d : dstate) (y : gyield) (d' : dstate) : Prop :=
  match y with
  | YNode k => NN d' + 5 <= NN d /\ In k Ud /\ exn d' k
  | YWait => NN d' <= NN d + 2
  | YEnd => NN d' <= NN d
  | YSelf => NN d' + 1 <= NN d
  | YCycle _ | YFuel => True end.

Lemma grec d d2 fuel y d' : sameq d d2 -> NN d2 + 1 <= NN d ->
  CL d' /\ sameq d2 d' /\ (NN d2 < fuel -> y <> YFuel) /\ gpostT d2 y d' ->
  CL d' /\ sameq d d' /\ (NN d < S fuel -> y <> YFuel) /\ gpostT d y d'.
Proof.
  intros S1 Hd (A & B & C & D). split; auto. split; [eapply sameq_trans; eauto|]. split.
  - intros Hf. apply C. lia.
  - destruct y; simpl in *; auto; try lia. destruct D as (D1 & D2 & D3). split; [lia|auto].
Qed.

Lemma gen_step_T fuel : forall d me y d', CL d -> In me Ud -> exn d me -> gen_step fuel d me = (y, d') ->
  CL d' /\ sameq d d' /\ (NN d < fuel -> y <> YFuel) /\ gpostT d y d'.
Proof.
  induction fuel as [|fuel IH]; intros d me y d' H Hme Hex E; cbn [Dispatch.gen_step] in E.
  { inversion E; subst. split; auto. split; [apply sameq_refl|]. split; [lia|exact I]. }
  cbv zeta in E.
  destruct (cl_n _ H me) as (Ipt & Ipc & Iwme & Ipcin).
  destruct (n_pc (node_of d me)) as [|rest calcs tks|rest tks| | | |rest| |] eqn:Epc.
  - (* PLoop *)
    set (nd := node_of d me) in *.
    set (nd' := nd_pc _ _) in E.
    assert (Hin : nin nd').
    { unfold nin, nd'. cbn [n_pend_task n_pend_calc n_wme n_pc nd_pc nd_deps pcin].
      repeat split; auto; try (intros z []); apply sort_by_incl; exact Ipc. }
    assert (Hw : NW me nd' + 1 <= NW me nd).
    { unfold NW, ph, lp, nd'. cbn [n_pend_task n_pend_calc n_wrun n_wcalc n_all_task n_all_calc n_pc nd_pc nd_deps].
      rewrite Epc, sort_by_length.
      destruct (n_pend_task nd), (n_pend_calc nd); cbn [is_nil andb length]; nlia. }
    apply (grec d (set_node d me nd') fuel y d' (sameq_set_node d me nd') (NN_set_node_dec d me nd' 1 Hme Hw)).
    apply (IH _ me y d' (CL_set_node d me nd' H Hin) Hme (exn_set_same d me nd') E).
  - (* PCalc *)
    simpl in Ipcin. destruct Ipcin as (Ir & Ic & It).
    destruct rest as [|c r].
    + destruct (add_wait_run_T calcs d me true H Hme Ic) as (A1 & A2 & A3 & A4 & A5).
      set (d1 := add_wait_run d me calcs true) in *.
      destruct (set_pc_T d1 me (PTask tks tks) A1 Hme (conj It It)) as (B1 & B2 & B3 & B4 & B5).
      assert (Hdec : NN (set_pc d1 me (PTask tks tks)) + 1 <= NN d).
      { unfold ph in B5. cbn [n_pc nd_pc] in B5. rewrite A4, Epc in B5. unfold awc in A3. cbn [length] in B5. nlia. }
      apply (grec d _ fuel y d' (sameq_trans _ _ _ A2 B2) Hdec). apply (IH _ me y d' B1 Hme B3 E).
    + destruct (gen_node d (Some (n_anc (node_of d me))) c) as [g d1] eqn:Eg.
      assert (Hc : In c Ud) by (apply Ir; left; reflexivity).
      assert (Hp : pcin (PCalc r calcs tks)).
      { split; [|split]; auto. intros z Hz; apply Ir; right; exact Hz. }
      assert (Hph : ph me (nd_pc (node_of d me) (PCalc r calcs tks)) + 5 <= ph me (node_of d me)).
      { unfold ph. cbn [n_pc nd_pc]. rewrite Epc. cbn [length]. nlia. }
      destruct (child_T d me c _ g d1 _ H Hme Hex Hc Eg Hp Hph) as (B1 & B2 & B3 & B4 & B5).
      destruct g.
      * inversion E; subst. split; auto. split; auto. split; [discriminate|]. simpl. split; [exact B3|]. apply B5; reflexivity.
      * apply (grec d _ fuel y d' B2 ltac:(lia)). apply (IH _ me y d' B1 Hme B4 E).
      * inversion E; subst. split; auto. split; [apply sameq_refl|]. split; [discriminate|exact I].
  - (* PTask *)
    simpl in Ipcin. destruct Ipcin as (Ir & It).
    destruct rest as [|c r].
    + destruct (add_wait_run_T tks d me false H Hme It) as (A1 & A2 & A3 & A4 & A5).
      set (d1 := add_wait_run d me tks false) in *.
      set (nd1 := node_of d1 me) in *.
      unfold awc in A3. rewrite Epc in A4.
      destruct (negb (is_nil (n_pend_calc nd1)) || negb (is_nil (n_pend_task nd1))) eqn:Ep.
      * destruct (set_pc_T d1 me PLoop A1 Hme I) as (B1 & B2 & B3 & B4 & B5).
        assert (Hdec : NN (set_pc d1 me PLoop) + 1 <= NN d).
        { unfold ph in B5. cbn [n_pc nd_pc] in B5. fold nd1 in B5. rewrite A4 in B5. unfold lp in B5.
          cbn [n_pend_task n_pend_calc nd_pc length] in B5.
          destruct (n_pend_calc nd1), (n_pend_task nd1); try discriminate Ep; cbn [is_nil andb] in B5; nlia. }
        apply (grec d _ fuel y d' (sameq_trans _ _ _ A2 B2) Hdec). apply (IH _ me y d' B1 Hme B3 E).
      * destruct (negb (is_nil (n_wrun nd1)) || negb (is_nil (n_wcalc nd1))) eqn:Ew.
        -- inversion E; subst. destruct (set_pc_T d1 me PLoop A1 Hme I) as (B1 & B2 & B3 & B4 & B5).
           split; auto. split; [eapply sameq_trans; eauto|]. split; [discriminate|]. simpl.
           unfold ph in B5. cbn [n_pc nd_pc] in B5. fold nd1 in B5. rewrite A4 in B5. unfold lp in B5.
           cbn [n_pend_task n_pend_calc nd_pc length] in B5.
           destruct (n_pend_calc nd1), (n_pend_task nd1); try discriminate Ep; cbn [is_nil andb] in B5; nlia.
        -- destruct (set_pc_T d1 me PSelf A1 Hme I) as (B1 & B2 & B3 & B4 & B5).
           assert (Hdec : NN (set_pc d1 me PSelf) + 1 <= NN d).
           { unfold ph in B5. cbn [n_pc nd_pc] in B5. fold nd1 in B5. rewrite A4 in B5. cbn [length] in B5. nlia. }
           apply (grec d _ fuel y d' (sameq_trans _ _ _ A2 B2) Hdec). apply (IH _ me y d' B1 Hme B3 E).
    + destruct (gen_node d (Some (n_anc (node_of d me))) c) as [g d1] eqn:Eg.
      assert (Hc : In c Ud) by (apply Ir; left; reflexivity).
      assert (Hp : pcin (PTask r tks)).
      { split; auto. intros z Hz; apply Ir; right; exact Hz. }
      assert (Hph : ph me (nd_pc (node_of d me) (PTask r tks)) + 5 <= ph me (node_of d me)).
      { unfold ph. cbn [n_pc nd_pc]. rewrite Epc. cbn [length]. nlia. }
      destruct (child_T d me c _ g d1 _ H Hme Hex Hc Eg Hp Hph) as (B1 & B2 & B3 & B4 & B5).
      destruct g.
      * inversion E; subst. split; auto. split; auto. split; [discriminate|]. simpl. split; [exact B3|]. apply B5; reflexivity.
      * apply (grec d _ fuel y d' B2 ltac:(lia)). apply (IH _ me y d' B1 Hme B4 E).
      * inversion E; subst. split; auto. split; [apply sameq_refl|]. split; [discriminate|exact I].
  - (* PSelf *)
    inversion E; subst. destruct (set_pc_T d me PAfterSelf H Hme I) as (B1 & B2 & B3 & B4 & B5).
    unfold ph in B5. cbn [n_pc nd_pc] in B5. rewrite Epc in B5.
    split; auto. split; auto. split; [discriminate|]. simpl. lia.
  - (* PAfterSelf *)
    destruct (is_nil (t_setup (get_task me))).
    + inversion E; subst. destruct (set_pc_T d me PDone H Hme I) as (B1 & B2 & B3 & B4 & B5).
      unfold ph in B5. cbn [n_pc nd_pc] in B5. rewrite Epc in B5.
      split; auto. split; auto. split; [discriminate|]. simpl. lia.
    + assert (Hrec : gen_step fuel (set_pc d me PAfterSelWait) me = (y, d') ->
                     CL d' /\ sameq d d' /\ (NN d < S fuel -> y <> YFuel) /\ gpostT d y d').
      { intros E'. destruct (set_pc_T d me PAfterSelWait H Hme I) as (B1 & B2 & B3 & B4 & B5).
        unfold ph in B5. cbn [n_pc nd_pc] in B5. rewrite Epc in B5.
        apply (grec d _ fuel y d' B2 ltac:(lia)). apply (IH _ me y d' B1 Hme B3 E'). }
      destruct (n_st (node_of d me)); try (apply Hrec; exact E).
      inversion E; subst. clear Hrec.
      set (nd' := nd_pc (nd_wsel (node_of d me) true) PAfterSelWait).
      assert (Hin : nin nd') by (unfold nin, nd'; simpl; repeat split; auto).
      assert (Hw : NW me nd' <= NW me (node_of d me) + 0).
      { unfold NW, ph, lp, nd'. cbn [n_pend_task n_pend_calc n_wrun n_wcalc n_all_task n_all_calc n_pc nd_pc nd_wsel].
        rewrite Epc. lia. }
      split; [apply CL_set_node; auto|]. split; [apply sameq_set_node|]. split; [discriminate|]. simpl.
      pose proof (NN_set_node_le d me nd' 0 Hme Hw). lia.
  - (* PAfterSelWait *)
    assert (Hend : (YEnd, set_pc d me PDone) = (y, d') ->
                   CL d' /\ sameq d d' /\ (NN d < S fuel -> y <> YFuel) /\ gpostT d y d').
    { intros E'. inversion E'; subst. destruct (set_pc_T d me PDone H Hme I) as (B1 & B2 & B3 & B4 & B5).
      unfold ph in B5. cbn [n_pc nd_pc] in B5. rewrite Epc in B5.
      split; auto. split; auto. split; [discriminate|]. simpl. lia. }
    destruct (n_st (node_of d me)); try (apply Hend; exact E). clear Hend.
    destruct (HTC me) as (_ & Hs & _).
    destruct (set_pc_T d me (PSetup (t_setup (get_task me))) H Hme Hs) as (B1 & B2 & B3 & B4 & B5).
    unfold ph in B5. cbn [n_pc nd_pc] in B5. rewrite Epc in B5. unfold su in B5.
    apply (grec d _ fuel y d' B2 ltac:(nlia)). apply (IH _ me y d' B1 Hme B3 E).
  - (* PSetup *)
    simpl in Ipcin.
    destruct rest as [|c r].
    + destruct (HTC me) as (_ & Hs & _).
      destruct (add_wait_run_T (t_setup (get_task me)) d me false H Hme Hs) as (A1 & A2 & A3 & A4 & A5).
      set (d1 := add_wait_run d me (t_setup (get_task me)) false) in *.
      unfold awc in A3. rewrite Epc in A4.
      destruct (is_nil (n_wrun (node_of d1 me))).
      * inversion E; subst. destruct (set_pc_T d1 me PDone A1 Hme I) as (B1 & B2 & B3 & B4 & B5).
        unfold ph in B5. cbn [n_pc nd_pc] in B5. rewrite A4 in B5. unfold su in B5. cbn [length] in B5.
        split; auto. split; [eapply sameq_trans; eauto|]. split; [discriminate|]. simpl. nlia.
      * inversion E; subst. destruct (set_pc_T d1 me PSetupWaited A1 Hme I) as (B1 & B2 & B3 & B4 & B5).
        unfold ph in B5. cbn [n_pc nd_pc] in B5. rewrite A4 in B5. unfold su in B5. cbn [length] in B5.
        split; auto. split; [eapply sameq_trans; eauto|]. split; [discriminate|]. simpl. nlia.
    + destruct (gen_node d (Some (n_anc (node_of d me))) c) as [g d1] eqn:Eg.
      assert (Hc : In c Ud) by (apply Ipcin; left; reflexivity).
      assert (Hp : pcin (PSetup r)).
      { intros z Hz; apply Ipcin; right; exact Hz. }
      assert (Hph : ph me (nd_pc (node_of d me) (PSetup r)) + 5 <= ph me (node_of d me)).
      { unfold ph. cbn [n_pc nd_pc]. rewrite Epc. cbn [length]. nlia. }
      destruct (child_T d me c _ g d1 _ H Hme Hex Hc Eg Hp Hph) as (B1 & B2 & B3 & B4 & B5).
      destruct g.
      * inversion E; subst. split; auto. split; auto. split; [discriminate|]. simpl. split; [exact B3|]. apply B5; reflexivity.
      * apply (grec d _ fuel y d' B2 ltac:(lia)). apply (IH _ me y d' B1 Hme B4 E).
      * inversion E; subst. split; auto. split; [apply sameq_refl|]. split; [discriminate|exact I].
  - (* PSetupWaited *)
    inversion E; subst. destruct (set_pc_T d me PDone H Hme I) as (B1 & B2 & B3 & B4 & B5).
    unfold ph in B5. cbn [n_pc nd_pc] in B5. rewrite Epc in B5.
    split; auto. split; auto. split; [discriminate|]. simpl. lia.
  - (* PDone *)
    inversion E; subst. split; auto. split; [apply sameq_refl|]. split; [discriminate|]. simpl. lia.
Qed.

(* ---------- the dispatcher loop ---------- *)
Lemma CL_q d d' : CL d -> d_nodes d' = d_nodes d ->
  (forall x, In x (d_ready d') -> In x Ud /\ exn d x) -> incl (d_torun d') Ud ->
  (forall x, d_cur d' = Some x -> In x Ud /\ exn d x) -> CL d'.
Proof.
  intros [A B C D] En Hr Ht Hc.
  assert (Enode : forall z, node_of d' z = node_of d z) by (intros z; unfold Dispatch.node_of; rewrite En; reflexivity).
  split; auto.
  - intros k. rewrite Enode. apply A.
  - intros x Hx. unfold exn. rewrite En. apply Hr. exact Hx.
  - intros x Hx. unfold exn. rewrite En. apply Hc. exact Hx.
Qed.

Lemma NN_q d d' : d_nodes d' = d_nodes d -> NN d' = NN d.
Proof. intros En. unfold NN. apply sumN_ext. intros z _. unfold Dispatch.node_of. rewrite En. reflexivity. Qed.

Lemma next_from_torun_T l : forall d o d1, CL d -> incl l Ud -> next_from_torun d l = (o, d1) ->
  CL d1 /\ NN d1 = NN d /\ d_ready d1 = d_ready d /\ d_cur d1 = d_cur d /\
  match o with Some x => In x Ud /\ exn d1 x /\ length (d_torun d1) + 1 <= length l | None => True end.
Proof.
  induction l as [|x r IH]; intros d o d1 H Hl E; cbn [Dispatch.next_from_torun] in E.
  - inversion E; subst. split.
    + apply (CL_q d (set_torun d []) H eq_refl (cl_r _ H)); [intros z []|apply (cl_c _ H)].
    + repeat split; auto.
  - destruct (gen_node d None x) as [g d2] eqn:Eg.
    assert (Hx : In x Ud) by (apply Hl; left; reflexivity).
    assert (Hr : incl r Ud) by (intros z Hz; apply Hl; right; exact Hz).
    destruct (gen_node_T d None x g d2 H Hx Eg) as (A1 & A2 & A3 & A4 & A5 & A6).
    destruct A2 as (q1 & q2 & q3 & q4).
    assert (Hrec : next_from_torun d2 r = (o, d1) ->
      CL d1 /\ NN d1 = NN d /\ d_ready d1 = d_ready d /\ d_cur d1 = d_cur d /\
      match o with Some x0 => In x0 Ud /\ exn d1 x0 /\ length (d_torun d1) + 1 <= length (x :: r) | None => True end).
    { intros E'. destruct (IH d2 o d1 A1 Hr E') as (B1 & B2 & B3 & B4 & B5).
      split; auto. split; [congruence|]. split; [congruence|]. split; [congruence|].
      destruct o; auto. destruct B5 as (b1 & b2 & b3). split; auto. split; auto. simpl. lia. }
    destruct g; try (apply Hrec; exact E). clear Hrec.
    inversion E; subst. split.
    + apply (CL_q d2 (set_torun d2 r) A1 eq_refl (cl_r _ A1)); [exact Hr|apply (cl_c _ A1)].
    + split; [rewrite <- A3; apply NN_q; reflexivity|]. split; [exact q1|]. split; [exact q4|].
      split; auto. split; [apply A6; reflexivity|]. simpl. lia.
Qed.

Lemma drec d d2 fuel y d' : PHI d2 + 1 <= PHI d ->
  (PHI d2 < fuel -> y <> DFuel) /\ (forall k, y = DTask k -> CL d' /\ PHI d' + 1 <= PHI d2) ->
  (PHI d < S fuel -> y <> DFuel) /\ (forall k, y = DTask k -> CL d' /\ PHI d' + 1 <= PHI d).
Proof.
  intros Hd [A B]. split.
  - intros Hf. apply A. lia.
  - intros k Hk. destruct (B k Hk). split; auto. lia.
Qed.

Lemma disp_run_T fuel : forall d y d', CL d -> disp_run fuel d = (y, d') ->
  (PHI d < fuel -> y <> DFuel) /\ (forall k, y = DTask k -> CL d' /\ PHI d' + 1 <= PHI d).
Proof.
  induction fuel as [|fuel IH]; intros d y d' H E; cbn [Dispatch.disp_run] in E.
  { inversion E; subst. split; [lia|discriminate]. }
  destruct (d_cur d) as [me|] eqn:Ecur.
  - destruct (cl_c _ H me Ecur) as [Hme Hex].
    destruct (gen_step (S (S fuel)) d me) as [g d1] eqn:Eg.
    destruct (gen_step_T _ _ _ _ _ H Hme Hex Eg) as (A1 & A2 & A3 & A4).
    pose proof (QQ_sameq _ _ A2) as Hq. destruct A2 as (q1 & q2 & q3 & q4).
    assert (Hqd : QQ d = 4 * length (d_ready d) + 4 * length (d_torun d) + 3) by (unfold QQ; rewrite Ecur; reflexivity).
    destruct g; simpl in A4.
    + destruct A4 as (a1 & a2 & a3).
      set (d2 := set_ready d1 (d_ready d1 ++ [k])) in *.
      assert (H2 : CL d2).
      { apply (CL_q d1); auto.
        - intros x Hx. simpl in Hx. apply in_app_iff in Hx. destruct Hx as [Hx|[<-|[]]]; [apply (cl_r _ A1); exact Hx|auto].
        - apply (cl_t _ A1).
        - apply (cl_c _ A1). }
      apply (drec d d2 fuel y d'); [|apply (IH d2 y d' H2 E)].
      unfold PHI. rewrite (NN_q d1 d2 eq_refl). unfold QQ at 1. unfold d2; cbn [d_ready d_torun d_cur set_ready].
      rewrite app_length, q1, q3, q4, Ecur. simpl length. lia.
    + set (d2 := set_cur (set_waiting d1 (addset me (d_waiting d1))) None) in *.
      assert (H2 : CL d2).
      { apply (CL_q d1); auto.
        - apply (cl_r _ A1).
        - apply (cl_t _ A1).
        - intros x Hx. discriminate. }
      apply (drec d d2 fuel y d'); [|apply (IH d2 y d' H2 E)].
      unfold PHI. rewrite (NN_q d1 d2 eq_refl). unfold QQ at 1. unfold d2; cbn [d_ready d_torun d_cur set_cur set_waiting].
      rewrite q1, q3. lia.
    + inversion E; subst. split; [discriminate|]. intros k Hk. split; auto. unfold PHI. lia.
    + set (d2 := set_cur d1 None) in *.
      assert (H2 : CL d2).
      { apply (CL_q d1); auto.
        - apply (cl_r _ A1).
        - apply (cl_t _ A1).
        - intros x Hx. discriminate. }
      apply (drec d d2 fuel y d'); [|apply (IH d2 y d' H2 E)].
      unfold PHI. rewrite (NN_q d1 d2 eq_refl). unfold QQ at 1. unfold d2; cbn [d_ready d_torun d_cur set_cur].
      rewrite q1, q3. lia.
    + inversion E; subst. split; discriminate.
    + inversion E; subst. split; [|discriminate]. intros Hf. exfalso. apply A3; [unfold PHI in Hf; lia|reflexivity].
  - destruct (d_ready d) as [|x r] eqn:Er.
    + destruct (next_from_torun d (d_torun d)) as [o d1] eqn:En.
      destruct (next_from_torun_T _ _ _ _ H (cl_t _ H) En) as (A1 & A2 & A3 & A4 & A5).
      destruct o as [x|].
      * destruct A5 as (a1 & a2 & a3).
        set (d2 := set_cur d1 (Some x)) in *.
        assert (H2 : CL d2).
        { apply (CL_q d1); auto.
          - apply (cl_r _ A1).
          - apply (cl_t _ A1).
          - intros z Hz. simpl in Hz. inversion Hz; subst. auto. }
        apply (drec d d2 fuel y d'); [|apply (IH d2 y d' H2 E)].
        unfold PHI. rewrite (NN_q d1 d2 eq_refl), A2. unfold QQ. unfold d2; cbn [d_ready d_torun d_cur set_cur].
        rewrite A3, Er, Ecur. simpl length. lia.
      * destruct (is_nil (d_waiting d1)); inversion E; subst; split; discriminate.
    + set (d2 := set_cur (set_ready d r) (Some x)) in *.
      assert (H2 : CL d2).
      { apply (CL_q d); auto.
        - intros z Hz. simpl in Hz. apply (cl_r _ H). rewrite Er. right. exact Hz.
        - apply (cl_t _ H).
        - intros z Hz. simpl in Hz. inversion Hz; subst. apply (cl_r _ H). rewrite Er. left. reflexivity. }
      apply (drec d d2 fuel y d'); [|apply (IH d2 y d' H2 E)].
      unfold PHI. rewrite (NN_q d d2 eq_refl). unfold QQ. unfold d2; cbn [d_ready d_torun d_cur set_cur set_ready].
      rewrite Er, Ecur. simpl length. lia.
Qed.

(* one resumption of a generator, and one answer of the dispatcher, never run out of fuel above the potential *)
Corollary gen_step_terminates fuel d me : CL d -> In me Ud -> exn d me -> NN d < fuel ->
  fst (gen_step fuel d me) <> YFuel.
Proof.
  intros H Hme Hex Hf. destruct (gen_step fuel d me) as [y d'] eqn:E.
  destruct (gen_step_T fuel d me y d' H Hme Hex E) as (_ & _ & A & _). simpl. auto.
Qed.

Corollary disp_run_terminates fuel d : CL d -> PHI d < fuel -> fst (disp_run fuel d) <> DFuel.
Proof.
  intros H Hf. destruct (disp_run fuel d) as [y d'] eqn:E.
  destruct (disp_run_T fuel d y d' H E) as (A & _). simpl. auto.
Qed.

(* ---------- _update_waiting ---------- *)
Lemma ps_wait nd dep s : n_wrun (parent_status nd dep s) = n_wrun nd /\ n_wcalc (parent_status nd dep s) = n_wcalc nd.
Proof. destruct s; auto. Qed.

Lemma NW_wait u nd wr wc :
  NW u (nd_wait nd wr wc) + 4 * length (n_wrun nd) + (12 * M + 4) * length (n_wcalc nd) =
  NW u nd + 4 * length wr + (12 * M + 4) * length wc.
Proof.
  unfold NW, ph, lp. cbn [n_pend_task n_pend_calc n_wrun n_wcalc n_all_task n_all_calc n_pc nd_wait]. nlia.
Qed.

Lemma nin_wait nd wr wc : nin nd -> nin (nd_wait nd wr wc).
Proof. intros (A & B & C & D). repeat split; auto. Qed.

Lemma wake_one_T p fs d w : HI tasks (Some p) d -> CL d -> In w Ud ->
  let d' := wake_one tasks d p fs w in CL d' /\ PHI d' <= PHI d.
Proof.
  intros HH H Hw. cbv zeta. unfold Dispatch.wake_one.
  set (nd := node_of d w). set (nw2 := wake_node tasks nd p fs).
  set (d1 := set_node d w nw2).
  set (moved := wake_ready nd p nw2 && mem w (d_waiting d1)).
  assert (Hin : nin nw2).
  { unfold nw2, Dispatch.wake_node. destruct (mem p (n_wcalc nd)); [apply process_calc_nin|];
      apply nin_wait; apply parent_status_nin; apply (cl_n _ H). }
  assert (Hwt : NW w nw2 + (if moved then 4 else 0) <= NW w nd).
  { unfold moved, nw2, Dispatch.wake_ready, Dispatch.wake_node.
    set (nw := parent_status nd p fs).
    destruct (ps_wait nd p fs) as [Er Ec]. fold nw in Er, Ec.
    pose proof (parent_status_NW w nd p fs) as En. fold nw in En.
    pose proof (NW_wait w nw (rem p (n_wrun nw)) (rem p (n_wcalc nw))) as Ew.
    set (nw1 := nd_wait nw (rem p (n_wrun nw)) (rem p (n_wcalc nw))) in *.
    rewrite Er, Ec, En in Ew.
    pose proof (rem_length_le p (n_wrun nd)) as L1. pose proof (rem_length_le p (n_wcalc nd)) as L2.
    destruct (mem p (n_wcalc nd)) eqn:Em.
    - apply mem_In in Em. pose proof (rem_length_lt p (n_wcalc nd) Em) as L3.
      pose proof (Nat.mul_le_mono_l _ _ (12 * M + 4) L3) as L4.
      pose proof (process_calc_NW w nw1 p fs).
      destruct (true && mem w (d_waiting d1)); nlia.
    - pose proof (Nat.mul_le_mono_l _ _ (12 * M + 4) L2) as L4.
      destruct (is_nil (n_wrun nw1) && is_nil (n_wcalc nw1) && mem w (d_waiting d1)) eqn:Emv; [|nlia].
      apply andb_true_iff in Emv. destruct Emv as [Emv Ewt]. apply andb_true_iff in Emv. destruct Emv as [E1 E2].
      apply is_nil_true in E1. apply is_nil_true in E2.
      unfold nw1 in E1, E2. cbn [n_wrun n_wcalc nd_wait] in E1, E2. rewrite Er in E1. rewrite Ec in E2. rewrite E1, E2 in Ew. cbn [length] in Ew.
      apply mem_In in Ewt. change (d_waiting d1) with (d_waiting d) in Ewt.
      pose proof (h_wne _ _ _ HH w Ewt) as Hne. fold nd in Hne. unfold wln in Hne.
      destruct (n_wrun nd) as [|a ra]; [destruct (n_wcalc nd) as [|b rb]; [contradiction|]|]; cbn [length] in *; nlia. }
  assert (H1 : CL d1) by (apply CL_set_node; auto).
  pose proof (NN_set_node d w nw2 Hw) as En. fold nd in En. fold d1 in En.
  assert (Hq : QQ d1 = QQ d) by reflexivity.
  fold moved. destruct moved.
  - split.
    + apply (CL_q d1); auto.
      * intros x Hx. simpl in Hx. apply in_app_iff in Hx. destruct Hx as [Hx|[<-|[]]]; [apply (cl_r _ H1); exact Hx|].
        split; auto. apply (exn_set_same d w nw2).
      * apply (cl_t _ H1).
      * apply (cl_c _ H1).
    + set (d2 := set_waiting (set_ready d1 (d_ready d1 ++ [w])) (rem w (d_waiting d1))).
      assert (E2 : NN d2 = NN d1) by (apply NN_q; reflexivity).
      unfold PHI. rewrite E2. unfold QQ in *. unfold d2. cbn [d_ready d_torun d_cur set_ready set_waiting] in *.
      rewrite app_length. simpl length. change (d_cur d1) with (d_cur d). change (d_ready d1) with (d_ready d).
      change (d_torun d1) with (d_torun d). lia.
  - split; auto. unfold PHI. lia.
Qed.

Lemma wake_T p fs l : forall d, HI tasks (Some p) d -> CL d -> incl l Ud -> (forall w, In w l -> exn d w) ->
  let d' := wake tasks d p fs l in CL d' /\ PHI d' <= PHI d.
Proof.
  induction l as [|w r IH]; intros d HH H Hl Hex; cbn [Dispatch.wake]; cbv zeta.
  - split; auto.
  - destruct (wake_one_H tasks wake_rank calc_rank p fs d w HH (Hex w (or_introl eq_refl))) as (H1 & _ & E1 & _).
    destruct (wake_one_T p fs d w HH H (Hl w (or_introl eq_refl))) as (C1 & P1).
    destruct (IH (wake_one tasks d p fs w) H1 C1) as (C2 & P2).
    + intros z Hz. apply Hl. right. exact Hz.
    + intros z Hz. apply E1. apply Hex. right. exact Hz.
    + split; auto. lia.
Qed.

Lemma update_waiting_T d p : HI tasks p d -> CL d ->
  let d' := update_waiting d p in CL d' /\ PHI d' <= PHI d.
Proof.
  intros HH H. cbv zeta. unfold Dispatch.update_waiting. destruct p as [p|]; [|split; auto].
  rewrite (h_nws _ _ _ HH p).
  assert (Hwake : forall s, let d' := wake tasks d p s (wake_order wake_rank p (n_wme (node_of d p))) in
            CL d' /\ PHI d' <= PHI d).
  { intros s. apply wake_T; auto.
    - unfold wake_order. apply sort_by_incl. destruct (cl_n _ H p) as (_ & _ & C & _). exact C.
    - intros w Hw. unfold wake_order in Hw. apply sort_by_In in Hw. apply (h_wex _ _ _ HH w p). exact Hw. }
  destruct (n_st (node_of d p)); try apply Hwake. split; auto.
Qed.

(* ---------- the runner ---------- *)
Notation set_status := (set_status tasks).

Lemma set_status_T d k s : CL d -> In k Ud -> CL (set_status d k s) /\ PHI (set_status d k s) = PHI d.
Proof.
  intros H Hk. unfold Runner.set_status. split.
  - apply CL_set_node; auto. destruct (cl_n _ H k) as (A & B & C & D). repeat split; auto.
  - unfold PHI. pose proof (NN_set_node d k (nd_st (node_of d k) s) Hk) as E.
    change (NW k (nd_st (node_of d k) s)) with (NW k (node_of d k)) in E.
    change (QQ (set_node d k (nd_st (node_of d k) s))) with (QQ d). lia.
Qed.

Definition RT (c : nat) (r : rstate) : Prop := CL (r_d r) /\ PHI (r_d r) <= c.

Lemma RT_set c k r s : In k Ud -> RT c r -> RT c (with_d r (set_status (r_d r) k s)).
Proof.
  intros Hk [A B]. destruct (set_status_T (r_d r) k s A Hk) as [A' B']. split; cbn [r_d with_d]; auto. lia.
Qed.

Lemma select_task_RT c k r b r1 : In k Ud -> RT c r -> select_task tasks continue_ always r k = (b, r1) -> RT c r1.
Proof.
  intros Hk. apply (select_task_pres tasks continue_ always (RT c) k).
  - intros r0 s H. apply RT_set; auto.
  - intros r0 e H _. exact H.
  - intros r0 kd H. unfold handle_error, handle_error_gen, RT. simpl. apply (RT_set c k r0 SFailure Hk H).
Qed.

Lemma process_result_RT c k r : In k Ud -> RT c r -> RT c (process_result tasks continue_ r k).
Proof.
  intros Hk H. unfold process_result, handle_error, handle_error_gen.
  destruct (t_outcome (get_task k)); auto;
    first [apply (RT_set c k r SSuccess Hk H)|apply (RT_set c k r SFailure Hk H)|apply (RT_set c k r SFailureV Hk H)].
Qed.

Lemma serial_T fuel : forall r last,
  HI tasks last (r_d r) -> PS tasks None (r_d r) -> CL (r_d r) -> PHI (r_d r) < fuel ->
  snd (serial tasks wake_rank calc_rank continue_ always fuel r last) <> StopFuel.
Proof.
  induction fuel as [|fuel IH]; intros r last HH P C Hf; cbn [Runner.serial]; [lia|].
  destruct (r_stop r); [simpl; discriminate|].
  destruct (disp_send tasks wake_rank calc_rank (S fuel) (r_d r) last) as [y d] eqn:Ed.
  unfold Dispatch.disp_send in Ed.
  destruct (update_waiting_H tasks wake_rank calc_rank (r_d r) last HH) as (H0 & S0 & _).
  destruct (update_waiting_T (r_d r) last HH C) as (C0 & F0).
  pose proof (disp_run_H tasks wake_rank calc_rank _ _ _ _ H0 (PS_same _ _ _ _ S0 P) Ed) as G.
  destruct (disp_run_T _ _ _ _ C0 Ed) as (T1 & T2).
  destruct y as [k| | |path|]; try (simpl; discriminate).
  - destruct G as (H1 & P1 & C1). destruct (T2 k eq_refl) as (C2 & Fd).
    destruct (cl_c _ C2 k C1) as [Hk _].
    set (p0 := n_pc (node_of d k)).
    assert (R0 : RH tasks k p0 (with_d r d)).
    { split; [apply HI_strengthen; exact H1|]. split; [exact C1|]. split; [|reflexivity].
      intros me Hne. apply (p_all _ _ _ P1). congruence. }
    assert (Q0 : RT (PHI d) (with_d r d)) by (split; cbn [r_d with_d]; auto).
    pose proof (p_exc _ _ _ P1 k eq_refl) as Hp0. fold p0 in Hp0.
    destruct (select_task tasks continue_ always (with_d r d) k) as [b r1] eqn:Esel.
    pose proof (select_task_RH tasks wake_rank calc_rank continue_ always k p0 _ _ _ R0 Esel) as R1.
    pose proof (select_task_RT _ k _ _ _ Hk Q0 Esel) as Q1.
    destruct b.
    + destruct (is_interrupt tasks k) eqn:Ei; [simpl; discriminate|].
      assert (R2 : RH tasks k p0 (start_task tasks r1 k)) by exact R1.
      assert (Q2 : RT (PHI d) (start_task tasks r1 k)) by exact Q1.
      pose proof (process_result_RH tasks wake_rank calc_rank continue_ k p0 _ R2) as R3.
      pose proof (process_result_RT _ k _ Hk Q2) as Q3.
      pose proof (process_result_final tasks continue_ (start_task tasks r1 k) k Ei) as F3.
      destruct R3 as (H3 & C3 & S3). destruct Q3 as (C4 & F4).
      apply IH; auto.
      * apply (PS_of_PSo tasks k p0); auto. unfold pstn. destruct S3 as [_ ->].
        unfold Dispatch.st_of in F3.
        destruct Hp0 as [->|[-> _]]; [|exact F3]. split; [|intros _; exact F3].
        intros E0. rewrite E0 in F3. discriminate.
      * lia.
    + destruct (select_false_st tasks continue_ always _ _ _ Esel) as [F1 F2]. destruct R1 as (H3 & C3 & S3).
      destruct Q1 as (C4 & F4).
      apply IH; auto.
      * apply (PS_of_PSo tasks k p0); auto. unfold pstn. destruct S3 as [_ ->].
        destruct Hp0 as [->|[-> Hn]]; [split; [exact F1|intros En; apply F2; left; exact En]|].
        apply F2. right. exact Hn.
      * lia.
  - simpl. intros _. apply T1; [lia|reflexivity].
Qed.

Lemma CL_init sel : incl sel Ud -> CL (disp_init sel).
Proof.
  intros Hs. split; simpl; auto.
  - intros k. apply nin_new.
  - intros x [].
  - intros x Hx. discriminate.
Qed.

Theorem serial_terminates_in sel : incl sel Ud -> forall fuel, PHI (disp_init sel) < fuel ->
  snd (serial tasks wake_rank calc_rank continue_ always fuel (r_init sel) None) <> StopFuel.
Proof.
  intros Hs fuel Hf. apply serial_T; simpl; auto.
  - apply HI_init.
  - apply PS_init.
  - apply CL_init. exact Hs.
Qed.

End T.

(* ---------- the universe of a finite task table ---------- *)
Definition finite_table (tasks : name -> option task) (univ : list name) : Prop :=
  forall k, ~ In k univ -> tasks k = None.

Definition tnames (t : task) : list name :=
  t_task_dep t ++ t_setup t ++ t_calc_dep t ++ t_calc_new_task t ++ t_calc_new_impl t ++ t_calc_new_calc t.
Definition universe (tasks : name -> option task) (univ selection : list name) : list name :=
  nodup N.eq_dec (selection ++ univ ++ flat_map (fun k => tnames (get_task tasks k)) univ).
Definition calc_bound (tasks : name -> option task) (univ : list name) : nat :=
  sumN (fun k => length (t_calc_new_task (get_task tasks k))) univ.
(* the fuel that is always enough *)
Definition enough_fuel (tasks : name -> option task) (univ selection : list name) : nat :=
  S (PHI tasks (universe tasks univ selection) (calc_bound tasks univ) (disp_init selection)).

Lemma get_task_outside tasks univ k : finite_table tasks univ -> ~ In k univ -> get_task tasks k = empty_task.
Proof. intros Hf Hk. unfold get_task. rewrite (Hf k Hk). reflexivity. Qed.

Lemma universe_closed tasks univ selection :
  finite_table tasks univ -> tclosed tasks (universe tasks univ selection).
Proof.
  intros Hf k. destruct (in_dec N.eq_dec k univ) as [Hin|Hn].
  - assert (Hs : incl (tnames (get_task tasks k)) (universe tasks univ selection)).
    { intros x Hx. unfold universe. apply nodup_In. apply in_or_app. right. apply in_or_app. right.
      apply in_flat_map. exists k. split; auto. }
    unfold tnames in Hs.
    repeat split; intros x Hx; apply Hs; rewrite !in_app_iff; tauto.
  - rewrite (get_task_outside tasks univ k Hf Hn). simpl. repeat split; intros x [].
Qed.

Lemma calc_bound_ok tasks univ : finite_table tasks univ ->
  forall c, length (t_calc_new_task (get_task tasks c)) <= calc_bound tasks univ.
Proof.
  intros Hf c. destruct (in_dec N.eq_dec c univ) as [Hin|Hn].
  - unfold calc_bound. apply (sumN_In_le (fun k => length (t_calc_new_task (get_task tasks k))) univ c Hin).
  - rewrite (get_task_outside tasks univ c Hf Hn). simpl. lia.
Qed.

(* A serial run over a finite task table terminates: above an explicit amount of fuel the model never
   answers "out of fuel", whatever the graph, the selection, the flags and the set-order oracles. *)
Theorem serial_terminates_explicit tasks univ selection : finite_table tasks univ ->
  forall wake_rank calc_rank continue_ always fuel, enough_fuel tasks univ selection <= fuel ->
  snd (serial tasks wake_rank calc_rank continue_ always fuel (r_init selection) None) <> StopFuel.
Proof.
  intros Hf wake_rank calc_rank continue_ always fuel Hfuel.
  apply (serial_terminates_in tasks (universe tasks univ selection) (calc_bound tasks univ)).
  - apply NoDup_nodup.
  - apply universe_closed. exact Hf.
  - apply calc_bound_ok. exact Hf.
  - intros x Hx. unfold universe. apply nodup_In. apply in_or_app. left. exact Hx.
  - unfold enough_fuel in Hfuel. lia.
Qed.

Theorem serial_terminates :
  forall tasks univ selection, finite_table tasks univ ->
  exists N : nat, forall wake_rank calc_rank continue_ always fuel, (N <= fuel)%nat ->
    snd (serial tasks wake_rank calc_rank continue_ always fuel (r_init selection) None) <> StopFuel.
Proof.
  intros tasks univ selection Hf. exists (enough_fuel tasks univ selection).
  intros. apply (serial_terminates_explicit tasks univ selection); auto.
Qed.

(* with enough fuel the exit code of the model is never the out-of-fuel code 99 *)
Theorem run_serial_exit_code_not_99 tasks univ selection : finite_table tasks univ ->
  forall wake_rank calc_rank continue_ always fuel, enough_fuel tasks univ selection <= fuel ->
  snd (run_serial tasks wake_rank calc_rank continue_ always fuel selection) <> 99%N.
Proof.
  intros Hf wake_rank calc_rank continue_ always fuel Hfuel.
  pose proof (serial_terminates_explicit tasks univ selection Hf wake_rank calc_rank continue_ always fuel Hfuel) as Hs.
  unfold run_serial.
  destruct (serial tasks wake_rank calc_rank continue_ always fuel (r_init selection) None) as [r' s] eqn:E.
  simpl in Hs.
  destruct (serial_TInv tasks wake_rank calc_rank continue_ always fuel _ _ _ _ (TInv_init tasks selection) E)
    as [r0 [HT [[A _]|[_ ->]]]]; [contradiction|].
  simpl. destruct s; simpl; try discriminate; [|contradiction].
  rewrite (t_code _ _ HT). unfold code_of. destruct (fail_kinds (r_tr r0)); [discriminate|].
  destruct (forallb (N.eqb 0) (n :: l)); discriminate.
Qed.

(* over an acyclic graph (no cycle through effective dependencies) and a finite table the serial run
   completes: it ends normally (all done / stopped by a failure) or by an interrupt raised in an action *)
Theorem serial_acyclic_completes tasks univ selection : finite_table tasks univ ->
  (forall k, ~ reach tasks k k) ->
  forall wake_rank calc_rank continue_ always fuel, enough_fuel tasks univ selection <= fuel ->
  let s := snd (serial tasks wake_rank calc_rank continue_ always fuel (r_init selection) None) in
  s = StopNormal \/ exists k, s = StopInterrupt k.
Proof.
  intros Hf Hac wake_rank calc_rank continue_ always fuel Hfuel. cbv zeta.
  pose proof (serial_terminates_explicit tasks univ selection Hf wake_rank calc_rank continue_ always fuel Hfuel) as Hs.
  destruct (serial_acyclic_no_diagnostic tasks wake_rank calc_rank continue_ always fuel selection Hac) as [Hh Hc].
  revert Hs Hh Hc. unfold run_serial.
  destruct (serial tasks wake_rank calc_rank continue_ always fuel (r_init selection) None) as [r' s] eqn:E.
  simpl. intros Hs Hh Hc. destruct s as [|p| |k|]; auto.
  - exfalso. apply (Hc p). apply in_or_app. right. left. reflexivity.
  - exfalso. apply Hh. apply in_or_app. right. left. reflexivity.
  - right. exists k. reflexivity.
  - contradiction.
Qed.

Print Assumptions serial_terminates_explicit.
Print Assumptions serial_terminates.
Print Assumptions run_serial_exit_code_not_99.
Print Assumptions serial_acyclic_completes.
