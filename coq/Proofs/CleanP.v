(* CleanP.v -- proofs about Model/Clean.v *)
From Coq Require Import Permutation Relations Sorting.Sorted.
From DoitV Require Import Base Clean.
Local Open Scope nat_scope.

(* ================================================================== generalities *)
Definition before {A} (x y : A) (l : list A) : Prop :=
  exists l1 l2 l3, l = l1 ++ x :: l2 ++ y :: l3.

Lemma before_app_l {A} (x y : A) l r : before x y l -> before x y (l ++ r).
Proof.
  intros (l1 & l2 & l3 & ->). exists l1, l2, (l3 ++ r).
  repeat (rewrite <- app_assoc; simpl). reflexivity.
Qed.

Lemma before_app_r {A} (x y : A) l r : before x y r -> before x y (l ++ r).
Proof.
  intros (l1 & l2 & l3 & ->). exists (l ++ l1), l2, l3.
  repeat (rewrite <- app_assoc; simpl). reflexivity.
Qed.

Lemma before_split {A} (x y : A) l r : In x l -> In y r -> before x y (l ++ r).
Proof.
  intros Hx Hy. apply in_split in Hx. destruct Hx as (a & b & ->).
  apply in_split in Hy. destruct Hy as (c & d & ->).
  exists a, (b ++ c), d. repeat (rewrite <- app_assoc; simpl). reflexivity.
Qed.

Lemma before_In {A} (x y : A) l : before x y l -> In x l /\ In y l.
Proof.
  intros (l1 & l2 & l3 & ->). split.
  - apply in_or_app. right. left. reflexivity.
  - apply in_or_app. right. right. apply in_or_app. right. left. reflexivity.
Qed.

Lemma In_before_or {A} (dec : forall a b : A, {a = b} + {a <> b}) (x y : A) l :
  In x l -> In y l -> x <> y -> before x y l \/ before y x l.
Proof.
  induction l as [|a l IH]; simpl; [tauto|].
  intros Hx Hy Hne.
  destruct (dec a x) as [->|Hax].
  - destruct Hy as [Hy|Hy]; [congruence|]. left.
    apply in_split in Hy. destruct Hy as (p & q & ->). exists [], p, q. reflexivity.
  - destruct (dec a y) as [->|Hay].
    + destruct Hx as [Hx|Hx]; [congruence|]. right.
      apply in_split in Hx. destruct Hx as (p & q & ->). exists [], p, q. reflexivity.
    + destruct Hx as [Hx|Hx]; [congruence|]. destruct Hy as [Hy|Hy]; [congruence|].
      destruct (IH Hx Hy Hne) as [H|H]; [left|right]; apply (before_app_r _ _ [a]); exact H.
Qed.

Definition acyclic {A} (R : A -> A -> Prop) : Prop := forall x, ~ clos_trans A R x x.

Lemma rt_eq_or_t {A} (R : A -> A -> Prop) x y :
  clos_refl_trans A R x y -> x = y \/ clos_trans A R x y.
Proof.
  induction 1 as [x y H| x | x y z H1 IH1 H2 IH2].
  - right. apply t_step; auto.
  - left; reflexivity.
  - destruct IH1 as [->|IH1]; destruct IH2 as [->|IH2]; auto.
    right. apply t_trans with y; auto.
Qed.

Lemma step_rt_cycle {A} (R : A -> A -> Prop) x y :
  R x y -> clos_refl_trans A R y x -> clos_trans A R x x.
Proof.
  intros H Hrt. destruct (rt_eq_or_t R y x Hrt) as [->|Ht].
  - apply t_step; auto.
  - apply t_trans with y; auto. apply t_step; auto.
Qed.

Lemma clos_trans_sub {A} (R S : A -> A -> Prop) :
  (forall x y, R x y -> S x y) -> forall x y, clos_trans A R x y -> clos_trans A S x y.
Proof.
  intros Hsub x y Hx. induction Hx as [x y H|x y z H1 IH1 H2 IH2].
  - apply t_step. apply Hsub. exact H.
  - apply t_trans with y; assumption.
Qed.

Lemma acyclic_sub {A} (R S : A -> A -> Prop) :
  (forall x y, R x y -> S x y) -> acyclic S -> acyclic R.
Proof.
  intros Hsub Hac x Hx. apply (Hac x). apply (clos_trans_sub R S Hsub). exact Hx.
Qed.
(* ================================================================== nodes (the OrderedDict) *)
Lemma keys_app a b : keys (a ++ b) = keys a ++ keys b.
Proof. unfold keys. apply map_app. Qed.

Lemma incl_keys (a b : nodes) : incl a b -> incl (keys a) (keys b).
Proof.
  intros H k Hk. unfold keys in *. apply in_map_iff in Hk. destruct Hk as [[k' l] [<- Hin]].
  apply in_map_iff. exists (k', l). split; auto.
Qed.

Lemma pop_None k ns : pop k ns = None <-> ~ In k (keys ns).
Proof.
  induction ns as [|[k' l] r IH]; simpl.
  - split; auto.
  - destruct (N.eqb_spec k' k) as [->|Hne].
    + split; [discriminate|]. intros H. exfalso. apply H. left. reflexivity.
    + destruct (pop k r) as [[l' r']|] eqn:E.
      * split; [discriminate|]. intros H. exfalso.
        assert (X : ~ In k (keys r)) by (intro; apply H; right; auto).
        apply IH in X. congruence.
      * split; auto. intros _ [H|H]; [congruence|]. apply IH; auto.
Qed.

Lemma pop_Some k ns l ns' : pop k ns = Some (l, ns') ->
  In (k, l) ns /\ incl ns' ns /\ Permutation (keys ns) (k :: keys ns') /\ length ns = S (length ns').
Proof.
  revert l ns'. induction ns as [|[k' l'] r IH]; simpl; intros l ns' H; [discriminate|].
  destruct (N.eqb_spec k' k) as [->|Hne].
  - inversion H; subst. repeat split; auto. intros x Hx; right; auto.
  - destruct (pop k r) as [[l1 r1]|] eqn:E; [|discriminate]. inversion H; subst.
    destruct (IH l r1 eq_refl) as (H1 & H2 & H3 & H4). repeat split.
    + right; auto.
    + intros x [<-|Hx]; [left; auto|right; auto].
    + simpl. rewrite perm_swap. apply perm_skip. exact H3.
    + simpl. rewrite H4. reflexivity.
Qed.

Lemma pop_Some_nodup k ns l ns' : pop k ns = Some (l, ns') -> NoDup (keys ns) ->
  NoDup (keys ns') /\ ~ In k (keys ns').
Proof.
  intros H Hnd. destruct (pop_Some _ _ _ _ H) as (_ & _ & Hp & _).
  apply (Permutation_NoDup Hp) in Hnd. inversion Hnd; subst. split; auto.
Qed.

Lemma children_of_entry ns k l : NoDup (keys ns) -> In (k, l) ns -> children_of ns k = l.
Proof.
  induction ns as [|[k' l'] r IH]; simpl; [tauto|].
  intros Hnd [H|H].
  - inversion H; subst. rewrite N.eqb_refl. reflexivity.
  - inversion Hnd; subst. destruct (N.eqb_spec k' k) as [->|Hne].
    + exfalso. apply H2. unfold keys. apply in_map_iff. exists (k, l). split; auto.
    + apply IH; auto.
Qed.

(* ================================================================== flat / _get_leafs *)
Section Flat.
  Variable ns0 : nodes.
  Hypothesis Hnd0 : NoDup (keys ns0).
  (* c is recorded as depending on d *)
  Definition E (c d : name) : Prop := In c (children_of ns0 d).
  Definition sub (ns : nodes) : Prop := NoDup (keys ns) /\ incl ns ns0.

  Definition GL (rec : nodes -> name -> list name -> res (list name * nodes)) : Prop :=
    forall ns n out ns', sub ns -> ~ In n (keys ns) -> rec ns n (children_of ns0 n) = Ok (out, ns') ->
      sub ns' /\ incl ns' ns /\ Permutation (out ++ keys ns') (n :: keys ns) /\
      (forall d c, In d out -> E c d -> ~ In c (keys ns')) /\
      (forall y, In y out -> clos_refl_trans name E y n) /\
      (acyclic E -> forall d c, In d out -> E c d -> In c out -> before c d out).

  Lemma leafs_list_spec rec : GL rec -> forall cs ns o ns', sub ns -> leafs_list rec ns cs = Ok (o, ns') ->
      sub ns' /\ incl ns' ns /\ Permutation (o ++ keys ns') (keys ns) /\
      (forall c, In c cs -> ~ In c (keys ns')) /\
      (forall d c, In d o -> E c d -> ~ In c (keys ns')) /\
      (forall y, In y o -> exists c, In c cs /\ clos_refl_trans name E y c) /\
      (acyclic E -> forall d c, In d o -> E c d -> In c o -> before c d o).
  Proof.
    intros Hrec. induction cs as [|c r IH]; intros ns o ns' Hsub H; simpl in H.
    - inversion H; subst. repeat split; try (apply Hsub); auto; try (intros x Hx; auto; fail); simpl; try tauto.
    - destruct (pop c ns) as [[grand ns1]|] eqn:Ep.
      + destruct (pop_Some _ _ _ _ Ep) as (Hent & Hinc1 & Hperm1 & _).
        destruct (pop_Some_nodup _ _ _ _ Ep (proj1 Hsub)) as (Hnd1 & Hc1).
        assert (Hsub1 : sub ns1) by (split; auto; intros x Hx; apply Hsub; auto).
        assert (Hg : grand = children_of ns0 c).
        { symmetry. apply children_of_entry; auto. apply Hsub; auto. }
        subst grand.
        destruct (rec ns1 c (children_of ns0 c)) as [[o1 ns2]| | |] eqn:Er; try discriminate.
        destruct (leafs_list rec ns2 r) as [[o2 ns3]| | |] eqn:El; try discriminate.
        inversion H; subst o ns'. clear H.
        destruct (Hrec _ _ _ _ Hsub1 Hc1 Er) as (Hsub2 & Hinc2 & Hperm2 & H3 & H4 & H5).
        destruct (IH _ _ _ Hsub2 El) as (Hsub3 & Hinc3 & Hperm3 & I2 & I3 & I4 & I5).
        assert (K32 : incl (keys ns3) (keys ns2)) by (apply incl_keys; auto).
        assert (K21 : incl (keys ns2) (keys ns1)) by (apply incl_keys; auto).
        assert (Ho2 : forall x, In x o2 -> In x (keys ns2)).
        { intros x Hx. apply (Permutation_in _ Hperm3). apply in_or_app; auto. }
        repeat split; try (apply Hsub3).
        * intros x Hx. apply Hinc1, Hinc2, Hinc3, Hx.
        * rewrite <- app_assoc. rewrite Hperm3. rewrite Hperm2. symmetry. exact Hperm1.
        * intros c' [<-|Hc'].
          -- intro X. apply Hc1. apply K21, K32, X.
          -- apply I2; auto.
        * intros d c' Hd HE. apply in_app_or in Hd. destruct Hd as [Hd|Hd].
          -- intro X. apply (H3 d c' Hd HE). apply K32, X.
          -- apply (I3 d c' Hd HE).
        * intros y Hy. apply in_app_or in Hy. destruct Hy as [Hy|Hy].
          -- exists c. split; [left; auto|]. apply H4; auto.
          -- destruct (I4 y Hy) as (c' & Hc' & Hr). exists c'. split; [right; auto|auto].
        * intros Hac d c' Hd HE Hc'. apply in_app_or in Hd. apply in_app_or in Hc'.
          destruct Hd as [Hd|Hd]; destruct Hc' as [Hc'|Hc'].
          -- apply before_app_l. apply H5; auto.
          -- exfalso. apply (H3 d c' Hd HE). apply Ho2; auto.
          -- apply before_split; auto.
          -- apply before_app_r. apply I5; auto.
      + apply pop_None in Ep.
        destruct (IH _ _ _ Hsub H) as (Hsub3 & Hinc3 & Hperm3 & I2 & I3 & I4 & I5).
        repeat split; try (apply Hsub3); auto.
        * intros c' [<-|Hc'].
          -- intro X. apply Ep. apply (incl_keys _ _ Hinc3), X.
          -- apply I2; auto.
        * intros y Hy. destruct (I4 y Hy) as (c' & Hc' & Hr). exists c'. split; [right; auto|auto].
  Qed.

  Lemma get_leafs_spec fuel : GL (get_leafs fuel).
  Proof.
    induction fuel as [|f IH]; intros ns n out ns' Hsub Hn H; simpl in H; [discriminate|].
    destruct (leafs_list (get_leafs f) ns (children_of ns0 n)) as [[o ns1]| | |] eqn:El; try discriminate.
    inversion H; subst out ns'. clear H.
    destruct (leafs_list_spec _ IH _ _ _ _ Hsub El) as (Hsub1 & Hinc1 & Hperm1 & I2 & I3 & I4 & I5).
    assert (R4 : forall y, In y (o ++ [n]) -> clos_refl_trans name E y n).
    { intros y Hy. apply in_app_or in Hy. destruct Hy as [Hy|[<-|[]]].
      - destruct (I4 y Hy) as (c & Hc & Hr). apply rt_trans with c; auto. apply rt_step. exact Hc.
      - apply rt_refl. }
    repeat split; try (apply Hsub1); auto.
    - rewrite <- app_assoc. simpl. rewrite <- Permutation_middle. apply perm_skip. exact Hperm1.
    - intros d c Hd HE. apply in_app_or in Hd. destruct Hd as [Hd|[<-|[]]].
      + apply (I3 d c Hd HE).
      + apply I2. exact HE.
    - intros Hac d c Hd HE Hc. apply in_app_or in Hd. apply in_app_or in Hc.
      destruct Hd as [Hd|[<-|[]]]; destruct Hc as [Hc|[<-|[]]].
      + apply before_app_l. apply I5; auto.
      + exfalso. apply (Hac n). apply step_rt_cycle with d; auto.
        apply R4. apply in_or_app; auto.
      + apply before_split; auto. left; auto.
      + exfalso. apply (Hac n). apply t_step. exact HE.
  Qed.

  Lemma flat_cons f h ch rest :
    flat (S f) ((h, ch) :: rest) =
    match get_leafs (S f) rest h ch with
    | Ok (o, ns') => match flat f ns' with Ok r => Ok (o ++ r) | KeyErr => KeyErr | InvalidCmd => InvalidCmd | OutOfFuel => OutOfFuel end
    | KeyErr => KeyErr | InvalidCmd => InvalidCmd | OutOfFuel => OutOfFuel
    end.
  Proof. reflexivity. Qed.

  Lemma flat_spec fuel : forall ns out, sub ns -> flat fuel ns = Ok out ->
    Permutation out (keys ns) /\
    (acyclic E -> forall d c, In d out -> E c d -> In c out -> before c d out).
  Proof.
    induction fuel as [|f IH]; intros ns out Hsub H; destruct ns as [|[h ch] rest].
    - simpl in H. inversion H; subst. split; auto. simpl; tauto.
    - simpl in H. discriminate.
    - simpl in H. inversion H; subst. split; auto. simpl; tauto.
    - rewrite flat_cons in H. destruct Hsub as [Hnd Hinc]. simpl in Hnd. inversion Hnd as [|? ? Hh Hnd']; subst.
      assert (Hsubr : sub rest) by (split; auto; intros x Hx; apply Hinc; right; auto).
      assert (Hch : ch = children_of ns0 h).
      { symmetry. apply children_of_entry; auto. apply Hinc. left; auto. }
      subst ch.
      destruct (get_leafs (S f) rest h (children_of ns0 h)) as [[o ns1]| | |] eqn:Eg; try discriminate.
      destruct (flat f ns1) as [r| | |] eqn:Ef; try discriminate.
      inversion H; subst out. clear H.
      destruct (get_leafs_spec _ _ _ _ _ Hsubr Hh Eg) as (Hsub1 & Hinc1 & Hperm1 & H3 & H4 & H5).
      destruct (IH _ _ Hsub1 Ef) as (Hpr & Hor).
      split.
      + simpl. rewrite <- Hperm1. apply Permutation_app_head. exact Hpr.
      + intros Hac d c Hd HE Hc. apply in_app_or in Hd. apply in_app_or in Hc.
        destruct Hd as [Hd|Hd]; destruct Hc as [Hc|Hc].
        * apply before_app_l. apply H5; auto.
        * exfalso. apply (H3 d c Hd HE). apply (Permutation_in _ Hpr). exact Hc.
        * apply before_split; auto.
        * apply before_app_r. apply Hor; auto.
  Qed.
End Flat.

(* ================================================================== fuel of flat / _get_leafs *)
Lemma leafs_list_fuel rec f :
  (forall ns n ch, length ns < f -> exists o ns', rec ns n ch = Ok (o, ns') /\ length ns' <= length ns) ->
  forall cs ns, length ns <= f ->
    exists o ns', leafs_list rec ns cs = Ok (o, ns') /\ length ns' <= length ns.
Proof.
  intros Hrec. induction cs as [|c r IH]; intros ns Hl; simpl.
  - exists [], ns. split; auto.
  - destruct (pop c ns) as [[grand ns1]|] eqn:Ep.
    + destruct (pop_Some _ _ _ _ Ep) as (_ & _ & _ & Hlen).
      destruct (Hrec ns1 c grand) as (o1 & ns2 & -> & Hl2); [lia|].
      destruct (IH ns2) as (o2 & ns3 & -> & Hl3); [lia|].
      exists (o1 ++ o2), ns3. split; auto. lia.
    + apply IH; auto.
Qed.

Lemma get_leafs_fuel fuel : forall ns n ch, length ns < fuel ->
  exists o ns', get_leafs fuel ns n ch = Ok (o, ns') /\ length ns' <= length ns.
Proof.
  induction fuel as [|f IH]; intros ns n ch Hl; [lia|]. simpl.
  destruct (leafs_list_fuel (get_leafs f) f IH ch ns) as (o & ns' & -> & Hl'); [lia|].
  exists (o ++ [n]), ns'. split; auto.
Qed.

Lemma flat_fuel fuel : forall ns, length ns <= fuel -> exists out, flat fuel ns = Ok out.
Proof.
  induction fuel as [|f IH]; intros [|[h ch] rest] Hl; simpl in Hl.
  - exists []. reflexivity.
  - lia.
  - exists []. reflexivity.
  - rewrite flat_cons.
    destruct (get_leafs_fuel (S f) rest h ch) as (o & ns' & -> & Hl'); [lia|].
    destruct (IH ns') as (r & ->); [lia|]. exists (o ++ r). reflexivity.
Qed.

(* flat on the whole table of nodes *)
Lemma sub_refl ns : NoDup (keys ns) -> sub ns ns.
Proof. intros H. split; auto. intros x Hx; exact Hx. Qed.

Lemma flat_perm fuel ns out : NoDup (keys ns) -> flat fuel ns = Ok out -> Permutation out (keys ns).
Proof. intros Hnd H. apply (flat_spec ns Hnd fuel ns out (sub_refl ns Hnd) H). Qed.

Lemma flat_order fuel ns out : NoDup (keys ns) -> flat fuel ns = Ok out -> acyclic (E ns) ->
  forall d c, In c (children_of ns d) -> In c out -> In d out -> before c d out.
Proof.
  intros Hnd H Hac d c Hc Hco Hdo.
  apply (proj2 (flat_spec ns Hnd fuel ns out (sub_refl ns Hnd) H) Hac d c); auto.
Qed.

(* ================================================================== build_nodes_with_deps *)
Lemma children_of_snoc ns k x : children_of (ns ++ [(k, [])]) x = children_of ns x.
Proof.
  induction ns as [|[k' l] r IH]; simpl.
  - destruct (N.eqb k x); reflexivity.
  - destruct (N.eqb k' x); auto.
Qed.

Lemma children_of_setdefault k ns x : children_of (setdefault k ns) x = children_of ns x.
Proof. unfold setdefault. destruct (has_key k ns); auto. apply children_of_snoc. Qed.

Lemma keys_setdefault k ns x : In x (keys (setdefault k ns)) <-> x = k \/ In x (keys ns).
Proof.
  unfold setdefault, has_key. destruct (mem k (keys ns)) eqn:E.
  - apply mem_In in E. split; auto. intros [->|H]; auto.
  - rewrite keys_app. simpl. rewrite in_app_iff. simpl. split; intros H; intuition auto.
Qed.

Lemma nodup_setdefault k ns : NoDup (keys ns) -> NoDup (keys (setdefault k ns)).
Proof.
  intros H. unfold setdefault, has_key. destruct (mem k (keys ns)) eqn:E; auto.
  apply mem_false_In in E. rewrite keys_app. simpl.
  apply (Permutation_NoDup (Permutation_cons_append (keys ns) k)). constructor; auto.
Qed.



Lemma keys_append_child k c ns : keys (append_child k c ns) = keys ns.
Proof.
  induction ns as [|[k' l] r IH]; simpl; auto.
  destruct (N.eqb k' k); simpl; auto. rewrite IH. reflexivity.
Qed.

Lemma children_append_other k c ns x : x <> k -> children_of (append_child k c ns) x = children_of ns x.
Proof.
  intros Hne. induction ns as [|[k' l] r IH]; simpl; auto.
  destruct (N.eqb_spec k' k) as [->|Hk]; simpl.
  - destruct (N.eqb_spec k x); [congruence|reflexivity].
  - destruct (N.eqb k' x); auto.
Qed.

Lemma children_append_same k c ns : In k (keys ns) ->
  children_of (append_child k c ns) k = children_of ns k ++ [c].
Proof.
  induction ns as [|[k' l] r IH]; simpl; [tauto|].
  intros H. destruct (N.eqb_spec k' k) as [->|Hk]; simpl.
  - rewrite N.eqb_refl. reflexivity.
  - destruct (N.eqb_spec k' k); [congruence|]. apply IH. destruct H; [congruence|auto].
Qed.

Lemma children_append_mono k c ns x : incl (children_of ns x) (children_of (append_child k c ns) x).
Proof.
  induction ns as [|[k' l] r IH]; simpl; [intros y []|].
  destruct (N.eqb_spec k' k) as [->|Hk]; simpl.
  - destruct (N.eqb k x); [|intros y Hy; exact Hy]. intros y Hy. apply in_or_app. auto.
  - destruct (N.eqb k' x); auto. intros y Hy; exact Hy.
Qed.

Lemma lookup_Some_name tb n t : lookup tb n = Some t -> t_name t = n /\ In t tb.
Proof.
  induction tb as [|t' r IH]; simpl; [discriminate|].
  destruct (N.eqb_spec (t_name t') n) as [He|Hne].
  - intros H; inversion H; subst. split; auto.
  - intros H. destruct (IH H). split; auto.
Qed.

Lemma lookup_Some_In tb n t : lookup tb n = Some t -> In n (names tb).
Proof.
  intros H. destruct (lookup_Some_name _ _ _ H) as [<- Hin]. unfold names. apply in_map. exact Hin.
Qed.

Lemma lookup_None tb n : lookup tb n = None <-> ~ In n (names tb).
Proof.
  induction tb as [|t' r IH]; simpl; [tauto|].
  destruct (N.eqb_spec (t_name t') n) as [He|Hne].
  - split; [discriminate|]. intros H; exfalso; apply H; auto.
  - rewrite IH. tauto.
Qed.

Section Bwd.
  Variable tb : table.
  (* t depends on d: the relation build_nodes_with_deps follows (setup_tasks + task_dep) *)
  Definition dep (t d : name) : Prop := exists tk, lookup tb t = Some tk /\ In d (deps_followed tk).
  Definition reach := clos_refl_trans name dep.
  Definition sound (ns : nodes) : Prop := forall d c, In c (children_of ns d) -> dep c d.

  Definition bpost (ns : nodes) (pr : list name) (ns' : nodes) (pr' : list name) : Prop :=
    NoDup (keys ns') /\ incl pr pr' /\ (forall k, In k (keys ns') <-> In k pr') /\
    sound ns' /\ (forall d, incl (children_of ns d) (children_of ns' d)) /\
    (forall x, In x pr' -> ~ In x pr -> forall d, dep x d -> In d pr' /\ In x (children_of ns' d)).

  Definition GB (rec : tstate -> name -> res tstate) : Prop :=
    forall ns pr n ns' pr', rec (ns, pr) n = Ok (ns', pr') ->
      NoDup (keys ns) -> incl pr (keys ns) -> (forall k, In k (keys ns) -> In k pr \/ k = n) -> sound ns ->
      bpost ns pr ns' pr' /\ In n pr' /\ (forall x, In x pr' -> In x pr \/ reach n x).

  Lemma bwd_list_spec rec n : GB rec -> forall ds ns pr ns' pr',
    bwd_list rec n (ns, pr) ds = Ok (ns', pr') ->
    NoDup (keys ns) -> (forall k, In k (keys ns) <-> In k pr) -> In n pr ->
    (forall d, In d ds -> dep n d) -> sound ns ->
    bpost ns pr ns' pr' /\ (forall d, In d ds -> In d pr' /\ In n (children_of ns' d)) /\
    (forall x, In x pr' -> In x pr \/ exists d, In d ds /\ reach d x).
  Proof.
    intros Hrec. induction ds as [|d r IH]; intros ns pr ns' pr' H Hnd Hk Hn Hds Hs; simpl in H.
    - inversion H; subst. split; [|split].
      + split; [exact Hnd|]. split; [intros x Hx; exact Hx|]. split; [exact Hk|]. split; [exact Hs|].
        split; [intros d y Hy; exact Hy|]. intros x Hx Hnx. contradiction.
      + intros d [].
      + intros x Hx; auto.
    - set (nsa := append_child d n (setdefault d ns)) in *.
      destruct (rec (nsa, pr) d) as [[ns1 pr1]| | |] eqn:Er; try discriminate.
      assert (Kd : In d (keys (setdefault d ns))) by (apply keys_setdefault; auto).
      assert (Hnda : NoDup (keys nsa)).
      { unfold nsa. rewrite keys_append_child. apply nodup_setdefault; auto. }
      assert (Hka : forall k, In k (keys nsa) <-> k = d \/ In k (keys ns)).
      { intros k. unfold nsa. rewrite keys_append_child. apply keys_setdefault. }
      assert (Hsa : sound nsa).
      { intros d' c Hc. unfold nsa in Hc. destruct (N.eq_dec d' d) as [->|Hne].
        - rewrite children_append_same in Hc; auto. apply in_app_or in Hc.
          destruct Hc as [Hc|[<-|[]]].
          + rewrite children_of_setdefault in Hc. apply Hs; auto.
          + apply Hds. left; auto.
        - rewrite children_append_other in Hc; auto. rewrite children_of_setdefault in Hc. apply Hs; auto. }
      assert (Hmono_a : forall x, incl (children_of ns x) (children_of nsa x)).
      { intros x y Hy. unfold nsa. apply children_append_mono. rewrite children_of_setdefault. exact Hy. }
      destruct (Hrec _ _ _ _ _ Er Hnda) as ((P1 & P2 & P3 & P4 & P5 & P6) & Pd & Pr); auto.
      { intros k Hk'. apply Hka. right. apply Hk; auto. }
      { intros k Hk'. apply Hka in Hk'. destruct Hk' as [->|Hk']; auto. left. apply Hk; auto. }
      destruct (IH _ _ _ _ H P1 P3) as ((Q1 & Q2 & Q3 & Q4 & Q5 & Q6) & Qd & Qr); auto.
      { intros d' Hd'. apply Hds. right; auto. }
      split; [|split].
      + split; [exact Q1|]. split; [intros x Hx; apply Q2, P2, Hx|]. split; [exact Q3|]. split; [exact Q4|].
        split.
        * intros x y Hy. apply Q5, P5, Hmono_a, Hy.
        * intros x Hx Hnx d' Hd'.
          destruct (in_dec N.eq_dec x pr1) as [Hx1|Hx1].
          -- destruct (P6 x Hx1 Hnx d' Hd') as [A B]. split; [apply Q2, A|apply Q5, B].
          -- apply (Q6 x Hx Hx1 d' Hd').
      + intros d' [<-|Hd'].
        * split; [apply Q2, Pd|]. apply Q5, P5. unfold nsa. rewrite children_append_same; auto.
          apply in_or_app. right. left. reflexivity.
        * apply Qd; auto.
      + intros x Hx. destruct (Qr x Hx) as [Hx1|(d' & Hd' & Hr)].
        * destruct (Pr x Hx1) as [Hx0|Hr]; auto. right. exists d. split; [left; auto|exact Hr].
        * right. exists d'. split; [right; auto|exact Hr].
  Qed.

  Lemma bwd_spec fuel : GB (bwd fuel tb).
  Proof.
    induction fuel as [|f IH]; intros ns pr n ns' pr' H Hnd Hinc Hk Hs; simpl in H; [discriminate|].
    destruct (mem n pr) eqn:Em.
    - inversion H; subst. apply mem_In in Em. split; [|split]; auto.
      split; [exact Hnd|]. split; [intros x Hx; exact Hx|]. split.
      { intros k. split; [|apply Hinc]. intros Hk'. destruct (Hk _ Hk') as [A| ->]; auto. }
      split; [exact Hs|]. split; [intros d y Hy; exact Hy|]. intros x Hx Hnx. contradiction.
    - apply mem_false_In in Em.
      destruct (lookup tb n) as [t|] eqn:El; [|discriminate].
      destruct (bwd_list_spec (bwd f tb) n IH _ _ _ _ _ H) as ((Q1 & Q2 & Q3 & Q4 & Q5 & Q6) & Qd & Qr).
      + apply nodup_setdefault; auto.
      + intros k. rewrite keys_setdefault. simpl. split.
        * intros [->|Hk']; auto. destruct (Hk _ Hk'); auto.
        * intros [<-|Hk']; auto.
      + left; auto.
      + intros d Hd. exists t. split; auto. apply in_rev. exact Hd.
      + intros d c Hc. rewrite children_of_setdefault in Hc. apply Hs; auto.
      + split; [|split].
        * split; [exact Q1|]. split; [intros x Hx; apply Q2; right; auto|]. split; [exact Q3|].
          split; [exact Q4|]. split.
          -- intros d y Hy. apply Q5. rewrite children_of_setdefault. exact Hy.
          -- intros x Hx Hnx d Hd. destruct (N.eq_dec x n) as [->|Hne].
             ++ destruct Hd as (tk & Htk & Hin). rewrite El in Htk. inversion Htk; subst tk.
                apply Qd. apply -> in_rev. exact Hin.
             ++ apply (Q6 x Hx); auto. intros [A|A]; auto.
        * apply Q2. left; auto.
        * intros x Hx. destruct (Qr x Hx) as [[<-|Hx0]|(d & Hd & Hr)]; auto.
          -- right. apply rt_refl.
          -- right. apply rt_trans with d; auto. apply rt_step. exists t. split; auto. apply in_rev; auto.
  Qed.

  (* state between two top-level calls *)
  Definition topinv (roots : list name) (st : tstate) : Prop :=
    NoDup (keys (fst st)) /\ (forall k, In k (keys (fst st)) <-> In k (snd st)) /\ sound (fst st) /\
    (forall x, In x (snd st) -> forall d, dep x d -> In d (snd st) /\ In x (children_of (fst st) d)) /\
    (forall x, In x (snd st) -> exists s, In s roots /\ reach s x) /\ incl roots (snd st).

  Lemma topinv_init : topinv [] ([], []).
  Proof.
    unfold topinv; simpl. repeat split; auto; try tauto; try constructor.
    - intros d c [].
    - intros x [].
  Qed.

  Lemma bwd_all_spec fuel : forall cl st st' roots, topinv roots st -> bwd_all fuel tb st cl = Ok st' ->
    topinv (roots ++ cl) st'.
  Proof.
    induction cl as [|n r IH]; intros [ns pr] st' roots Hinv H; simpl in H.
    - inversion H; subst. rewrite app_nil_r. exact Hinv.
    - destruct (bwd fuel tb (ns, pr) n) as [[ns1 pr1]| | |] eqn:Eb; try discriminate.
      destruct Hinv as (I1 & I2 & I3 & I4 & I5 & I6). simpl in *.
      destruct (bwd_spec fuel _ _ _ _ _ Eb I1) as ((P1 & P2 & P3 & P4 & P5 & P6) & Pn & Pr); auto.
      { intros k Hk. apply I2; auto. }
      { intros k Hk. left. apply I2; auto. }
      replace (roots ++ n :: r) with ((roots ++ [n]) ++ r) by (rewrite <- app_assoc; reflexivity).
      apply (IH (ns1, pr1)); auto.
      unfold topinv; simpl. split; [exact P1|]. split; [exact P3|]. split; [exact P4|]. split; [|split].
      + intros x Hx d Hd. destruct (in_dec N.eq_dec x pr) as [Hx0|Hx0].
        * destruct (I4 x Hx0 d Hd) as [A B]. split; [apply P2, A|apply P5, B].
        * apply (P6 x Hx Hx0 d Hd).
      + intros x Hx. destruct (Pr x Hx) as [Hx0|Hr].
        * destruct (I5 x Hx0) as (s & Hs & Hr). exists s. split; auto. apply in_or_app; auto.
        * exists n. split; auto. apply in_or_app. right. left. reflexivity.
      + intros s Hs. apply in_app_or in Hs. destruct Hs as [Hs|[<-|[]]]; auto.
  Qed.

  Lemma topinv_closed roots st s x : topinv roots st -> In s (snd st) -> reach s x -> In x (snd st).
  Proof.
    intros (I1 & I2 & I3 & I4 & I5 & I6) Hs Hr. apply clos_rt_rt1n in Hr.
    induction Hr as [|a b c Hab Hbc IH]; auto. apply IH. apply (I4 a Hs b Hab).
  Qed.

  (* the set of nodes built with dependencies = everything reachable from the clean list *)
  Lemma bwd_all_set fuel cl ns pr : bwd_all fuel tb ([], []) cl = Ok (ns, pr) ->
    forall x, In x (keys ns) <-> exists s, In s cl /\ reach s x.
  Proof.
    intros H x. pose proof (bwd_all_spec fuel cl _ _ [] topinv_init H) as Hinv. simpl in Hinv.
    pose proof Hinv as (I1 & I2 & I3 & I4 & I5 & I6). simpl in *. split.
    - intros Hx. apply I5. apply I2. exact Hx.
    - intros (s & Hs & Hr). apply I2.
      apply (topinv_closed cl (ns, pr) s x Hinv); auto.
  Qed.

  Lemma bwd_all_order fuel cl ns pr f2 out : bwd_all fuel tb ([], []) cl = Ok (ns, pr) ->
    flat f2 ns = Ok out -> acyclic dep ->
    forall t d, dep t d -> In t out -> In d out -> before t d out.
  Proof.
    intros H Hf Hac t d Htd Ht Hd.
    pose proof (bwd_all_spec fuel cl _ _ [] topinv_init H) as Hinv. simpl in Hinv.
    destruct Hinv as (I1 & I2 & I3 & I4 & I5 & I6). simpl in *.
    pose proof (flat_perm _ _ _ I1 Hf) as Hp.
    apply (flat_order f2 ns out I1 Hf); auto.
    - apply (acyclic_sub (E ns) dep); [|exact Hac]. intros x y Hxy. apply I3. exact Hxy.
    - apply (I4 t); auto. apply I2. apply (Permutation_in _ Hp). exact Ht.
  Qed.
End Bwd.
(* ================================================================== fuel of build_nodes_with_deps *)
Section BwdFuel.
  Variable tb : table.
  Definition okst (pr : list name) : Prop := NoDup pr /\ incl pr (names tb).
  Definition FB (f : nat) (rec : tstate -> name -> res tstate) : Prop :=
    forall ns pr n, okst pr -> length tb - length pr < f ->
      rec (ns, pr) n = KeyErr \/
      exists ns' pr', rec (ns, pr) n = Ok (ns', pr') /\ okst pr' /\ incl pr pr'.

  Lemma okst_len pr : okst pr -> length pr <= length tb.
  Proof.
    intros [H1 H2]. replace (length tb) with (length (names tb)) by (unfold names; apply map_length).
    apply NoDup_incl_length; auto.
  Qed.

  Lemma bwd_list_fuel f rec n : FB f rec -> forall ds ns pr, okst pr -> length tb - length pr < f ->
    bwd_list rec n (ns, pr) ds = KeyErr \/
    exists ns' pr', bwd_list rec n (ns, pr) ds = Ok (ns', pr') /\ okst pr' /\ incl pr pr'.
  Proof.
    intros Hrec. induction ds as [|d r IH]; intros ns pr Hok Hl; simpl.
    - right. exists ns, pr. repeat split; try apply Hok. intros x Hx; exact Hx.
    - destruct (Hrec (append_child d n (setdefault d ns)) pr d Hok Hl) as [->|(ns1 & pr1 & -> & Hok1 & Hi1)]; auto.
      assert (Hl1 : length pr <= length pr1) by (apply NoDup_incl_length; [apply Hok|exact Hi1]).
      assert (Hl2 : length tb - length pr1 < f) by lia.
      destruct (IH ns1 pr1 Hok1 Hl2) as [->|(ns2 & pr2 & -> & Hok2 & Hi2)]; auto.
      right. exists ns2, pr2. repeat split; try apply Hok2. intros x Hx. apply Hi2, Hi1, Hx.
  Qed.

  Lemma bwd_fuel f : FB f (bwd f tb).
  Proof.
    induction f as [|f IH]; intros ns pr n Hok Hl; [lia|]. simpl.
    destruct (mem n pr) eqn:Em.
    - right. exists ns, pr. repeat split; try apply Hok. intros x Hx; exact Hx.
    - apply mem_false_In in Em. destruct (lookup tb n) as [t|] eqn:El; auto.
      assert (Hok1 : okst (n :: pr)).
      { split; [constructor; [exact Em|apply Hok]|]. intros x [<-|Hx]; [apply (lookup_Some_In _ _ _ El)|apply Hok; auto]. }
      pose proof (okst_len _ Hok1) as Hlen. simpl in Hlen.
      assert (Hl2 : length tb - length (n :: pr) < f) by (simpl; lia).
      destruct (bwd_list_fuel f (bwd f tb) n IH (rev (deps_followed t)) (setdefault n ns) (n :: pr) Hok1 Hl2)
        as [->|(ns2 & pr2 & -> & Hok2 & Hi2)]; auto.
      right. exists ns2, pr2. repeat split; try apply Hok2. intros x Hx. apply Hi2. right; auto.
  Qed.

  Lemma bwd_all_fuel cl : forall ns pr, okst pr ->
    bwd_all (S (length tb)) tb (ns, pr) cl = KeyErr \/ exists st, bwd_all (S (length tb)) tb (ns, pr) cl = Ok st.
  Proof.
    induction cl as [|n r IH]; intros ns pr Hok; cbn [bwd_all].
    - right. exists (ns, pr). reflexivity.
    - assert (Hl : length tb - length pr < S (length tb)) by lia.
      destruct (bwd_fuel (S (length tb)) ns pr n Hok Hl) as [->|(ns1 & pr1 & -> & Hok1 & _)]; auto.
  Qed.
End BwdFuel.

(* ================================================================== build_nodes (sub-tasks only) *)
Section BuildNodes.
  Variable tb : table.
  (* d is a sub-task of n that n depends on: the only edge build_nodes follows *)
  Definition subdep (n d : name) : Prop :=
    exists t td, lookup tb n = Some t /\ In d (t_task_dep t) /\ lookup tb d = Some td /\ t_subtask_of td = Some n.

  Lemma bn_deps_spec n : forall ds ns ns', bn_deps tb n ns ds = Ok ns' -> NoDup (keys ns) ->
    NoDup (keys ns') /\
    (forall x, In x (keys ns') <->
               In x (keys ns) \/ (In x ds /\ exists td, lookup tb x = Some td /\ t_subtask_of td = Some n)).
  Proof.
    induction ds as [|d r IH]; intros ns ns' H Hnd; simpl in H.
    - inversion H; subst. split; auto. intros x. split; auto. intros [A|[[] _]]; auto.
    - destruct (lookup tb d) as [td|] eqn:El; [|discriminate].
      assert (Hskip : bn_deps tb n ns r = Ok ns' -> t_subtask_of td <> Some n ->
                NoDup (keys ns') /\ (forall x, In x (keys ns') <-> In x (keys ns) \/
                   (In x (d :: r) /\ exists td0, lookup tb x = Some td0 /\ t_subtask_of td0 = Some n))).
      { intros H' Hne. destruct (IH _ _ H' Hnd) as [A B]. split; auto. intros x. rewrite B. split.
        - intros [C|[C D]]; auto. right. split; auto. right; auto.
        - intros [C|[[<-|C] D]]; auto. destruct D as (td0 & D1 & D2). rewrite El in D1. inversion D1; subst. contradiction. }
      destruct (t_subtask_of td) as [g|] eqn:Eg; [|apply Hskip; auto; discriminate].
      destruct (N.eqb_spec g n) as [->|Hne]; [|apply Hskip; auto; intro X; inversion X; contradiction].
      destruct (IH _ _ H) as [A B].
      { rewrite keys_append_child. apply nodup_setdefault; auto. }
      split; auto. intros x. rewrite B. rewrite keys_append_child. rewrite keys_setdefault. split.
      + intros [[->|C]|[C D]]; auto.
        * right. split; [left; auto|]. exists td. auto.
        * right. split; [right; auto|auto].
      + intros [C|[[<-|C] D]]; auto.
  Qed.

  Lemma build_nodes_spec : forall cl ns ns', build_nodes tb ns cl = Ok ns' -> NoDup (keys ns) ->
    NoDup (keys ns') /\
    (forall x, In x (keys ns') <-> In x (keys ns) \/ In x cl \/ exists n, In n cl /\ subdep n x).
  Proof.
    induction cl as [|n r IH]; intros ns ns' H Hnd; simpl in H.
    - inversion H; subst. split; auto. intros x. split; auto. intros [A|[[]|(n & [] & _)]]; auto.
    - destruct (lookup tb n) as [t|] eqn:El; [|discriminate].
      destruct (bn_deps tb n (setdefault n ns) (rev (t_task_dep t))) as [ns1| | |] eqn:Eb; try discriminate.
      destruct (bn_deps_spec n _ _ _ Eb (nodup_setdefault n ns Hnd)) as [A B].
      destruct (IH _ _ H A) as [C D]. split; auto.
      intros x. rewrite D, B, keys_setdefault. split.
      + intros [[[->|X]|[X (td & Y1 & Y2)]]|[X|(m & X & Y)]]; auto.
        * right. left. left. reflexivity.
        * right. right. exists n. split; [left; auto|]. exists t, td. repeat split; auto. apply in_rev; auto.
        * right. left. right. exact X.
        * right. right. exists m. split; [right; auto|exact Y].
      + intros [X|[[<-|X]|(m & [<-|X] & Y)]]; auto.
        * left. right. destruct Y as (t' & td & Y1 & Y2 & Y3 & Y4). rewrite El in Y1. inversion Y1; subst t'.
          split; [apply -> in_rev; exact Y2|]. exists td. auto.
        * right. right. exists m. auto.
  Qed.
End BuildNodes.
(* ================================================================== paths *)
Lemma path_eqb_eq a b : path_eqb a b = true <-> a = b.
Proof.
  unfold path_eqb. revert b. induction a as [|x a IH]; intros [|y b]; simpl; split; try congruence; auto.
  - intros H. apply andb_true_iff in H. destruct H as [H1 H2]. apply N.eqb_eq in H1. apply IH in H2. congruence.
  - intros H. inversion H; subst. rewrite N.eqb_refl. simpl. apply IH. reflexivity.
Qed.

Lemma path_eqb_refl a : path_eqb a a = true.
Proof. apply path_eqb_eq. reflexivity. Qed.

Lemma path_eqb_neq a b : path_eqb a b = false <-> a <> b.
Proof.
  split.
  - intros H E. apply path_eqb_eq in E. congruence.
  - intros H. destruct (path_eqb a b) eqn:E; auto. apply path_eqb_eq in E. contradiction.
Qed.

Lemma path_dec (a b : path) : {a = b} + {a <> b}.
Proof. apply (list_eq_dec N.eq_dec). Qed.

Lemma path_cmp_refl a : path_cmp a a = Eq.
Proof. induction a as [|x a IH]; simpl; auto. rewrite N.compare_refl. exact IH. Qed.

Lemma path_cmp_eq a : forall b, path_cmp a b = Eq -> a = b.
Proof.
  induction a as [|x a IH]; intros [|y b]; simpl; try congruence.
  destruct (N.compare x y) eqn:E; try discriminate. apply N.compare_eq in E. intros H. apply IH in H. congruence.
Qed.

Lemma path_cmp_antisym a : forall b, path_cmp b a = CompOpp (path_cmp a b).
Proof.
  induction a as [|x a IH]; intros [|y b]; simpl; auto.
  rewrite (N.compare_antisym x y). destruct (N.compare x y); simpl; auto.
Qed.

Lemma path_cmp_trans a : forall b c, path_cmp a b = Lt -> path_cmp b c = Lt -> path_cmp a c = Lt.
Proof.
  induction a as [|x a IH]; intros [|y b] [|z c]; simpl; try congruence.
  destruct (N.compare x y) eqn:E1; try discriminate; destruct (N.compare y z) eqn:E2; try discriminate.
  - apply N.compare_eq in E1. apply N.compare_eq in E2. subst. rewrite N.compare_refl. apply IH.
  - apply N.compare_eq in E1. subst. rewrite E2. auto.
  - apply N.compare_eq in E2. subst. rewrite E1. auto.
  - intros _ _. rewrite N.compare_lt_iff in *. assert (H : (x < z)%N) by (eapply N.lt_trans; eauto).
    apply N.compare_lt_iff in H. rewrite H. reflexivity.
Qed.

(* a path sorts before everything inside it *)
Lemma prefix_lt p : forall r, r <> [] -> path_cmp p (p ++ r) = Lt.
Proof.
  induction p as [|x p IH]; intros r Hr; simpl.
  - destruct r; [congruence|reflexivity].
  - rewrite N.compare_refl. apply IH; auto.
Qed.

Lemma ltb_irrefl a : path_ltb a a = false.
Proof. unfold path_ltb. rewrite path_cmp_refl. reflexivity. Qed.

Lemma ltb_asym a b : path_ltb a b = true -> path_ltb b a = false.
Proof. unfold path_ltb. rewrite (path_cmp_antisym a b). destruct (path_cmp a b); simpl; congruence. Qed.

Lemma ltb_negtrans p q x : path_ltb p x = true -> path_ltb p q = true \/ path_ltb q x = true.
Proof.
  unfold path_ltb. intros H. destruct (path_cmp p q) eqn:E1; auto.
  - apply path_cmp_eq in E1. subst. right. exact H.
  - right. destruct (path_cmp p x) eqn:E2; try discriminate.
    assert (E3 : path_cmp q p = Lt) by (rewrite (path_cmp_antisym p q), E1; reflexivity).
    rewrite (path_cmp_trans q p x E3 E2). reflexivity.
Qed.

Lemma is_child_app p q : is_child p q = true -> exists c, q = p ++ [c].
Proof.
  unfold is_child. destruct q as [|x q]; [discriminate|]. intros H. apply path_eqb_eq in H.
  exists (last (x :: q) 0%N). rewrite <- H. apply app_removelast_last. discriminate.
Qed.

Lemma is_child_lt p q : is_child p q = true -> path_ltb p q = true.
Proof.
  intros H. destruct (is_child_app _ _ H) as [c ->]. unfold path_ltb. rewrite prefix_lt; auto. discriminate.
Qed.

(* ================================================================== sorted(targets, reverse=True) *)
Definition desc (a b : path) : Prop := path_ltb a b = false.

Lemma insert_desc_perm p l : Permutation (insert_desc p l) (p :: l).
Proof.
  induction l as [|q r IH]; simpl; auto.
  destruct (path_ltb p q); auto. rewrite IH. apply perm_swap.
Qed.

Lemma sort_desc_perm l : Permutation (sort_desc l) l.
Proof.
  induction l as [|p l IH]; simpl; auto. rewrite insert_desc_perm. apply perm_skip. exact IH.
Qed.

Lemma insert_desc_sorted p l : StronglySorted desc l -> StronglySorted desc (insert_desc p l).
Proof.
  induction l as [|q r IH]; intros Hs; simpl.
  - constructor; constructor.
  - inversion Hs as [|? ? Hr Hq]; subst. destruct (path_ltb p q) eqn:E.
    + constructor; auto. rewrite Forall_forall in *. intros x Hx.
      apply (Permutation_in _ (insert_desc_perm p r)) in Hx. destruct Hx as [<-|Hx]; auto.
      apply ltb_asym. exact E.
    + constructor; auto. constructor; auto. rewrite Forall_forall in *. intros x Hx. unfold desc.
      destruct (path_ltb p x) eqn:E2; auto. destruct (ltb_negtrans p q x E2) as [A|A]; [congruence|].
      rewrite (Hq x Hx) in A. discriminate.
Qed.

Lemma sort_desc_sorted l : StronglySorted desc (sort_desc l).
Proof. induction l as [|p l IH]; simpl; [constructor|]. apply insert_desc_sorted. exact IH. Qed.

Lemma sorted_before {A} (R : A -> A -> Prop) l x y : StronglySorted R l -> before x y l -> R x y.
Proof.
  intros Hs (l1 & l2 & l3 & ->). induction l1 as [|a l1 IH]; simpl in Hs.
  - inversion Hs as [|? ? _ Hf]; subst. rewrite Forall_forall in Hf. apply Hf.
    apply in_or_app. right. left. reflexivity.
  - inversion Hs; subst. auto.
Qed.

(* whatever lies inside a directory is handled before the directory *)
Lemma sort_desc_inner_first l p q : In p l -> In q l -> path_ltb p q = true -> before q p (sort_desc l).
Proof.
  intros Hp Hq Hlt.
  assert (Hne : q <> p) by (intros ->; rewrite ltb_irrefl in Hlt; discriminate).
  apply (Permutation_in _ (Permutation_sym (sort_desc_perm l))) in Hp.
  apply (Permutation_in _ (Permutation_sym (sort_desc_perm l))) in Hq.
  destruct (In_before_or path_dec q p _ Hq Hp Hne) as [H|H]; auto.
  apply (sorted_before desc _ _ _ (sort_desc_sorted l)) in H. unfold desc in H. congruence.
Qed.

(* ================================================================== the file system *)
Lemma fs_get_remove_same fs p : fs_get (fs_remove fs p) p = None.
Proof.
  induction fs as [|[q k] r IH]; simpl; auto.
  destruct (path_eqb q p) eqn:E; simpl; auto. rewrite E. exact IH.
Qed.

Lemma fs_get_remove_other fs p q : q <> p -> fs_get (fs_remove fs p) q = fs_get fs q.
Proof.
  intros Hne. induction fs as [|[x k] r IH]; simpl; auto.
  destruct (path_eqb x p) eqn:E; simpl.
  - apply path_eqb_eq in E. subst x. destruct (path_eqb p q) eqn:E2; auto.
    apply path_eqb_eq in E2. congruence.
  - destruct (path_eqb x q); auto.
Qed.

Lemma fs_get_Some_In fs q k : fs_get fs q = Some k -> In (q, k) fs.
Proof.
  induction fs as [|[x k'] r IH]; simpl; [discriminate|].
  destruct (path_eqb x q) eqn:E.
  - apply path_eqb_eq in E. intros H; inversion H; subst. left; auto.
  - intros H. right. auto.
Qed.

Lemma In_fs_get fs q k : In (q, k) fs -> fs_get fs q <> None.
Proof.
  induction fs as [|[x k'] r IH]; simpl; [tauto|].
  intros [H|H].
  - inversion H; subst. rewrite path_eqb_refl. discriminate.
  - destruct (path_eqb x q); [discriminate|auto].
Qed.

Lemma nonempty_false fs p q : fs_nonempty fs p = false -> is_child p q = true -> fs_get fs q = None.
Proof.
  intros H Hc. destruct (fs_get fs q) as [k|] eqn:E; auto. apply fs_get_Some_In in E.
  unfold fs_nonempty in H. assert (X : existsb (fun e => is_child p (fst e)) fs = true).
  { apply existsb_exists. exists (q, k). split; auto. }
  congruence.
Qed.

Lemma nonempty_true fs p : fs_nonempty fs p = true -> exists q, is_child p q = true /\ fs_get fs q <> None.
Proof.
  unfold fs_nonempty. intros H. apply existsb_exists in H. destruct H as [[q k] [Hin Hc]].
  exists q. split; auto. apply (In_fs_get _ _ k); auto.
Qed.

Definition shrinks (fs fs' : fsys) : Prop := forall q, fs_get fs' q = fs_get fs q \/ fs_get fs' q = None.

Lemma shrinks_refl fs : shrinks fs fs.
Proof. intros q; auto. Qed.

Lemma shrinks_trans a b c : shrinks a b -> shrinks b c -> shrinks a c.
Proof. intros H1 H2 q. destruct (H2 q) as [A|A]; auto. rewrite A. apply H1. Qed.

Lemma shrinks_none a b q : shrinks a b -> fs_get a q = None -> fs_get b q = None.
Proof. intros H E. destruct (H q) as [A|A]; congruence. Qed.

Lemma shrinks_remove fs p : shrinks fs (fs_remove fs p).
Proof.
  intros q. destruct (path_dec q p) as [->|Hne].
  - right. apply fs_get_remove_same.
  - left. apply fs_get_remove_other; auto.
Qed.

(* one target (task.py 603-616) *)
Lemma clean_target_step t dry w p :
  let w' := clean_target t dry w p in
  w_db w' = w_db w /\
  (w_fs w' = w_fs w \/
   (dry = false /\ w_fs w' = fs_remove (w_fs w) p /\
    (fs_get (w_fs w) p = Some KFile \/ (fs_get (w_fs w) p = Some KDir /\ fs_nonempty (w_fs w) p = false)))).
Proof.
  unfold clean_target. destruct (fs_get (w_fs w) p) as [[|]|] eqn:E; simpl.
  - destruct dry; simpl; split; auto; right; auto.
  - destruct (fs_nonempty (w_fs w) p) eqn:En; simpl; auto.
    destruct dry; simpl; split; auto; right; auto.
  - auto.
Qed.

Lemma clean_target_file t w p : fs_get (w_fs w) p = Some KFile ->
  fs_get (w_fs (clean_target t false w p)) p = None.
Proof. intros E. unfold clean_target. rewrite E. simpl. apply fs_get_remove_same. Qed.

Lemma clean_target_emptydir t w p : fs_get (w_fs w) p = Some KDir -> fs_nonempty (w_fs w) p = false ->
  fs_get (w_fs (clean_target t false w p)) p = None.
Proof. intros E En. unfold clean_target. rewrite E, En. simpl. apply fs_get_remove_same. Qed.

Definition gone_reason (dry : bool) (fs fs' : fsys) (q : path) : Prop :=
  dry = false /\
  (fs_get fs q = Some KFile \/
   (fs_get fs q = Some KDir /\ forall c, is_child q c = true -> fs_get fs' c = None)).

Lemma clean_targets_fold t dry : forall L w,
  let w' := fold_left (clean_target t dry) L w in
  w_db w' = w_db w /\ shrinks (w_fs w) (w_fs w') /\ (dry = true -> w_fs w' = w_fs w) /\
  (forall q, fs_get (w_fs w) q <> None -> fs_get (w_fs w') q = None -> In q L /\ gone_reason dry (w_fs w) (w_fs w') q).
Proof.
  induction L as [|p r IH]; intros w; simpl.
  - repeat split; auto; try apply shrinks_refl; contradiction.
  - destruct (IH (clean_target t dry w p)) as (D & S & F & G).
    destruct (clean_target_step t dry w p) as (D1 & St).
    assert (S1 : shrinks (w_fs w) (w_fs (clean_target t dry w p))).
    { destruct St as [->|(_ & -> & _)]; [apply shrinks_refl|apply shrinks_remove]. }
    split; [congruence|]. split; [eapply shrinks_trans; eauto|]. split.
    + intros Hd. rewrite (F Hd). destruct St as [A|(A & _)]; [exact A|congruence].
    + intros q Hq Hq'. destruct (fs_get (w_fs (clean_target t dry w p)) q) as [k|] eqn:E1.
      * destruct (G q) as (A & B & C); [congruence|exact Hq'|].
        assert (Eq : fs_get (w_fs w) q = Some k) by (destruct (S1 q) as [X|X]; congruence).
        split; [right; exact A|]. split; auto. rewrite Eq. rewrite E1 in C. exact C.
      * destruct St as [A|(A & B & C)]; [rewrite A in E1; contradiction|].
        destruct (path_dec q p) as [->|Hne].
        -- split; [left; auto|]. split; auto. destruct C as [C|[C1 C2]]; auto. right. split; auto.
           intros c Hc. apply (shrinks_none (w_fs w)); [eapply shrinks_trans; eauto|].
           apply (nonempty_false _ p); auto.
        -- rewrite B in E1. rewrite fs_get_remove_other in E1; auto. contradiction.
Qed.

Lemma fold_file_removed t : forall L w q, In q L -> fs_get (w_fs w) q = Some KFile ->
  fs_get (w_fs (fold_left (clean_target t false) L w)) q = None.
Proof.
  induction L as [|p r IH]; intros w q Hin E; simpl; [destruct Hin|].
  destruct (path_dec p q) as [->|Hne].
  - destruct (clean_targets_fold t false r (clean_target t false w q)) as (_ & S & _).
    apply (shrinks_none _ _ _ S). apply clean_target_file. exact E.
  - destruct Hin as [Hin|Hin]; [contradiction|]. apply IH; auto.
    destruct (clean_target_step t false w p) as (_ & [A|(_ & A & _)]); rewrite A; auto.
    rewrite fs_get_remove_other; auto.
Qed.

(* a directory whose whole content consists of target files is removed, thanks to the order *)
Lemma fold_dir_removed t : forall L1 L2 w p,
  fs_get (w_fs w) p = Some KDir ->
  (forall c, is_child p c = true -> fs_get (w_fs w) c <> None -> fs_get (w_fs w) c = Some KFile /\ In c L1) ->
  fs_get (w_fs (fold_left (clean_target t false) (L1 ++ p :: L2) w)) p = None.
Proof.
  intros L1 L2 w p Hd Hc. rewrite fold_left_app. simpl.
  set (w1 := fold_left (clean_target t false) L1 w).
  destruct (clean_targets_fold t false L1 w) as (_ & S1 & _). fold w1 in S1.
  destruct (clean_targets_fold t false L2 (clean_target t false w1 p)) as (_ & S2 & _).
  apply (shrinks_none _ _ _ S2).
  destruct (S1 p) as [A|A].
  - assert (En : fs_nonempty (w_fs w1) p = false).
    { destruct (fs_nonempty (w_fs w1) p) eqn:En; auto. exfalso.
      destruct (nonempty_true _ _ En) as (c & Hcc & Hne).
      assert (Hw : fs_get (w_fs w) c <> None).
      { intro X. apply Hne. apply (shrinks_none _ _ _ S1 X). }
      destruct (Hc c Hcc Hw) as [Hf Hin]. apply Hne. unfold w1. apply fold_file_removed; auto. }
    apply clean_target_emptydir; auto. congruence.
  - destruct (clean_target_step t false w1 p) as (_ & [B|(_ & B & _)]); rewrite B; auto.
    apply fs_get_remove_same.
Qed.
(* ================================================================== Task.clean / clean_tasks *)
Lemma gone_reason_lift dry a b c d q :
  shrinks a b -> fs_get b q <> None -> gone_reason dry b c q -> shrinks c d -> gone_reason dry a d q.
Proof.
  intros Sab Hq (Hd & R) Scd. split; auto.
  assert (Eq : fs_get b q = fs_get a q) by (destruct (Sab q) as [X|X]; [exact X|contradiction]).
  rewrite <- Eq. destruct R as [R|[R1 R2]]; auto. right. split; auto.
  intros ch Hch. apply (shrinks_none _ _ _ Scd). apply R2. exact Hch.
Qed.

Lemma clean_actions_frame t dry : forall acts i w,
  w_fs (clean_actions t dry i acts w) = w_fs w /\ w_db (clean_actions t dry i acts w) = w_db w.
Proof.
  induction acts as [|a r IH]; intros i w; simpl; auto.
  destruct (IH (S i) (if negb dry || a then emit (emit w (EAnnounce t i)) (EExec t i (if a then Some dry else None))
                      else emit w (EAnnounce t i))) as [A B].
  rewrite A, B. destruct (negb dry || a); simpl; auto.
Qed.

Lemma task_clean_spec t dry w :
  let w' := task_clean t dry w in
  w_db w' = w_db w /\ shrinks (w_fs w) (w_fs w') /\ (dry = true -> w_fs w' = w_fs w) /\
  (forall q, fs_get (w_fs w) q <> None -> fs_get (w_fs w') q = None ->
             t_clean t = None /\ In q (t_targets t) /\ gone_reason dry (w_fs w) (w_fs w') q).
Proof.
  unfold task_clean. destruct (t_clean t) as [acts|] eqn:Ec.
  - destruct (clean_actions_frame (t_name t) dry acts 0 (emit w (EClean (t_name t)))) as [A B].
    simpl in *. rewrite A, B. repeat split; auto; try apply shrinks_refl; contradiction.
  - unfold clean_targets.
    destruct (clean_targets_fold (t_name t) dry (sort_desc (t_targets t)) (emit w (EClean (t_name t))))
      as (D & S & F & G). simpl in *. repeat split; auto.
    + destruct (G q H H0) as [X _]. apply (Permutation_in _ (sort_desc_perm _)). exact X.
    + apply (G q H H0).
    + apply (G q H H0).
Qed.

Lemma clean_tasks_spec dry forget : forall ts cleaned w l w',
  clean_tasks dry forget ts cleaned w = (l, w') ->
  (NoDup l /\ forall x, In x l <-> In x (map t_name ts) /\ ~ In x cleaned) /\
  (forall x, In x (w_db w') <-> In x (w_db w) /\ ~ ((forget && negb dry)%bool = true /\ In x l)) /\
  shrinks (w_fs w) (w_fs w') /\ (dry = true -> w_fs w' = w_fs w) /\
  (forall q, fs_get (w_fs w) q <> None -> fs_get (w_fs w') q = None ->
     exists t, In t ts /\ In (t_name t) l /\ t_clean t = None /\ In q (t_targets t) /\
               gone_reason dry (w_fs w) (w_fs w') q).
Proof.
  induction ts as [|t r IH]; intros cleaned w l w' H; simpl in H.
  - inversion H; subst. split; [split; [constructor|]|].
    + intros x; simpl; tauto.
    + split; [intros x; simpl; tauto|]. split; [apply shrinks_refl|]. split; auto.
      intros q H1 H2. contradiction.
  - destruct (mem (t_name t) cleaned) eqn:Em.
    + apply mem_In in Em. destruct (IH _ _ _ _ H) as ((N1 & N2) & D & S & F & G).
      split; [split; auto|].
      * intros x. rewrite N2. simpl. split; [intros [A B]; auto|].
        intros [[<-|A] B]; [contradiction|auto].
      * split; auto. split; auto. split; auto. intros q H1 H2.
        destruct (G q H1 H2) as (t' & A & B). exists t'. split; [right; auto|exact B].
    + apply mem_false_In in Em.
      set (w1 := task_clean t dry w) in *.
      set (w2 := if (forget && negb dry)%bool then db_remove w1 (t_name t) else w1) in *.
      destruct (clean_tasks dry forget r (t_name t :: cleaned) w2) as [l' w3] eqn:Er.
      inversion H; subst l w'. clear H.
      destruct (IH _ _ _ _ Er) as ((N1 & N2) & D & S & F & G).
      destruct (task_clean_spec t dry w) as (D1 & S1 & F1 & G1). fold w1 in D1, S1, F1, G1.
      assert (Efs : w_fs w2 = w_fs w1) by (unfold w2; destruct (forget && negb dry)%bool; reflexivity).
      rewrite Efs in *.
      split; [split|].
      * constructor; auto. intros X. apply N2 in X. destruct X as [_ X]. apply X. left; auto.
      * intros x. simpl. rewrite N2. simpl. split.
        -- intros [<-|[A B]]; auto.
        -- intros [[<-|A] B]; auto. destruct (N.eq_dec (t_name t) x) as [->|Hne]; auto.
           right. split; auto. intros [X|X]; auto.
      * split.
        -- intros x. rewrite D. unfold w2. destruct (forget && negb dry)%bool eqn:Efg; simpl.
           ++ rewrite rem_In. rewrite D1. split.
              ** intros [[A B] C]. split; auto. intros [_ [X|X]]; [congruence|]. apply C. auto.
              ** intros [A B]. split; [split; auto|].
                 intros [_ X]. apply B. split; [reflexivity|]. right. exact X.
           ++ rewrite D1. split; intros [A B]; split; auto; intros [X _]; discriminate.
        -- split; [eapply shrinks_trans; eauto|]. split.
           ++ intros Hd. rewrite (F Hd). apply F1; auto.
           ++ intros q H1 H2. destruct (fs_get (w_fs w1) q) as [k|] eqn:E1.
              ** destruct (G q) as (t' & A & B & C & C' & R); [congruence|exact H2|].
                 exists t'. split; [right; auto|]. split; [right; auto|]. split; auto. split; auto.
                 apply (gone_reason_lift dry (w_fs w) (w_fs w1) (w_fs w3) (w_fs w3)); auto.
                 congruence. apply shrinks_refl.
              ** destruct (G1 q H1 E1) as (A & B & R). exists t. split; [left; auto|]. split; [left; auto|].
                 split; auto. split; auto.
                 apply (gone_reason_lift dry (w_fs w) (w_fs w) (w_fs w1) (w_fs w3)); auto. apply shrinks_refl.
Qed.

Lemma clean_tasks_nodup_id dry forget : forall ts cleaned w,
  NoDup (map t_name ts) -> (forall x, In x (map t_name ts) -> ~ In x cleaned) ->
  fst (clean_tasks dry forget ts cleaned w) = map t_name ts.
Proof.
  induction ts as [|t r IH]; intros cleaned w Hnd Hc; simpl; auto.
  inversion Hnd; subst.
  assert (Em : mem (t_name t) cleaned = false) by (apply mem_false_In; apply Hc; left; auto).
  rewrite Em.
  destruct (clean_tasks dry forget r (t_name t :: cleaned)
             (if (forget && negb dry)%bool then db_remove (task_clean t dry w) (t_name t) else task_clean t dry w))
    as [l' w3] eqn:Er. simpl. f_equal.
  change l' with (fst (l', w3)). rewrite <- Er. apply IH; auto.
  intros x Hx [<-|X]; [contradiction|]. apply (Hc x); auto. right; auto.
Qed.

Lemma lookup_all_spec tb : forall l ts, lookup_all tb l = Some ts ->
  map t_name ts = l /\ forall t, In t ts -> lookup tb (t_name t) = Some t.
Proof.
  induction l as [|n r IH]; intros ts H; simpl in H.
  - inversion H; subst. split; auto. intros t [].
  - destruct (lookup tb n) as [t|] eqn:El; [|discriminate].
    destruct (lookup_all tb r) as [ts'|] eqn:Ea; [|discriminate]. inversion H; subst.
    destruct (IH _ eq_refl) as [A B]. destruct (lookup_Some_name _ _ _ El) as [En _]. split.
    + simpl. congruence.
    + intros t' [<-|Ht']; auto. rewrite En. exact El.
Qed.
(* ================================================================== the command *)
Section Command.
  Variable pat : Type.
  Variable fnmatch : name -> pat -> bool.
  Notation clean_list := (clean_list pat fnmatch).
  Notation clean_order := (clean_order pat fnmatch).
  Notation clean_execute := (clean_execute pat fnmatch).

  Definition with_deps (o : opts pat) : bool := o_cleanall o || is_nil (o_pos o) || o_cleandep o.

  Lemma clean_list_fst tb o : fst (clean_list tb o) = with_deps o.
  Proof.
    unfold Clean.clean_list, with_deps. destruct (o_cleanall o); simpl; auto.
    destruct (is_nil (o_pos o)); simpl; auto.
  Qed.

  (* what the selection rules say, by case *)
  Definition selected (tb : table) (l : list (sel pat)) (x : name) : Prop :=
    exists s, In s l /\ match s with
                        | SName n => x = n
                        | SPat p => In x (names tb) /\ fnmatch x p = true
                        end.

  Lemma expand_spec tb l x : In x (expand pat fnmatch tb l) <-> selected tb l x.
  Proof.
    unfold expand, selected. rewrite in_flat_map. split.
    - intros (s & Hs & Hx). exists s. split; auto. destruct s as [n|p].
      + destruct Hx as [<-|[]]. reflexivity.
      + unfold names in *. apply in_map_iff in Hx. destruct Hx as (t & <- & Ht).
        apply filter_In in Ht. destruct Ht as [Ht Hm]. split; auto. apply in_map. exact Ht.
    - intros (s & Hs & Hx). exists s. split; auto. destruct s as [n|p].
      + left. auto.
      + destruct Hx as [Hx Hm]. unfold names in *. apply in_map_iff in Hx. destruct Hx as (t & <- & Ht).
        apply in_map. apply filter_In. split; auto.
  Qed.

  Lemma clean_list_snd tb o x : In x (snd (clean_list tb o)) <->
    if o_cleanall o then In x (names tb)
    else if is_nil (o_pos o)
         then match o_sel o with Some s => selected tb s x | None => In x (names tb) end
         else selected tb (o_pos o) x.
  Proof.
    unfold Clean.clean_list. destruct (o_cleanall o); simpl; [tauto|].
    destruct (is_nil (o_pos o)); simpl.
    - rewrite <- in_rev. destruct (o_sel o); [apply expand_spec|tauto].
    - apply expand_spec.
  Qed.

  Lemma clean_order_inv tb o out : clean_order tb o = Ok out ->
    check_exist pat tb (o_pos o) = true /\
    exists ns, build_tree tb (fst (clean_list tb o)) (snd (clean_list tb o)) = Ok ns /\ flat (length ns) ns = Ok out.
  Proof.
    unfold Clean.clean_order. destruct (check_exist pat tb (o_pos o)); simpl; [|discriminate].
    destruct (clean_list tb o) as [cd cl]; simpl.
    destruct (build_tree tb cd cl) as [ns| | |] eqn:Eb; try discriminate.
    intros H. split; auto. exists ns. auto.
  Qed.

  Lemma build_tree_deps tb cl ns : build_tree tb true cl = Ok ns ->
    exists pr, bwd_all (S (length tb)) tb ([], []) cl = Ok (ns, pr).
  Proof.
    unfold build_tree. destruct (bwd_all (S (length tb)) tb ([], []) cl) as [[ns' pr]| | |]; try discriminate.
    simpl. intros H; inversion H; subst. exists pr. reflexivity.
  Qed.

  Lemma build_tree_nodup tb cd cl ns : build_tree tb cd cl = Ok ns -> NoDup (keys ns).
  Proof.
    destruct cd.
    - intros H. destruct (build_tree_deps _ _ _ H) as [pr Hb].
      pose proof (bwd_all_spec tb _ cl _ _ [] (topinv_init tb) Hb) as Hinv. apply Hinv.
    - unfold build_tree. intros H. apply (build_nodes_spec tb cl [] ns H). constructor.
  Qed.

  (* every node exactly once *)
  Lemma clean_order_nodup tb o out : clean_order tb o = Ok out -> NoDup out.
  Proof.
    intros H. destruct (clean_order_inv _ _ _ H) as (_ & ns & Hb & Hf).
    pose proof (build_tree_nodup _ _ _ _ Hb) as Hnd.
    apply (Permutation_NoDup (Permutation_sym (flat_perm _ _ _ Hnd Hf))). exact Hnd.
  Qed.

  Lemma clean_order_set_deps tb o out : clean_order tb o = Ok out -> with_deps o = true ->
    forall x, In x out <-> exists s, In s (snd (clean_list tb o)) /\ reach tb s x.
  Proof.
    intros H Hw x. destruct (clean_order_inv _ _ _ H) as (_ & ns & Hb & Hf).
    pose proof (build_tree_nodup _ _ _ _ Hb) as Hnd. pose proof (flat_perm _ _ _ Hnd Hf) as Hp.
    rewrite clean_list_fst, Hw in Hb. destruct (build_tree_deps _ _ _ Hb) as [pr Hbw].
    rewrite <- (bwd_all_set tb _ _ _ _ Hbw x). split; intros Hx.
    - apply (Permutation_in _ Hp); auto.
    - apply (Permutation_in _ (Permutation_sym Hp)); auto.
  Qed.

  Lemma clean_order_set_sub tb o out : clean_order tb o = Ok out -> with_deps o = false ->
    forall x, In x out <-> In x (snd (clean_list tb o)) \/ exists n, In n (snd (clean_list tb o)) /\ subdep tb n x.
  Proof.
    intros H Hw x. destruct (clean_order_inv _ _ _ H) as (_ & ns & Hb & Hf).
    pose proof (build_tree_nodup _ _ _ _ Hb) as Hnd. pose proof (flat_perm _ _ _ Hnd Hf) as Hp.
    rewrite clean_list_fst, Hw in Hb. unfold build_tree in Hb.
    destruct (build_nodes_spec tb _ _ _ Hb) as [_ B]; [constructor|].
    split; intros Hx.
    - apply (Permutation_in _ Hp) in Hx. apply B in Hx. destruct Hx as [[]|Hx]; auto.
    - apply (Permutation_in _ (Permutation_sym Hp)). apply B. right. exact Hx.
  Qed.

  Lemma clean_order_before tb o out : clean_order tb o = Ok out -> with_deps o = true -> acyclic (dep tb) ->
    forall t d, dep tb t d -> In t out -> In d out -> before t d out.
  Proof.
    intros H Hw Hac. destruct (clean_order_inv _ _ _ H) as (_ & ns & Hb & Hf).
    rewrite clean_list_fst, Hw in Hb. destruct (build_tree_deps _ _ _ Hb) as [pr Hbw].
    apply (bwd_all_order tb _ _ _ _ _ _ Hbw Hf Hac).
  Qed.

  Lemma clean_order_fuel tb o : clean_order tb o <> OutOfFuel.
  Proof.
    unfold Clean.clean_order. destruct (check_exist pat tb (o_pos o)); simpl; [|discriminate].
    destruct (clean_list tb o) as [cd cl].
    destruct (build_tree tb cd cl) as [ns| | |] eqn:Eb; try discriminate.
    - destruct (flat_fuel (length ns) ns (le_n _)) as [out ->]. discriminate.
    - exfalso. unfold build_tree in Eb. destruct cd.
      + assert (Hok : okst tb []) by (split; [apply NoDup_nil|intros x []]).
        destruct (bwd_all_fuel tb cl [] [] Hok) as [E|[st E]]; unfold tstate, nodes in *; rewrite E in Eb; discriminate.
      + clear -Eb. revert Eb. generalize (@nil (name * list name)). induction cl as [|n r IH]; intros ns; simpl; [discriminate|].
        destruct (lookup tb n) as [t|]; [|discriminate].
        assert (Hbn : forall ds ns0, bn_deps tb n ns0 ds <> OutOfFuel).
        { induction ds as [|d ds IHd]; intros ns0; simpl; [discriminate|].
          destruct (lookup tb d) as [td|]; [|discriminate].
          destruct (t_subtask_of td) as [g|]; [destruct (N.eqb g n)|]; apply IHd. }
        destruct (bn_deps tb n (setdefault n ns) (rev (t_task_dep t))) as [ns1| | |] eqn:E; try discriminate.
        * apply IH.
        * exfalso. apply (Hbn _ _ E).
  Qed.

  (* ---- clean_execute ---- *)
  Lemma clean_execute_inv tb o w l w' : clean_execute tb o w = Ok (l, w') ->
    exists ts, clean_order tb o = Ok l /\ lookup_all tb l = Some ts /\
               clean_tasks (o_dryrun o) (o_forget o) ts [] w = (l, w').
  Proof.
    unfold Clean.clean_execute. destruct (clean_order tb o) as [order| | |] eqn:Eo; try discriminate.
    destruct (lookup_all tb order) as [ts|] eqn:El; [|discriminate].
    intros H. inversion H as [H1]. exists ts.
    destruct (lookup_all_spec tb _ _ El) as [Hn _].
    pose proof (clean_order_nodup _ _ _ Eo) as Hnd.
    assert (Hl : l = order).
    { rewrite <- Hn in Hnd. pose proof (clean_tasks_nodup_id (o_dryrun o) (o_forget o) ts [] w Hnd) as X.
      rewrite H1 in X. simpl in X. rewrite X; auto. }
    subst l. auto.
  Qed.
End Command.
(* ================================================================== the trace: Task.clean entries *)
Definition cleans (evs : list event) : list name :=
  flat_map (fun e => match e with EClean t => [t] | _ => [] end) evs.

Lemma cleans_app a b : cleans (a ++ b) = cleans a ++ cleans b.
Proof. unfold cleans. apply flat_map_app. Qed.

Lemma clean_target_cleans t dry w p : cleans (w_ev (clean_target t dry w p)) = cleans (w_ev w).
Proof.
  unfold clean_target. destruct (fs_get (w_fs w) p) as [[|]|]; auto.
  - destruct dry; simpl; rewrite cleans_app; simpl; apply app_nil_r.
  - destruct (fs_nonempty (w_fs w) p); [simpl; rewrite cleans_app; simpl; apply app_nil_r|].
    destruct dry; simpl; rewrite cleans_app; simpl; apply app_nil_r.
Qed.

Lemma clean_actions_cleans t dry : forall acts i w, cleans (w_ev (clean_actions t dry i acts w)) = cleans (w_ev w).
Proof.
  induction acts as [|a r IH]; intros i w; simpl; auto. rewrite IH.
  destruct (negb dry || a); simpl; repeat rewrite cleans_app; simpl; repeat rewrite app_nil_r; reflexivity.
Qed.

Lemma task_clean_cleans t dry w : cleans (w_ev (task_clean t dry w)) = cleans (w_ev w) ++ [t_name t].
Proof.
  unfold task_clean. destruct (t_clean t) as [acts|].
  - rewrite clean_actions_cleans. simpl. rewrite cleans_app. reflexivity.
  - unfold clean_targets. generalize (sort_desc (t_targets t)) as L.
    assert (X : forall L w0, cleans (w_ev (fold_left (clean_target (t_name t) dry) L w0)) = cleans (w_ev w0)).
    { induction L as [|p r IH]; intros w0; simpl; auto. rewrite IH. apply clean_target_cleans. }
    intros L. rewrite X. simpl. rewrite cleans_app. reflexivity.
Qed.

Lemma clean_tasks_cleans dry forget : forall ts cleaned w,
  cleans (w_ev (snd (clean_tasks dry forget ts cleaned w))) =
  cleans (w_ev w) ++ fst (clean_tasks dry forget ts cleaned w).
Proof.
  induction ts as [|t r IH]; intros cleaned w; simpl.
  - rewrite app_nil_r. reflexivity.
  - destruct (mem (t_name t) cleaned); [apply IH|].
    set (w2 := if (forget && negb dry)%bool then db_remove (task_clean t dry w) (t_name t) else task_clean t dry w).
    specialize (IH (t_name t :: cleaned) w2).
    destruct (clean_tasks dry forget r (t_name t :: cleaned) w2) as [l' w3]. simpl in *.
    rewrite IH. assert (E : w_ev w2 = w_ev (task_clean t dry w)) by (unfold w2; destruct (forget && negb dry)%bool; reflexivity).
    rewrite E, task_clean_cleans. rewrite <- app_assoc. reflexivity.
Qed.

(* ================================================================== look-ups are transparent *)
(* [strip w] = w without the look-up entries of its trace *)
Definition is_read (e : event) : bool := match e with ERead _ _ _ _ => true | _ => false end.
Definition strip (w : world) : world :=
  {| w_fs := w_fs w; w_db := w_db w; w_ev := filter (fun e => negb (is_read e)) (w_ev w) |}.

Lemma strip_emit w e : is_read e = false -> strip (emit w e) = emit (strip w) e.
Proof. intros H. unfold strip, emit. simpl. rewrite filter_app. simpl. rewrite H. reflexivity. Qed.

Lemma strip_emit_read w t i u b : strip (emit w (ERead t i u b)) = strip w.
Proof. unfold strip, emit. simpl. rewrite filter_app. simpl. rewrite app_nil_r. reflexivity. Qed.

Lemma strip_set_fs w fs : strip (set_fs w fs) = set_fs (strip w) fs.
Proof. reflexivity. Qed.

Lemma strip_db_remove w n : strip (db_remove w n) = db_remove (strip w) n.
Proof. reflexivity. Qed.

Lemma do_reads_strip t i : forall us w, strip (do_reads t i us w) = strip w.
Proof. induction us as [|u r IH]; intros w; simpl; auto. rewrite IH. apply strip_emit_read. Qed.

Lemma clean_actions_rd_strip rd t dry : forall acts i w,
  strip (clean_actions_rd rd t dry i acts w) = clean_actions t dry i acts (strip w).
Proof.
  induction acts as [|a r IH]; intros i w; simpl; auto. rewrite IH. f_equal.
  destruct (negb dry || a).
  - rewrite do_reads_strip. rewrite !strip_emit; auto.
  - rewrite strip_emit; auto.
Qed.

Lemma clean_target_strip t dry w p : strip (clean_target t dry w p) = clean_target t dry (strip w) p.
Proof.
  unfold clean_target. simpl. destruct (fs_get (w_fs w) p) as [[|]|]; auto.
  - destruct dry; [apply strip_emit; reflexivity|]. rewrite strip_set_fs, strip_emit; auto.
  - destruct (fs_nonempty (w_fs w) p); [apply strip_emit; reflexivity|].
    destruct dry; [apply strip_emit; reflexivity|]. rewrite strip_set_fs, strip_emit; auto.
Qed.

Lemma clean_targets_strip t dry w : strip (clean_targets t dry w) = clean_targets t dry (strip w).
Proof.
  unfold clean_targets. generalize (sort_desc (t_targets t)) as L. intros L. revert w.
  induction L as [|p r IH]; intros w; simpl; auto. rewrite IH, clean_target_strip. reflexivity.
Qed.

Lemma task_clean_rd_strip rd t dry w : strip (task_clean_rd rd t dry w) = task_clean t dry (strip w).
Proof.
  unfold task_clean_rd, task_clean. destruct (t_clean t) as [acts|].
  - rewrite (clean_actions_rd_strip rd), strip_emit; auto.
  - rewrite clean_targets_strip, strip_emit; auto.
Qed.

Lemma clean_tasks_rd_strip rd dry forget : forall ts cleaned w,
  clean_tasks dry forget ts cleaned (strip w) =
  (fst (clean_tasks_rd rd dry forget ts cleaned w), strip (snd (clean_tasks_rd rd dry forget ts cleaned w))).
Proof.
  induction ts as [|t r IH]; intros cleaned w; simpl; auto.
  destruct (mem (t_name t) cleaned); [apply IH|].
  set (w2 := if (forget && negb dry)%bool then db_remove (task_clean_rd rd t dry w) (t_name t) else task_clean_rd rd t dry w).
  assert (E : (if (forget && negb dry)%bool then db_remove (task_clean t dry (strip w)) (t_name t)
               else task_clean t dry (strip w)) = strip w2).
  { unfold w2. rewrite <- (task_clean_rd_strip rd). destruct (forget && negb dry)%bool; auto. }
  rewrite E, IH. destruct (clean_tasks_rd rd dry forget r (t_name t :: cleaned) w2) as [l w3]. reflexivity.
Qed.

(* the command with look-ups = the command without, up to the look-up entries of the trace *)
Lemma T_lookups_transparent : forall pat (fnmatch : name -> pat -> bool) rd tb o w,
  clean_execute pat fnmatch tb o (strip w) =
  match clean_execute_rd pat fnmatch rd tb o w with
  | Ok (l, w') => Ok (l, strip w')
  | KeyErr => KeyErr | InvalidCmd => InvalidCmd | OutOfFuel => OutOfFuel
  end.
Proof.
  intros pat fnmatch rd tb o w. unfold clean_execute, clean_execute_rd.
  destruct (clean_order pat fnmatch tb o) as [order| | |]; auto.
  destruct (lookup_all tb order) as [ts|]; auto.
  rewrite (clean_tasks_rd_strip rd). destruct (clean_tasks_rd rd (o_dryrun o) (o_forget o) ts [] w) as [l w']. reflexivity.
Qed.

Lemma clean_execute_rd_Ok pat (fnmatch : name -> pat -> bool) rd tb o w l w' :
  clean_execute_rd pat fnmatch rd tb o w = Ok (l, w') ->
  clean_execute pat fnmatch tb o (strip w) = Ok (l, strip w') /\
  exists ts, clean_tasks_rd rd (o_dryrun o) (o_forget o) ts [] w = (l, w').
Proof.
  intros H. split; [rewrite (T_lookups_transparent pat fnmatch rd), H; reflexivity|].
  unfold clean_execute_rd in H. destruct (clean_order pat fnmatch tb o) as [order| | |]; try discriminate.
  destruct (lookup_all tb order) as [ts|]; try discriminate. exists ts. inversion H. reflexivity.
Qed.

Lemma task_clean_rd_db rd t dry w : w_db (task_clean_rd rd t dry w) = w_db w.
Proof.
  change (w_db (strip (task_clean_rd rd t dry w)) = w_db (strip w)). rewrite task_clean_rd_strip.
  exact (proj1 (task_clean_spec t dry (strip w))).
Qed.

Lemma do_reads_frame t i : forall us w,
  w_fs (do_reads t i us w) = w_fs w /\ w_db (do_reads t i us w) = w_db w.
Proof.
  induction us as [|u r IH]; intros w; simpl; auto.
  destruct (IH (emit w (ERead t i u (mem u (w_db w))))) as [A B]. rewrite A, B. simpl. auto.
Qed.

(* ================================================================== DB look-ups of clean actions *)
(* [reads_ok F db done tr]: every look-up in the trace [tr] found a record iff the record is in [db] and
   has not been forgotten: F = records of cleaned tasks are forgotten (--forget without --dry-run);
   done = the tasks whose Task.clean was entered so far, the reader itself is still running *)
Fixpoint reads_ok (F : bool) (db done : list name) (tr : list event) : Prop :=
  match tr with
  | [] => True
  | EClean t :: r => reads_ok F db (t :: done) r
  | ERead t i u b :: r =>
      b = (mem u db && negb (F && mem u done && negb (N.eqb u t)))%bool /\ reads_ok F db done r
  | _ :: r => reads_ok F db done r
  end.

Lemma mem_app_b x a b : mem x (a ++ b) = (mem x a || mem x b)%bool.
Proof. unfold mem. apply existsb_app. Qed.

Lemma mem_rem_b x y l : mem x (rem y l) = (mem x l && negb (N.eqb x y))%bool.
Proof.
  destruct (mem x (rem y l)) eqn:E.
  - apply mem_In in E. apply rem_In in E. destruct E as [A B]. apply mem_In in A. rewrite A.
    apply N.eqb_neq in B. rewrite B. reflexivity.
  - apply mem_false_In in E. destruct (mem x l) eqn:A; auto. destruct (N.eqb x y) eqn:B; auto.
    exfalso. apply E. apply rem_In. split; [apply mem_In; exact A|apply N.eqb_neq; exact B].
Qed.

Lemma reads_ok_app F db : forall a done b,
  reads_ok F db done (a ++ b) <-> reads_ok F db done a /\ reads_ok F db (rev (cleans a) ++ done) b.
Proof.
  induction a as [|e a IH]; intros done b; simpl.
  - tauto.
  - destruct e; simpl; try (rewrite IH; tauto).
    + rewrite IH. rewrite <- app_assoc. simpl. tauto.
Qed.

(* what one Task.clean adds to the trace after its EClean entry: no other entry, look-ups by this task
   only, each finding what is saved when the task starts *)
Definition quiet (n : name) (db : list name) (e : event) : Prop :=
  match e with
  | EClean _ => False
  | ERead t _ u b => t = n /\ b = mem u db
  | _ => True
  end.

Lemma do_reads_tr n db i : forall us w, w_db w = db ->
  exists tr, w_ev (do_reads n i us w) = w_ev w ++ tr /\ Forall (quiet n db) tr.
Proof.
  induction us as [|u r IH]; intros w Hdb; simpl.
  - exists []. rewrite app_nil_r. auto.
  - destruct (IH (emit w (ERead n i u (mem u (w_db w)))) Hdb) as (tr & E & Q).
    exists (ERead n i u (mem u (w_db w)) :: tr). split.
    + rewrite E. simpl. rewrite <- app_assoc. reflexivity.
    + constructor; auto. simpl. rewrite Hdb. auto.
Qed.

Lemma clean_actions_tr rd n db dry : forall acts i w, w_db w = db ->
  exists tr, w_ev (clean_actions_rd rd n dry i acts w) = w_ev w ++ tr /\ Forall (quiet n db) tr.
Proof.
  induction acts as [|a r IH]; intros i w Hdb; simpl.
  - exists []. rewrite app_nil_r. auto.
  - destruct (negb dry || a).
    + destruct (do_reads_tr n db i (rd n i) (emit (emit w (EAnnounce n i)) (EExec n i (if a then Some dry else None))) Hdb)
        as (tr1 & E1 & Q1).
      destruct (IH (S i) (do_reads n i (rd n i) (emit (emit w (EAnnounce n i)) (EExec n i (if a then Some dry else None)))))
        as (tr2 & E2 & Q2).
      { destruct (do_reads_frame n i (rd n i) (emit (emit w (EAnnounce n i)) (EExec n i (if a then Some dry else None)))) as [_ D].
        rewrite D. exact Hdb. }
      exists (EAnnounce n i :: EExec n i (if a then Some dry else None) :: tr1 ++ tr2). split.
      * rewrite E2, E1. simpl. repeat rewrite <- app_assoc. reflexivity.
      * constructor; [exact I|]. constructor; [exact I|]. apply Forall_app. auto.
    + destruct (IH (S i) (emit w (EAnnounce n i)) Hdb) as (tr2 & E2 & Q2).
      exists (EAnnounce n i :: tr2). split.
      * rewrite E2. simpl. rewrite <- app_assoc. reflexivity.
      * constructor; [exact I|auto].
Qed.

Lemma clean_target_tr n db dry w p : w_db w = db ->
  w_db (clean_target n dry w p) = db /\
  exists tr, w_ev (clean_target n dry w p) = w_ev w ++ tr /\ Forall (quiet n db) tr.
Proof.
  intros Hdb. unfold clean_target. destruct (fs_get (w_fs w) p) as [[|]|].
  - destruct dry; simpl; (split; [exact Hdb|]); eexists; (split; [reflexivity|]); constructor; simpl; auto.
  - destruct (fs_nonempty (w_fs w) p).
    + simpl. split; [exact Hdb|]. eexists. split; [reflexivity|]. constructor; simpl; auto.
    + destruct dry; simpl; (split; [exact Hdb|]); eexists; (split; [reflexivity|]); constructor; simpl; auto.
  - split; [exact Hdb|]. exists []. rewrite app_nil_r. auto.
Qed.

Lemma clean_targets_fold_tr n db dry : forall L w, w_db w = db ->
  exists tr, w_ev (fold_left (clean_target n dry) L w) = w_ev w ++ tr /\ Forall (quiet n db) tr.
Proof.
  induction L as [|p r IH]; intros w Hdb; simpl.
  - exists []. rewrite app_nil_r. auto.
  - destruct (clean_target_tr n db dry w p Hdb) as (D & tr1 & E1 & Q1).
    destruct (IH _ D) as (tr2 & E2 & Q2). exists (tr1 ++ tr2). split.
    + rewrite E2, E1. rewrite <- app_assoc. reflexivity.
    + apply Forall_app. auto.
Qed.

Lemma task_clean_tr rd t dry w :
  exists tr, w_ev (task_clean_rd rd t dry w) = w_ev w ++ EClean (t_name t) :: tr /\
             Forall (quiet (t_name t) (w_db w)) tr.
Proof.
  unfold task_clean_rd. destruct (t_clean t) as [acts|].
  - destruct (clean_actions_tr rd (t_name t) (w_db w) dry acts 0 (emit w (EClean (t_name t))) eq_refl) as (tr & E & Q).
    exists tr. split; auto. rewrite E. simpl. rewrite <- app_assoc. reflexivity.
  - unfold clean_targets.
    destruct (clean_targets_fold_tr (t_name t) (w_db w) dry (sort_desc (t_targets t)) (emit w (EClean (t_name t))) eq_refl)
      as (tr & E & Q).
    exists tr. split; auto. rewrite E. simpl. rewrite <- app_assoc. reflexivity.
Qed.

Lemma quiet_cleans n db tr : Forall (quiet n db) tr -> cleans tr = [].
Proof.
  induction 1 as [|e r He _ IH]; auto. destruct e; simpl in *; auto. contradiction.
Qed.

Lemma quiet_reads_ok F n db tr : Forall (quiet n db) tr -> reads_ok F db [n] tr.
Proof.
  induction 1 as [|e r He _ IH]; simpl; auto. destruct e; simpl in *; auto.
  - contradiction.
  - destruct He as [-> ->]. split; auto. simpl. rewrite orb_false_r.
    destruct (N.eqb u n); simpl; rewrite ?andb_false_r, ?andb_true_r; reflexivity.
Qed.

(* the tasks that look something up in a trace *)
Definition reader_not_in (c : list name) (e : event) : Prop :=
  match e with ERead t _ _ _ => ~ In t c | _ => True end.

Lemma quiet_reader n db c tr : ~ In n c -> Forall (quiet n db) tr -> Forall (reader_not_in c) tr.
Proof.
  intros Hn H. induction H as [|e r He _ IH]; constructor; auto.
  destruct e; simpl in *; auto. destruct He as [-> _]. exact Hn.
Qed.

(* a record forgotten before the trace began = a task cleaned before the trace began *)
Lemma reads_ok_shift F db t0 : forall tr done,
  Forall (reader_not_in [t0]) tr ->
  reads_ok F (if F then rem t0 db else db) done tr -> reads_ok F db (done ++ [t0]) tr.
Proof.
  induction tr as [|e r IH]; intros done Hr H; simpl; auto.
  inversion Hr as [|? ? He Hr']; subst.
  destruct e; simpl in *; try (apply IH; assumption).
  - apply (IH (t :: done)); assumption.
  - destruct H as [Hb H]. split; [|apply IH; assumption]. rewrite Hb.
    assert (Hne : N.eqb t0 t = false) by (apply N.eqb_neq; intros ->; apply He; left; reflexivity).
    destruct F; simpl; auto.
    rewrite mem_rem_b, mem_app_b. simpl. rewrite orb_false_r.
    destruct (N.eqb u t0) eqn:E0.
    + apply N.eqb_eq in E0. subst u. rewrite Hne. simpl. rewrite orb_true_r. simpl.
      rewrite andb_false_r. reflexivity.
    + simpl. rewrite orb_false_r, andb_true_r. reflexivity.
Qed.

Lemma clean_tasks_reads rd dry forget : forall ts cleaned w l w',
  clean_tasks_rd rd dry forget ts cleaned w = (l, w') ->
  exists tr, w_ev w' = w_ev w ++ tr /\ Forall (reader_not_in cleaned) tr /\
             reads_ok (forget && negb dry) (w_db w) [] tr.
Proof.
  induction ts as [|t r IH]; intros cleaned w l w' H; simpl in H.
  - inversion H; subst. exists []. rewrite app_nil_r. simpl. auto.
  - destruct (mem (t_name t) cleaned) eqn:Em; [exact (IH _ _ _ _ H)|].
    apply mem_false_In in Em.
    set (w1 := task_clean_rd rd t dry w) in *.
    set (w2 := if (forget && negb dry)%bool then db_remove w1 (t_name t) else w1) in *.
    destruct (clean_tasks_rd rd dry forget r (t_name t :: cleaned) w2) as [l' w3] eqn:Er.
    inversion H; subst l w'. clear H.
    destruct (IH _ _ _ _ Er) as (tr2 & E2 & R2 & K2).
    destruct (task_clean_tr rd t dry w) as (tr1 & E1 & Q1). fold w1 in E1.
    pose proof (task_clean_rd_db rd t dry w) as D1. fold w1 in D1.
    assert (Eev : w_ev w2 = w_ev w1) by (unfold w2; destruct (forget && negb dry)%bool; reflexivity).
    assert (Edb : w_db w2 = if (forget && negb dry)%bool then rem (t_name t) (w_db w) else w_db w).
    { unfold w2. destruct (forget && negb dry)%bool; simpl; rewrite D1; reflexivity. }
    exists (EClean (t_name t) :: tr1 ++ tr2). split; [|split].
    + rewrite E2, Eev, E1. rewrite <- app_assoc. reflexivity.
    + constructor; [exact I|]. apply Forall_app. split.
      * exact (quiet_reader _ _ _ _ Em Q1).
      * eapply Forall_impl; [|exact R2]. intros e He. destruct e; simpl in *; auto.
    + simpl. apply reads_ok_app. split; [exact (quiet_reads_ok _ _ _ _ Q1)|].
      rewrite (quiet_cleans _ _ _ Q1). simpl.
      apply (reads_ok_shift _ _ (t_name t) tr2 []).
      * eapply Forall_impl; [|exact R2]. intros e He. destruct e; simpl in *; auto.
        intros [X|[]]. apply He. left. exact X.
      * rewrite <- Edb. exact K2.
Qed.

Lemma reads_ok_split F db : forall pre done t i u b post,
  reads_ok F db done (pre ++ ERead t i u b :: post) ->
  b = (mem u db && negb (F && (mem u (cleans pre) || mem u done) && negb (N.eqb u t)))%bool.
Proof.
  intros pre done t i u b post H. apply reads_ok_app in H. destruct H as [_ H]. simpl in H.
  destruct H as [H _]. rewrite H. rewrite mem_app_b.
  assert (X : mem u (rev (cleans pre)) = mem u (cleans pre)).
  { destruct (mem u (cleans pre)) eqn:E.
    - apply mem_In. apply in_rev. rewrite rev_involutive. apply mem_In. exact E.
    - apply mem_false_In. intros Y. apply in_rev in Y. apply mem_In in Y. congruence. }
  rewrite X. reflexivity.
Qed.

(* A look-up made by a clean action finds a record iff one was saved before the command and it has not
   been forgotten by then: the record of a task cleaned earlier in the same `clean --forget` is gone; the
   task's own record is still there while its clean actions run *)
Lemma T_reads : forall pat (fnmatch : name -> pat -> bool) rd tb o w l w',
  clean_execute_rd pat fnmatch rd tb o w = Ok (l, w') ->
  exists tr, w_ev w' = w_ev w ++ tr /\
  forall pre t i u b post, tr = pre ++ ERead t i u b :: post ->
    (b = true <-> In u (w_db w) /\
                  ~ (o_forget o = true /\ o_dryrun o = false /\ In u (cleans pre) /\ u <> t)).
Proof.
  intros pat fnmatch rd tb o w l w' H.
  destruct (clean_execute_rd_Ok pat fnmatch rd tb o w l w' H) as (_ & ts & Hc).
  destruct (clean_tasks_reads rd _ _ _ _ _ _ _ Hc) as (tr & E & _ & K).
  exists tr. split; [exact E|]. intros pre t i u b post ->.
  rewrite (reads_ok_split _ _ _ _ _ _ _ _ _ K). simpl. rewrite orb_false_r.
  rewrite andb_true_iff, negb_true_iff. rewrite mem_In.
  split.
  - intros [A B]. split; [exact A|]. intros (F1 & F2 & F3 & F4).
    rewrite F1, F2 in B. simpl in B. apply mem_In in F3. rewrite F3 in B. simpl in B.
    apply N.eqb_neq in F4. rewrite F4 in B. discriminate.
  - intros [A B]. split; [exact A|].
    destruct (o_forget o); simpl; auto. destruct (o_dryrun o); simpl; auto.
    destruct (mem u (cleans pre)) eqn:E3; simpl; auto.
    destruct (N.eqb u t) eqn:E4; simpl; auto.
    exfalso. apply B. repeat split; auto. apply mem_In; exact E3. apply N.eqb_neq; exact E4.
Qed.

(* ================================================================== acyclic tables *)
Lemma rank_acyclic {A} (R : A -> A -> Prop) (rank : A -> nat) :
  (forall x y, R x y -> rank y < rank x) -> acyclic R.
Proof.
  intros H x Hx.
  assert (X : forall a b, clos_trans A R a b -> rank b < rank a).
  { intros a b Hab. induction Hab as [a b Hab|a b c _ IH1 _ IH2]; [auto|lia]. }
  specialize (X x x Hx). lia.
Qed.

Definition closed (tb : table) : Prop := forall t d, dep tb t d -> In d (names tb).

Lemma reach_closed tb s x : closed tb -> In s (names tb) -> reach tb s x -> In x (names tb).
Proof.
  intros Hc Hs Hr. apply clos_rt_rt1n in Hr. induction Hr as [|a b c Hab _ IH]; auto.
  apply IH. apply (Hc a b Hab).
Qed.

Lemma clean_targets_dir_removed t w p :
  In p (t_targets t) -> fs_get (w_fs w) p = Some KDir ->
  (forall c, is_child p c = true -> fs_get (w_fs w) c <> None ->
             fs_get (w_fs w) c = Some KFile /\ In c (t_targets t)) ->
  fs_get (w_fs (fold_left (clean_target (t_name t) false) (sort_desc (t_targets t)) w)) p = None.
Proof.
  intros Hp Hd Hc.
  pose proof (sort_desc_sorted (t_targets t)) as Hs.
  pose proof (sort_desc_perm (t_targets t)) as Hperm.
  apply (Permutation_in _ (Permutation_sym Hperm)) in Hp.
  apply in_split in Hp. destruct Hp as (L1 & L2 & EL). rewrite EL in *.
  apply fold_dir_removed; auto.
  intros c Hcc Hne. destruct (Hc c Hcc Hne) as [Hf Hin]. split; auto.
  apply (Permutation_in _ (Permutation_sym Hperm)) in Hin.
  apply in_app_or in Hin. destruct Hin as [Hin|[<-|Hin]]; auto.
  - apply is_child_lt in Hcc. rewrite ltb_irrefl in Hcc. discriminate.
  - exfalso. apply in_split in Hin. destruct Hin as (a & b & ->).
    assert (Hb : before p c (L1 ++ p :: a ++ c :: b)) by (exists L1, a, b; reflexivity).
    apply (sorted_before desc _ _ _ Hs) in Hb. unfold desc in Hb.
    apply is_child_lt in Hcc. congruence.
Qed.

(* ================================================================== statements of Properties/C14.v that need a few lines of glue *)
Lemma T_flat_perm : forall fuel ns out,
  NoDup (keys ns) -> flat fuel ns = Ok out -> Permutation out (keys ns) /\ NoDup out.
Proof.
  intros fuel ns out Hnd H. pose proof (flat_perm fuel ns out Hnd H) as Hp.
  exact (conj Hp (Permutation_NoDup (Permutation_sym Hp) Hnd)).
Qed.

Lemma T_flat_fuel_adequate : forall ns fuel, length ns <= fuel -> exists out, flat fuel ns = Ok out.
Proof. intros ns fuel H. exact (flat_fuel fuel ns H). Qed.

Lemma T_no_out_of_fuel : forall pat (fnmatch : name -> pat -> bool) tb o w,
  clean_order pat fnmatch tb o <> OutOfFuel /\ clean_execute pat fnmatch tb o w <> OutOfFuel.
Proof.
  intros pat fnmatch tb o w. pose proof (clean_order_fuel pat fnmatch tb o) as H. split; [exact H|].
  unfold clean_execute. destruct (clean_order pat fnmatch tb o); try congruence.
  destruct (lookup_all tb a); discriminate.
Qed.

Lemma T_set_clean_all : forall pat (fnmatch : name -> pat -> bool) tb o out,
  clean_order pat fnmatch tb o = Ok out -> o_cleanall o = true -> closed tb ->
  forall x, In x out <-> In x (names tb).
Proof.
  intros pat fnmatch tb o out H Ha Hc x.
  assert (Hw : with_deps pat o = true) by (unfold with_deps; rewrite Ha; reflexivity).
  rewrite (clean_order_set_deps pat fnmatch tb o out H Hw x). split.
  - intros (s & Hs & Hr). apply (clean_list_snd pat fnmatch) in Hs. rewrite Ha in Hs.
    exact (reach_closed tb s x Hc Hs Hr).
  - intros Hx. exists x. split; [|apply rt_refl]. apply (clean_list_snd pat fnmatch). rewrite Ha. exact Hx.
Qed.

Lemma T_once : forall pat (fnmatch : name -> pat -> bool) tb o w l w',
  clean_execute pat fnmatch tb o w = Ok (l, w') ->
  clean_order pat fnmatch tb o = Ok l /\ NoDup l /\ cleans (w_ev w') = cleans (w_ev w) ++ l.
Proof.
  intros pat fnmatch tb o w l w' H.
  destruct (clean_execute_inv pat fnmatch tb o w l w' H) as (ts & Ho & _ & Hc).
  split; [exact Ho|]. split; [exact (clean_order_nodup pat fnmatch tb o l Ho)|].
  pose proof (clean_tasks_cleans (o_dryrun o) (o_forget o) ts [] w) as X. rewrite Hc in X. exact X.
Qed.

Lemma T_clean_tasks_dedup : forall dry forget ts w l w',
  clean_tasks dry forget ts [] w = (l, w') -> NoDup l /\ forall x, In x l <-> In x (map t_name ts).
Proof.
  intros dry forget ts w l w' H. destruct (clean_tasks_spec dry forget ts [] w l w' H) as ((A & B) & _).
  split; [exact A|]. intros x. rewrite B. simpl. tauto.
Qed.

Lemma T_dryrun_frame : forall pat (fnmatch : name -> pat -> bool) tb o w l w',
  clean_execute pat fnmatch tb o w = Ok (l, w') -> o_dryrun o = true ->
  w_fs w' = w_fs w /\ forall x, In x (w_db w') <-> In x (w_db w).
Proof.
  intros pat fnmatch tb o w l w' H Hd.
  destruct (clean_execute_inv pat fnmatch tb o w l w' H) as (ts & _ & _ & Hc).
  destruct (clean_tasks_spec _ _ _ _ _ _ _ Hc) as (_ & D & _ & F & _). split; [exact (F Hd)|].
  intros x. rewrite D. rewrite Hd. rewrite andb_false_r. split; [tauto|].
  intros A. split; [exact A|]. intros [X _]. discriminate.
Qed.

Lemma T_forget_exact : forall pat (fnmatch : name -> pat -> bool) tb o w l w',
  clean_execute pat fnmatch tb o w = Ok (l, w') ->
  forall x, In x (w_db w') <->
            In x (w_db w) /\ ~ (o_forget o = true /\ o_dryrun o = false /\ In x l).
Proof.
  intros pat fnmatch tb o w l w' H x.
  destruct (clean_execute_inv pat fnmatch tb o w l w' H) as (ts & _ & _ & Hc).
  destruct (clean_tasks_spec _ _ _ _ _ _ _ Hc) as (_ & D & _). rewrite D.
  destruct (o_forget o); destruct (o_dryrun o); simpl; intuition congruence.
Qed.

(* ---- the theorems above for the command whose clean actions look at the DB ---- *)
Lemma cleans_strip w : cleans (w_ev (strip w)) = cleans (w_ev w).
Proof.
  unfold strip. simpl. induction (w_ev w) as [|e r IH]; auto.
  destruct e; simpl; try rewrite IH; auto.
Qed.

Lemma T_once_rd : forall pat (fnmatch : name -> pat -> bool) rd tb o w l w',
  clean_execute_rd pat fnmatch rd tb o w = Ok (l, w') ->
  clean_order pat fnmatch tb o = Ok l /\ NoDup l /\ cleans (w_ev w') = cleans (w_ev w) ++ l.
Proof.
  intros pat fnmatch rd tb o w l w' H. destruct (clean_execute_rd_Ok pat fnmatch rd tb o w l w' H) as [H0 _].
  destruct (T_once pat fnmatch tb o _ _ _ H0) as (A & B & C). rewrite !cleans_strip in C. auto.
Qed.

Lemma T_dryrun_frame_rd : forall pat (fnmatch : name -> pat -> bool) rd tb o w l w',
  clean_execute_rd pat fnmatch rd tb o w = Ok (l, w') -> o_dryrun o = true ->
  w_fs w' = w_fs w /\ forall x, In x (w_db w') <-> In x (w_db w).
Proof.
  intros pat fnmatch rd tb o w l w' H Hd. destruct (clean_execute_rd_Ok pat fnmatch rd tb o w l w' H) as [H0 _].
  exact (T_dryrun_frame pat fnmatch tb o _ _ _ H0 Hd).
Qed.

Lemma T_forget_exact_rd : forall pat (fnmatch : name -> pat -> bool) rd tb o w l w',
  clean_execute_rd pat fnmatch rd tb o w = Ok (l, w') ->
  forall x, In x (w_db w') <->
            In x (w_db w) /\ ~ (o_forget o = true /\ o_dryrun o = false /\ In x l).
Proof.
  intros pat fnmatch rd tb o w l w' H. destruct (clean_execute_rd_Ok pat fnmatch rd tb o w l w' H) as [H0 _].
  exact (T_forget_exact pat fnmatch tb o _ _ _ H0).
Qed.

Lemma T_fs_frame : forall pat (fnmatch : name -> pat -> bool) tb o w l w',
  clean_execute pat fnmatch tb o w = Ok (l, w') ->
  (forall q, fs_get (w_fs w') q = fs_get (w_fs w) q \/ fs_get (w_fs w') q = None) /\
  (forall q, fs_get (w_fs w) q <> None -> fs_get (w_fs w') q = None ->
     exists t, lookup tb (t_name t) = Some t /\ In (t_name t) l /\ t_clean t = None /\ In q (t_targets t) /\
               o_dryrun o = false /\
               (fs_get (w_fs w) q = Some KFile \/
                (fs_get (w_fs w) q = Some KDir /\ forall c, is_child q c = true -> fs_get (w_fs w') c = None))).
Proof.
  intros pat fnmatch tb o w l w' H.
  destruct (clean_execute_inv pat fnmatch tb o w l w' H) as (ts & _ & Hl & Hc).
  destruct (clean_tasks_spec _ _ _ _ _ _ _ Hc) as (_ & _ & S & _ & G). split; [exact S|].
  intros q H1 H2. destruct (G q H1 H2) as (t & A & B & C & D & E1 & E2).
  exists t. split; [exact (proj2 (lookup_all_spec tb l ts Hl) t A)|]. auto.
Qed.

Lemma T_clean_targets : forall t dry w,
  let w' := clean_targets t dry w in
  w_db w' = w_db w /\ (dry = true -> w_fs w' = w_fs w) /\
  (forall q, fs_get (w_fs w') q = fs_get (w_fs w) q \/ fs_get (w_fs w') q = None) /\
  (forall q, fs_get (w_fs w) q <> None -> fs_get (w_fs w') q = None ->
     In q (t_targets t) /\ dry = false /\
     (fs_get (w_fs w) q = Some KFile \/
      (fs_get (w_fs w) q = Some KDir /\ forall c, is_child q c = true -> fs_get (w_fs w') c = None))).
Proof.
  intros t dry w. unfold clean_targets.
  destruct (clean_targets_fold (t_name t) dry (sort_desc (t_targets t)) w) as (D & S & F & G).
  split; [exact D|]. split; [exact F|]. split; [exact S|]. intros q H1 H2.
  destruct (G q H1 H2) as (A & B & C). split; [|exact (conj B C)].
  exact (Permutation_in _ (sort_desc_perm _) A).
Qed.

Lemma T_clean_targets_children_first : forall l,
  Permutation (sort_desc l) l /\
  forall p q r, r <> [] -> q = p ++ r -> In p l -> In q l -> before q p (sort_desc l).
Proof.
  intros l. split; [exact (sort_desc_perm l)|]. intros p q r Hr -> Hp Hq.
  apply sort_desc_inner_first; auto. unfold path_ltb. rewrite (prefix_lt p r Hr). reflexivity.
Qed.

Lemma T_clean_targets_complete : forall t w,
  let w' := clean_targets t false w in
  (forall q, In q (t_targets t) -> fs_get (w_fs w) q = Some KFile -> fs_get (w_fs w') q = None) /\
  (forall p, In p (t_targets t) -> fs_get (w_fs w) p = Some KDir ->
     (forall c, is_child p c = true -> fs_get (w_fs w) c <> None ->
                fs_get (w_fs w) c = Some KFile /\ In c (t_targets t)) ->
     fs_get (w_fs w') p = None).
Proof.
  intros t w. unfold clean_targets. split.
  - intros q Hq Hf. apply fold_file_removed; auto.
    exact (Permutation_in _ (Permutation_sym (sort_desc_perm _)) Hq).
  - intros p Hp Hd Hc.
    exact (clean_targets_dir_removed t w p Hp Hd Hc).
Qed.

(* ================================================================== concrete instances (non-vacuity, boundaries) *)
(* the table of tests/test_cmd_clean.py: t1=1 (setup t2), t2=2, t3=3 (group of t3:a=4), t4=5
   (file_dep on t1's target, hence task_dep t1) *)
Definition ex_tb : table := [
  {| t_name := 1%N; t_task_dep := []; t_setup := [2%N]; t_subtask_of := None; t_clean := Some [false]; t_targets := [[7%N]] |};
  {| t_name := 2%N; t_task_dep := []; t_setup := []; t_subtask_of := None; t_clean := Some [false]; t_targets := [] |};
  {| t_name := 3%N; t_task_dep := [4%N]; t_setup := []; t_subtask_of := None; t_clean := Some [false]; t_targets := [] |};
  {| t_name := 4%N; t_task_dep := []; t_setup := []; t_subtask_of := Some 3%N; t_clean := Some [false]; t_targets := [] |};
  {| t_name := 5%N; t_task_dep := [1%N]; t_setup := []; t_subtask_of := None; t_clean := Some [true]; t_targets := [] |} ].
Definition no_match (_ : name) (_ : unit) : bool := false.
(* the (first) clean action of 1 looks up 5, 1, 2; that of 2 looks up 1, 2; that of 5 looks up 1 *)
Definition ex_rd (t : name) (i : nat) : list name :=
  match i with
  | O => if N.eqb t 1 then [5; 1; 2]%N else if N.eqb t 2 then [1; 2]%N else if N.eqb t 5 then [1%N] else []
  | _ => []
  end.
Definition ex_opts (dry dep all fg : bool) (pos : list (sel unit)) (dflt : option (list (sel unit))) : opts unit :=
  {| o_dryrun := dry; o_cleandep := dep; o_cleanall := all; o_forget := fg; o_pos := pos; o_sel := dflt |}.
Definition ex_world : world :=
  {| w_fs := [([1%N], KDir); ([1%N; 2%N], KFile); ([1%N; 3%N], KFile); ([4%N], KDir); ([4%N; 0%N], KFile)];
     w_db := [1%N; 2%N; 5%N; 9%N]; w_ev := [] |}.
(* a `clean: True` task owning directory 1 with its two files, and directory 4 but not the file in it *)
Definition ex_rm : task :=
  {| t_name := 6%N; t_task_dep := []; t_setup := []; t_subtask_of := None; t_clean := None;
     t_targets := [[1%N]; [1%N; 2%N]; [4%N]; [1%N; 3%N]; [8%N]] |}.

Definition ex_rank (n : name) : nat :=
  if N.eqb n 5 then 3 else if N.eqb n 1 then 2 else if N.eqb n 3 then 2 else 1.

Lemma ex_tb_acyclic : acyclic (dep ex_tb).
Proof.
  apply (rank_acyclic _ ex_rank). intros x y (tk & Hl & Hin).
  apply lookup_Some_name in Hl. destruct Hl as [Hn Ht]. unfold ex_tb in Ht. simpl in Ht.
  repeat (destruct Ht as [<-|Ht];
          [simpl in *; subst x; repeat (destruct Hin as [<-|Hin]; [vm_compute; lia|]); contradiction|]).
  contradiction.
Qed.

Lemma ex_tb_closed : closed ex_tb.
Proof.
  intros x y (tk & Hl & Hin).
  apply lookup_Some_name in Hl. destruct Hl as [Hn Ht]. unfold ex_tb in Ht. simpl in Ht.
  repeat (destruct Ht as [<-|Ht];
          [simpl in *; repeat (destruct Hin as [<-|Hin]; [vm_compute; tauto|]); contradiction|]).
  contradiction.
Qed.

(* a two-task cycle: 1 depends on 2, 2 depends on 1 *)
Definition cyc_tb : table := [
  {| t_name := 1%N; t_task_dep := [2%N]; t_setup := []; t_subtask_of := None; t_clean := Some []; t_targets := [] |};
  {| t_name := 2%N; t_task_dep := [1%N]; t_setup := []; t_subtask_of := None; t_clean := Some []; t_targets := [] |} ].

Lemma not_before_2 {A} (a b : A) : a <> b -> ~ before a b [b; a].
Proof.
  intros Hne (l1 & l2 & l3 & E). destruct l1 as [|x l1]; simpl in E.
  - inversion E. congruence.
  - inversion E as [[E1 E2]]. destruct l1 as [|y l1]; simpl in E2.
    + inversion E2 as [E3]. destruct l2; discriminate.
    + inversion E2 as [[E3 E4]]. destruct l1; discriminate.
Qed.
(* ================================================================== totality on well-formed input *)
Definition noerr {A} (r : res A) : Prop := r <> KeyErr /\ r <> InvalidCmd.

Section Total.
  Variable tb : table.
  Hypothesis Hclosed : closed tb.

  Lemma lookup_in_names n : In n (names tb) -> exists t, lookup tb n = Some t.
  Proof.
    intros H. destruct (lookup tb n) as [t|] eqn:E; [exists t; reflexivity|].
    apply lookup_None in E. contradiction.
  Qed.

  Lemma bwd_list_noerr rec n : (forall st d, In d (names tb) -> noerr (rec st d)) ->
    forall ds st, (forall d, In d ds -> In d (names tb)) -> noerr (bwd_list rec n st ds).
  Proof.
    intros Hrec. induction ds as [|d r IH]; intros st Hds; simpl.
    - split; discriminate.
    - pose proof (Hrec (append_child d n (setdefault d (fst st)), snd st) d (Hds d (or_introl eq_refl))) as [A B].
      destruct (rec (append_child d n (setdefault d (fst st)), snd st) d) as [st'| | |]; try contradiction.
      + apply IH. intros d' Hd'. apply Hds. right; auto.
      + split; discriminate.
  Qed.

  Lemma bwd_noerr f : forall st n, In n (names tb) -> noerr (bwd f tb st n).
  Proof.
    induction f as [|f IH]; intros st n Hn; simpl; [split; discriminate|].
    destruct (mem n (snd st)); [split; discriminate|].
    destruct (lookup_in_names n Hn) as [t Et]. rewrite Et.
    apply bwd_list_noerr; auto. intros d Hd. apply (Hclosed n d). exists t. split; auto. apply in_rev; auto.
  Qed.

  Lemma bwd_all_noerr f : forall cl st, (forall n, In n cl -> In n (names tb)) -> noerr (bwd_all f tb st cl).
  Proof.
    induction cl as [|n r IH]; intros st Hcl; simpl; [split; discriminate|].
    pose proof (bwd_noerr f st n (Hcl n (or_introl eq_refl))) as [A B].
    destruct (bwd f tb st n) as [st'| | |]; try contradiction.
    - apply IH. intros m Hm. apply Hcl. right; auto.
    - split; discriminate.
  Qed.

  Lemma bn_deps_ok n : forall ds ns, (forall d, In d ds -> In d (names tb)) -> exists ns', bn_deps tb n ns ds = Ok ns'.
  Proof.
    induction ds as [|d r IH]; intros ns Hds; simpl; [exists ns; reflexivity|].
    destruct (lookup_in_names d (Hds d (or_introl eq_refl))) as [td Etd]. rewrite Etd.
    assert (Hr : forall d', In d' r -> In d' (names tb)) by (intros d' Hd'; apply Hds; right; auto).
    destruct (t_subtask_of td) as [g|]; [destruct (N.eqb g n)|]; apply IH; auto.
  Qed.

  Lemma build_nodes_ok : forall cl ns, (forall n, In n cl -> In n (names tb)) -> exists ns', build_nodes tb ns cl = Ok ns'.
  Proof.
    induction cl as [|n r IH]; intros ns Hcl; simpl; [exists ns; reflexivity|].
    destruct (lookup_in_names n (Hcl n (or_introl eq_refl))) as [t Et]. rewrite Et.
    destruct (bn_deps_ok n (rev (t_task_dep t)) (setdefault n ns)) as [ns1 ->].
    - intros d Hd. apply (Hclosed n d). exists t. split; auto. unfold deps_followed.
      apply in_or_app. right. apply in_rev; auto.
    - apply IH. intros m Hm. apply Hcl. right; auto.
  Qed.

  Variable pat : Type.
  Variable fnmatch : name -> pat -> bool.

  Lemma selected_in_names l x : check_exist pat tb l = true -> selected pat fnmatch tb l x -> In x (names tb).
  Proof.
    intros Hc (s & Hs & Hx). unfold check_exist in Hc. rewrite forallb_forall in Hc. specialize (Hc s Hs).
    destruct s as [n|p].
    - subst x. apply mem_In. exact Hc.
    - apply Hx.
  Qed.

  Definition sel_ok (o : opts pat) : Prop :=
    check_exist pat tb (o_pos o) = true /\
    match o_sel o with Some s => check_exist pat tb s = true | None => True end.

  Lemma clean_list_in_names o x : sel_ok o -> In x (snd (clean_list pat fnmatch tb o)) -> In x (names tb).
  Proof.
    intros [H1 H2] Hx. apply (clean_list_snd pat fnmatch) in Hx.
    destruct (o_cleanall o); auto. destruct (is_nil (o_pos o)).
    - destruct (o_sel o) as [s|]; auto. apply (selected_in_names s); auto.
    - apply (selected_in_names (o_pos o)); auto.
  Qed.

  Lemma clean_order_total o : sel_ok o -> exists out, clean_order pat fnmatch tb o = Ok out.
  Proof.
    intros Hok. pose proof (clean_order_fuel pat fnmatch tb o) as Hf.
    pose proof (clean_list_in_names o) as Hin. specialize (fun x => Hin x Hok).
    unfold Clean.clean_order in *. destruct Hok as [H1 _]. rewrite H1 in *. simpl in *.
    destruct (clean_list pat fnmatch tb o) as [cd cl]. simpl in Hin.
    assert (Hb : exists ns, build_tree tb cd cl = Ok ns).
    { unfold build_tree. destruct cd.
      - pose proof (bwd_all_noerr (S (length tb)) cl ([], []) Hin) as [A B].
        assert (Hokst : okst tb []) by (split; [apply NoDup_nil|intros x []]).
        destruct (bwd_all_fuel tb cl [] [] Hokst) as [E|[st E]]; unfold tstate, nodes in *; rewrite E in *.
        + contradiction.
        + exists (fst st). reflexivity.
      - apply build_nodes_ok; auto. }
    destruct Hb as [ns Hb]. rewrite Hb in *.
    destruct (flat_fuel (length ns) ns (le_n _)) as [out E]. exists out. exact E.
  Qed.

  Lemma clean_execute_total o w : sel_ok o -> exists l w', clean_execute pat fnmatch tb o w = Ok (l, w').
  Proof.
    intros Hok. destruct (clean_order_total o Hok) as [out Ho].
    assert (Hnames : forall x, In x out -> In x (names tb)).
    { intros x Hx. destruct (with_deps pat o) eqn:Ew.
      - apply (clean_order_set_deps pat fnmatch tb o out Ho Ew) in Hx. destruct Hx as (s & Hs & Hr).
        apply (reach_closed tb s x Hclosed); auto. apply (clean_list_in_names o s Hok Hs).
      - apply (clean_order_set_sub pat fnmatch tb o out Ho Ew) in Hx. destruct Hx as [Hx|(n & Hn & Hx)].
        + apply (clean_list_in_names o x Hok Hx).
        + destruct Hx as (t & td & _ & _ & Hl & _). apply (lookup_Some_In _ _ _ Hl). }
    assert (Hla : exists ts, lookup_all tb out = Some ts).
    { clear Ho. induction out as [|n r IH]; simpl; [exists []; reflexivity|].
      destruct (lookup_in_names n (Hnames n (or_introl eq_refl))) as [t ->].
      destruct IH as [ts ->]; [intros x Hx; apply Hnames; right; auto|]. exists (t :: ts). reflexivity. }
    destruct Hla as [ts Hts]. unfold Clean.clean_execute. rewrite Ho, Hts.
    destruct (clean_tasks (o_dryrun o) (o_forget o) ts [] w) as [l w']. exists l, w'. reflexivity.
  Qed.
End Total.
