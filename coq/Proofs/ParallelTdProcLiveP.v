(* ParallelTdProcLiveP.v -- COMPLETENESS of the per-worker teardown of MRunner (process flavour of the parallel
   model, proc = true).  ParallelTdProcP.v proves the discipline (a worker that tears down does it for exactly
   the tasks it started, reverse order, once) but allows "ran no teardown at all" for every worker.  Here: when
   run_tasks returns normally (exit code 0/1/2) and every Child.join() has returned, every worker process left
   through its terminating (None) job, so every task whose actions were started in worker w and that has teardown
   actions DID get its teardown run in w.

   Invariant on top of XI (ParallelTdProcP.v), kept by every worker step, by the scheduler, by the main loop as
   long as it does not raise:
     YI :  an interrupt notice (MExit) is queued in result_q,  or
           every worker that has exited is COMPLETE: its teardown events = rev (filter has_td (its starts))
   (a worker exits either on the None job -- it then runs its whole teardown list, which XI says is
   filter has_td (its starts) -- or on an interrupted action, and then it queues MExit; terminate() is only
   called on the paths that raise).  When the loop ends normally nothing is in flight (ParHoldP.main_loop_G:
   CI 0 0), in particular no MExit is queued, and this stays so during join (worker steps permute the flight).
   Whether every worker HAS exited when join_all returns is the liveness result of ParTermP.v
   (parallel_normal_end_all_joined: finite table, fuel >= par_enough_fuel); below that bound join_all may run out
   of its 4 * fuel scheduler steps with workers still alive while the exit code is normal: the statement is
   FALSE for every fuel (Example at the end), and on the raising paths (cycle / hold error 3, interrupt 4)
   terminate() kills the workers before their teardown (Examples at the end). *)
From Coq Require Import Permutation.
From DoitV Require Import Base Dispatch Runner Parallel DispatchP DispatchInv RunnerTr RunnerP AncP HoldP HoldG CompleteP
  ParallelP ParHoldP TermP ParStepP ParLiveP ParTermP ParallelTdProcP.
Open Scope nat_scope.

(* worker w ran the teardown of exactly the tasks it started that have teardown actions, reverse order *)
Definition wcomplete (h : name -> bool) (w : nat) (log : list pevent) : Prop :=
  wtds w log = rev (filter h (wstarts w log)).

Lemma wcomplete_app_noev h w log evs : wcomplete h w log -> noev w evs -> wcomplete h w (log ++ evs).
Proof.
  unfold wcomplete. intros H He.
  rewrite wtds_app, wstarts_app, (noev_wtds _ _ He), (noev_wstarts _ _ He), !app_nil_r. exact H.
Qed.
Lemma noev_wcomplete h w log : noev w log -> wcomplete h w log.
Proof. intros H. unfold wcomplete. rewrite (noev_wtds _ _ H), (noev_wstarts _ _ H). reflexivity. Qed.

Lemma wstarts_tdrun w w' l : wstarts w (map (fun k => PTdRun k w') l) = [].
Proof. induction l as [|k l IH]; simpl; auto. Qed.

Lemma alive_0_exited ws : alive ws = 0 -> forall w, nth w ws WExited = WExited.
Proof.
  induction ws as [|x ws IH]; intros H [|w]; simpl in *; auto.
  - destruct x; simpl in H; try lia; reflexivity.
  - apply IH. destruct (is_alive x); lia.
Qed.

Lemma in_fwd_of l k w : In (PTdRun k w) l -> In k (fwd l).
Proof. intros H. unfold fwd. apply in_flat_map. exists (PTdRun k w). split; auto. left. reflexivity. Qed.
Lemma in_pstarts_ex l k : In k (pstarts l) -> exists w, In (PStart k w) l.
Proof.
  unfold pstarts. rewrite in_flat_map. intros (e & He & Hk).
  destruct e as [ev|k0 w0|k0 w0|k0 w0| |]; simpl in Hk; try contradiction. destruct Hk as [<-|[]]. exists w0. exact He.
Qed.

Section TL.
Variable tasks : name -> option task.
Variable wake_rank : name -> name -> N.
Variable calc_rank : name -> N.
Variable continue_ always : bool.

Notation get_task := (get_task tasks).
Notation worker_step := (worker_step tasks true).
Notation main_get := (main_get tasks true).
Notation join_all := (join_all tasks true).
Notation get_next_job := (get_next_job tasks wake_rank calc_rank continue_ always).
Notation start_procs := (start_procs tasks wake_rank calc_rank continue_ always true).
Notation hand_out := (hand_out tasks wake_rank calc_rank continue_ always).
Notation main_loop := (main_loop tasks wake_rank calc_rank continue_ always true).
Notation run_core := (run_core tasks wake_rank calc_rank continue_ always true).
Notation run_parallel := (run_parallel tasks wake_rank calc_rank continue_ always true).
Notation has_td := (has_td tasks).
Notation XI := (XI tasks).

(* ---------- the invariant ---------- *)
Definition YI (p : pstate) : Prop :=
  exit_tasks (p_results p) <> [] \/
  forall w, nth w (p_workers p) WExited = WExited -> w < length (p_workers p) -> wcomplete has_td w (p_log p).

Lemma YI_same p p' :
  p_workers p' = p_workers p -> p_log p' = p_log p -> exit_tasks (p_results p') = exit_tasks (p_results p) ->
  YI p -> YI p'.
Proof. intros E1 E2 E3 [H|H]; [left|right]; rewrite ?E1, ?E2, ?E3; auto. Qed.

(* one step of worker w: the log grows by events that are not of any other worker, only w changes state *)
Lemma YI_step p p' w evs :
  p_log p' = p_log p ++ evs -> (forall w0, w0 <> w -> noev w0 evs) ->
  length (p_workers p') = length (p_workers p) ->
  (forall w0, w0 <> w -> nth w0 (p_workers p') WExited = nth w0 (p_workers p) WExited) ->
  (exit_tasks (p_results p) <> [] -> exit_tasks (p_results p') <> []) ->
  (exit_tasks (p_results p') <> [] \/ (nth w (p_workers p') WExited = WExited -> wcomplete has_td w (p_log p'))) ->
  YI p -> YI p'.
Proof.
  intros El Hev Hlen Hoth Hex Hw [H|H]; [left; auto|].
  destruct Hw as [Hw|Hw]; [left; exact Hw|].
  right. intros w0 E0 L0. destruct (Nat.eq_dec w0 w) as [->|Hne]; [apply Hw; exact E0|].
  rewrite El. apply wcomplete_app_noev; [|apply Hev; exact Hne].
  apply H; [rewrite <- (Hoth w0 Hne); exact E0|lia].
Qed.

Lemma noev_single_other w w0 e : w0 <> w -> of_worker w e = true -> noev w0 [e].
Proof.
  intros Hne He. unfold noev. simpl. rewrite andb_true_r. apply negb_true_iff.
  destruct e as [ev|k w1|k w1|k w1| |]; simpl in *; auto;
    apply Nat.eqb_eq in He; subst w1; apply Nat.eqb_neq; auto.
Qed.

Lemma worker_step_YI p w : XI p -> YI p -> YI (worker_step p w).
Proof.
  intros H HY. pose proof H as [L W T Q]. unfold Parallel.worker_step.
  destruct (nth w (p_workers p) WExited) as [|k|] eqn:Ew; auto.
  - assert (Hw : w < length (p_workers p)) by (eapply nth_lt_of; [exact Ew|discriminate]).
    assert (Wi : wtds w (p_log p) = [] /\ nth w (p_wtd p) [] = filter has_td (wstarts w (p_log p))).
    { specialize (W w). unfold wok in W. rewrite Ew in W. exact W. }
    destruct Wi as [Wt Wl].
    destruct (p_jobs p) as [|j js] eqn:Ej; auto.
    destruct j as [k| |].
    + (* a task *)
      match goal with |- YI ?q => apply (YI_step p q w (map PE (skipn (p_seen p) (r_tr (p_r p))) ++ [PStart k w])) end;
        cbn [p_wtd p_workers p_log p_r p_results p_seen plog sync with_jobs with_workers with_results]; auto.
      * rewrite <- app_assoc. reflexivity.
      * intros w0 Hne. apply noev_app; [apply nowev_noev; apply nowev_map_PE|].
        apply (noev_single_other w); auto. simpl. apply Nat.eqb_refl.
      * rewrite set_nth_length. reflexivity.
      * intros w0 Hne. apply nth_set_nth_neq. exact Hne.
      * rewrite exit_tasks_app. simpl. rewrite app_nil_r. auto.
      * right. rewrite nth_set_nth_eq by exact Hw. discriminate.
    + (* hold *)
      apply (YI_same p); auto.
    + (* the terminating job: the whole teardown list of this worker runs *)
      match goal with |- YI ?q =>
        apply (YI_step p q w (map PE (skipn (p_seen p) (r_tr (p_r p))) ++ map (fun k => PTdRun k w) (rev (nth w (p_wtd p) [])))) end;
        cbn [p_wtd p_workers p_log p_r p_results p_seen plog sync with_jobs with_workers with_results]; auto.
      * rewrite <- app_assoc. reflexivity.
      * intros w0 Hne. apply noev_app; [apply nowev_noev; apply nowev_map_PE|]. apply noev_tdrun_other. exact Hne.
      * rewrite set_nth_length. reflexivity.
      * intros w0 Hne. apply nth_set_nth_neq. exact Hne.
      * rewrite exit_tasks_app, exit_tasks_teardowns, app_nil_r. auto.
      * right. intros _. unfold wcomplete.
        pose proof (nowev_noev w _ (nowev_map_PE (skipn (p_seen p) (r_tr (p_r p))))) as Hpes.
        rewrite !wtds_app, !wstarts_app, Wt, (noev_wtds _ _ Hpes), (noev_wstarts _ _ Hpes), wtds_tdrun_self, wstarts_tdrun.
        simpl. rewrite !app_nil_r, Wl. reflexivity.
  - (* a busy worker finishes its task *)
    assert (Hw : w < length (p_workers p)) by (eapply nth_lt_of; [exact Ew|discriminate]).
    destruct (is_interrupt tasks k).
    + match goal with |- YI ?q => apply (YI_step p q w (map PE (skipn (p_seen p) (r_tr (p_r p))) ++ [PEnd k w])) end;
        cbn [p_wtd p_workers p_log p_r p_results p_seen plog sync with_jobs with_workers with_results]; auto.
      * rewrite <- app_assoc. reflexivity.
      * intros w0 Hne. apply noev_app; [apply nowev_noev; apply nowev_map_PE|].
        apply (noev_single_other w); auto. simpl. apply Nat.eqb_refl.
      * rewrite set_nth_length. reflexivity.
      * intros w0 Hne. apply nth_set_nth_neq. exact Hne.
      * intros _. rewrite exit_tasks_app. simpl. intros Hn. apply app_eq_nil in Hn. destruct Hn as [_ Hn]. discriminate.
      * left. rewrite exit_tasks_app. simpl. intros Hn. apply app_eq_nil in Hn. destruct Hn as [_ Hn]. discriminate.
    + match goal with |- YI ?q => apply (YI_step p q w (map PE (skipn (p_seen p) (r_tr (p_r p))) ++ [PEnd k w])) end;
        cbn [p_wtd p_workers p_log p_r p_results p_seen plog sync with_jobs with_workers with_results]; auto.
      * rewrite <- app_assoc. reflexivity.
      * intros w0 Hne. apply noev_app; [apply nowev_noev; apply nowev_map_PE|].
        apply (noev_single_other w); auto. simpl. apply Nat.eqb_refl.
      * rewrite set_nth_length. reflexivity.
      * intros w0 Hne. apply nth_set_nth_neq. exact Hne.
      * rewrite exit_tasks_app. simpl. rewrite app_nil_r. auto.
      * right. rewrite nth_set_nth_eq by exact Hw. discriminate.
Qed.

Definition J (p : pstate) : Prop := XI p /\ YI p.

Lemma J_sched p s : J p -> J (with_sched p s).
Proof. intros [A B]. split; [apply (XI_same0 tasks p); auto|apply (YI_same p); auto]. Qed.
Lemma J_worker_step p w : J p -> J (worker_step p w).
Proof. intros [A B]. split; [apply worker_step_XI; exact A|apply worker_step_YI; auto]. Qed.

(* ---------- the main process: hand_out leaves workers, log and result queue alone ---------- *)
Lemma hand_out_same fuel n : forall p c e p', hand_out fuel n p c = (e, p') ->
  p_workers p' = p_workers p /\ p_log p' = p_log p /\ p_results p' = p_results p.
Proof.
  induction n as [|n IH]; intros p c e p' E; cbn [Parallel.hand_out] in E.
  { inversion E; subst. auto. }
  destruct (get_next_job fuel p c) as [g p1] eqn:Eg.
  destruct (get_next_job_same _ _ _ _ _ _ _ _ _ _ Eg) as (Sw & _ & _ & Sr & Sl & _).
  destruct g as [j| |path|]; try (inversion E; subst; auto; fail).
  - destruct (IH _ _ _ _ E) as (A & B & C). cbn [put_job p_workers p_log p_results with_jobs] in *.
    rewrite A, B, C. auto.
  - destruct (IH _ _ _ _ E) as (A & B & C). cbn [put_job p_workers p_log p_results with_jobs with_counts] in *.
    rewrite A, B, C. auto.
Qed.

(* the `while proc_count` loop, on the path that does not raise *)
Lemma main_loop_J fuel : forall p p', J p -> main_loop fuel p = (PNormal, p') -> J p'.
Proof.
  induction fuel as [|fuel IH]; intros p p' HJ E; cbn [Parallel.main_loop] in E; [discriminate|].
  destruct (p_count p). { inversion E; subst. exact HJ. }
  destruct (main_get (S fuel * 4) p) as [m p1] eqn:Em.
  destruct m as [m0|]; [|discriminate].
  destruct HJ as [H HY].
  pose proof (main_get_XI tasks _ _ _ _ H Em) as H0.
  pose proof (xi_td _ _ H0) as T0. pose proof (xi_q _ _ H0) as Q0.
  cbn [p_log p_r p_results with_results] in T0, Q0.
  destruct (main_get_inv tasks true J J_sched ltac:(intros q w HJq _; apply J_worker_step; exact HJq)
              _ _ _ _ (conj H HY) Em) as (p0 & [_ Y0] & Er & Ep).
  assert (Y1 : match m0 with MExit _ => True | _ => YI p1 end).
  { destruct m0; auto; apply (YI_same p0); auto; rewrite Ep; cbn [p_workers p_log p_results with_results]; auto;
      rewrite Er; reflexivity. }
  assert (G : forall r', r_td r' = [] -> tdm (r_tr r') = tdm (r_tr (p_r p1)) ++ mtd (olist (Some m0)) -> XI (with_r p1 r')).
  { intros r' A B. apply (XI_same tasks (with_results p1 (olist (Some m0) ++ p_results p1))); auto.
    cbn [p_log p_r p_results with_results with_r]. rewrite B, mtd_app, app_assoc. reflexivity. }
  destruct m0 as [k|k|k|k]; cbn [olist mtd flat_map app] in G; [| | |discriminate].
  - (* a result *)
    set (p2 := with_r p1 (process_result tasks continue_ (p_r p1) k)) in *.
    assert (H2 : XI p2).
    { destruct (RQ_process tasks continue_ (tdm (r_tr (p_r p1))) (p_r p1) k (conj T0 eq_refl)) as [A B].
      apply G; auto. rewrite B, app_nil_r. reflexivity. }
    destruct (hand_out (S fuel) (S (p_free p2)) (with_counts p2 0 (p_count p2)) (Some k)) as [e2 p3] eqn:Eh.
    assert (H3 : XI p3).
    { eapply hand_out_XI; [|exact Eh]. apply (XI_same0 tasks p2); auto. }
    destruct (hand_out_same _ _ _ _ _ _ Eh) as (Sw & Sl & Sr).
    assert (Y3 : YI p3) by (apply (YI_same p1); auto; rewrite Sr; reflexivity).
    destruct e2; try discriminate.
    destruct (deadlocked p3); [discriminate|]. apply (IH p3); auto. split; auto.
  - (* execute report forwarded by a worker *)
    eapply IH; [|exact E]. split; [|apply (YI_same p1); auto]. apply G; auto. unfold emit. simpl. rewrite tdm_app. reflexivity.
  - (* teardown report forwarded by a worker *)
    eapply IH; [|exact E]. split; [|apply (YI_same p1); auto]. apply G; auto. unfold emit. simpl. rewrite tdm_app. reflexivity.
Qed.

(* ---------- the whole run, for EVERY fuel: when run_tasks returns normally, every worker that has exited left
   through its terminating job and is complete ---------- *)
Lemma flight_nil_of_CI p : CI 0 0 p -> flight p = [].
Proof. unfold CI. intros H. destruct (flight p); [reflexivity|simpl in H; lia]. Qed.

Lemma run_core_normal fuel nprocs sched sel p2 :
  run_core fuel nprocs sched sel = (PNormal, p2) ->
  XI p2 /\ forall w, nth w (p_workers p2) WExited = WExited -> wcomplete has_td w (p_log p2).
Proof.
  unfold ParHoldP.run_core.
  destruct (start_procs fuel nprocs (p_init sched sel)) as [e1 p1] eqn:E1.
  pose proof (start_procs_XI tasks wake_rank calc_rank continue_ always fuel nprocs _ _ _ (XI_init tasks sched sel) E1) as H1.
  destruct (start_procs_L tasks wake_rank calc_rank continue_ always true _ _ _ _ _
              (SPI_init tasks continue_ sched sel) (SS_init sched sel) ltac:(intros []) E1) as (Hh1 & L1).
  destruct e1; try discriminate.
  destruct (L1 eq_refl) as (S1 & SS1 & _).
  set (p1' := with_counts p1 (p_free p1) (length (p_workers p1))).
  destruct (deadlocked p1') eqn:Edl; [discriminate|].
  destruct (main_loop fuel p1') as [em pm] eqn:E2.
  destruct em; try discriminate. intros E. inversion E; subst p2. clear E.
  assert (J1 : J p1').
  { split; [apply (XI_same0 tasks p1); auto|]. right. intros w Ew Lw. exfalso.
    destruct SS1 as (_ & W0 & _). specialize (W0 (nth w (p_workers p1) WExited) (nth_In _ _ Lw)).
    change (p_workers p1') with (p_workers p1) in Ew. congruence. }
  destruct (main_loop_J _ _ _ J1 E2) as [Hm Ym].
  assert (Hfl : flight pm = []).
  { destruct (p_count p1') as [|c] eqn:Ec.
    - destruct (main_loop_count0 _ _ _ _ _ _ _ _ _ _ Ec E2) as [-> _].
      unfold p1'. rewrite flight_with_counts.
      destruct S1 as (_ & _ & _ & HCI). unfold CI in HCI. unfold p1' in Ec. cbn [p_count with_counts] in Ec.
      destruct (flight p1); [reflexivity|simpl in HCI; lia].
    - destruct (loop_entry tasks continue_ p1 S1 SS1 Edl ltac:(fold p1'; lia)) as ((P & Nn & C & D & Z) & _ & _).
      fold p1' in P, Nn, C, D, Z.
      destruct (main_loop_G tasks wake_rank calc_rank continue_ always true fuel p1' PNormal pm P Nn C D Z E2)
        as (_ & _ & _ & _ & _ & G).
      destruct (G eq_refl) as (_ & G2 & _). apply flight_nil_of_CI. exact G2. }
  set (pj := join_all (fuel * 4) pm).
  assert (Hj : J pj /\ flight pj = []).
  { apply (join_all_inv tasks true (fun q => J q /\ flight q = [])).
    - intros q s [A B]. split; [apply J_sched; exact A|exact B].
    - intros q w [A B] _. split; [apply J_worker_step; exact A|].
      pose proof (worker_step_perm tasks true q w) as P. rewrite B in P. apply Permutation_nil in P. exact P.
    - split; [split; assumption|exact Hfl]. }
  destruct Hj as [[Hx Hy] Hf].
  destruct (drain_XI tasks pj Hx) as [Hd _]. split; [exact Hd|].
  intros w Ew. change (p_workers (drain pj)) with (p_workers pj) in Ew. change (p_log (drain pj)) with (p_log pj).
  destruct (Nat.lt_ge_cases w (length (p_workers pj))) as [Lw|Lw].
  - destruct Hy as [Hy|Hy]; [|apply Hy; auto]. exfalso. apply Hy.
    unfold flight in Hf. apply app_eq_nil in Hf. exact (proj2 Hf).
  - apply noev_wcomplete. apply (wok_noev_out _ _ _ _ _ Lw (xi_w _ _ Hx w)).
Qed.

Lemma run_normal_log fuel nprocs sched sel p2 :
  run_core fuel nprocs sched sel = (PNormal, p2) ->
  exists pes, fst (run_parallel fuel nprocs sched sel) = p_log p2 ++ map PE pes /\ (snd (run_parallel fuel nprocs sched sel) <= 2)%N.
Proof.
  intros Ec. destruct (run_parallel_code _ _ _ _ _ _ _ _ _ _ _ _ Ec) as (A & B & C).
  eexists. split; [rewrite B; cbn [pmarker pfin sync with_r p_log]; rewrite app_nil_r; reflexivity|].
  rewrite A. exact C.
Qed.

(* (A) every fuel: a worker that has exited when run_tasks returns normally tore down exactly the tasks it started
   that have teardown actions, in reverse order *)
Theorem proc_teardown_complete_exited fuel nprocs sched sel p2 w :
  run_core fuel nprocs sched sel = (PNormal, p2) -> nth w (p_workers p2) WExited = WExited ->
  wtds w (fst (run_parallel fuel nprocs sched sel)) = rev (filter has_td (wstarts w (fst (run_parallel fuel nprocs sched sel)))).
Proof.
  intros Ec Ew. destruct (run_core_normal _ _ _ _ _ Ec) as [_ Hc].
  destruct (run_normal_log _ _ _ _ _ Ec) as (pes & -> & _).
  apply wcomplete_app_noev; [apply Hc; exact Ew|apply nowev_noev; apply nowev_map_PE].
Qed.

(* (B) every fuel: run_tasks returned normally and every Child.join() returned (no worker alive): every task started
   in a worker that has teardown actions got its teardown run there *)
Theorem proc_teardown_all_run_joined fuel nprocs sched sel p2 :
  run_core fuel nprocs sched sel = (PNormal, p2) -> alive (p_workers p2) = 0 ->
  forall k w, In (PStart k w) (fst (run_parallel fuel nprocs sched sel)) -> has_td k = true ->
              In (PTdRun k w) (fst (run_parallel fuel nprocs sched sel)).
Proof.
  intros Ec Ha k w Hs Hk.
  pose proof (proc_teardown_complete_exited _ _ _ _ _ w Ec (alive_0_exited _ Ha w)) as Hc.
  apply in_wtds. rewrite Hc. apply -> in_rev. apply filter_In. split; [apply in_wstarts; exact Hs|exact Hk].
Qed.

End TL.

(* ---------- the statements over a finite table, above the fuel bound of ParTermP.v ---------- *)
Section TF.
Variable tasks : name -> option task.
Variable univ selection : list name.
Hypothesis Hfin : finite_table tasks univ.
Variable wake_rank : name -> name -> N.
Variable calc_rank : name -> N.
Variable continue_ always : bool.
Variable nprocs : nat.
Variable sched : list nat.
Variable fuel : nat.
Hypothesis Hfuel : par_enough_fuel tasks univ selection nprocs <= fuel.

Notation res := (run_parallel tasks wake_rank calc_rank continue_ always true fuel nprocs sched selection).
Notation has_td := (has_td tasks).

Lemma normal_code_core : ~ In (snd res) [3; 4; 98; 99]%N ->
  exists p2, run_core tasks wake_rank calc_rank continue_ always true fuel nprocs sched selection = (PNormal, p2) /\
             alive (p_workers p2) = 0.
Proof.
  intros Hn.
  destruct (run_core tasks wake_rank calc_rank continue_ always true fuel nprocs sched selection) as [e2 p2] eqn:Ec.
  destruct (run_parallel_code _ _ _ _ _ _ _ _ _ _ _ _ Ec) as (A & _ & _).
  destruct e2; try (exfalso; apply Hn; rewrite A; simpl; tauto).
  exists p2. split; [reflexivity|].
  apply (parallel_normal_end_all_joined tasks univ selection Hfin wake_rank calc_rank continue_ always true nprocs sched fuel p2 Hfuel Ec).
Qed.

(* COMPLETENESS: the run ended normally => every task whose actions were started in worker w and that has teardown
   actions had its teardown run in w *)
Theorem proc_teardown_all_run :
  ~ In (snd res) [3; 4; 98; 99]%N ->
  forall k w, In (PStart k w) (fst res) -> has_td k = true -> In (PTdRun k w) (fst res).
Proof.
  intros Hn. destruct (normal_code_core Hn) as (p2 & Ec & Ha).
  apply (proc_teardown_all_run_joined tasks wake_rank calc_rank continue_ always fuel nprocs sched selection p2 Ec Ha).
Qed.

(* the exact per-worker statement: the teardowns run by worker w are EXACTLY the tasks it started that have
   teardown actions, in reverse order of start (once each: the starts are duplicate free) *)
Theorem proc_teardown_exact_per_worker :
  ~ In (snd res) [3; 4; 98; 99]%N ->
  forall w, wtds w (fst res) = rev (filter has_td (wstarts w (fst res))) /\ NoDup (wtds w (fst res)).
Proof.
  intros Hn w. destruct (normal_code_core Hn) as (p2 & Ec & Ha). split.
  - apply (proc_teardown_complete_exited tasks wake_rank calc_rank continue_ always fuel nprocs sched selection p2 w Ec).
    apply alive_0_exited. exact Ha.
  - apply proc_teardown_once_worker.
Qed.

(* ... as one contiguous block after the worker's last task event, nothing of this worker afterwards *)
Theorem proc_teardown_exact_block :
  ~ In (snd res) [3; 4; 98; 99]%N ->
  forall w, exists pre post,
    fst res = pre ++ map (fun k => PTdRun k w) (rev (filter has_td (wstarts w (fst res)))) ++ post /\
    wstarts w pre = wstarts w (fst res) /\ wtds w pre = [] /\ noev w post.
Proof.
  intros Hn w. destruct (proc_teardown_exact_per_worker Hn w) as [Hc _].
  destruct (proc_teardown_per_worker tasks wake_rank calc_rank continue_ always fuel nprocs sched selection w) as [H0|(pre & post & E & Hp & Hq)].
  - exists (fst res), []. rewrite H0 in Hc. rewrite <- Hc. simpl. rewrite app_nil_r. repeat split; auto.
  - assert (Hs : wstarts w (fst res) = wstarts w pre).
    { rewrite E at 1. rewrite !wstarts_app, wstarts_tdrun, (noev_wstarts _ _ Hq), !app_nil_r. reflexivity. }
    exists pre, post. rewrite Hs. repeat split; auto.
Qed.

(* the global statement: every task started anywhere that has teardown actions is torn down exactly once in the
   whole log (and nothing else is: proc_teardown_owner) *)
Theorem proc_teardown_exactly_once :
  ~ In (snd res) [3; 4; 98; 99]%N ->
  forall k w, In (PStart k w) (fst res) -> has_td k = true -> count_occ N.eq_dec (fwd (fst res)) k = 1.
Proof.
  intros Hn k w Hs Hk.
  pose proof (proc_teardown_all_run Hn k w Hs Hk) as Ht. apply in_fwd_of in Ht.
  pose proof (proc_teardown_once tasks wake_rank calc_rank continue_ always fuel nprocs sched selection) as Hd.
  pose proof (proj1 (NoDup_count_occ N.eq_dec _) Hd k) as Hle.
  apply (count_occ_In N.eq_dec) in Ht. lia.
Qed.

(* the teardowns run by all workers = the started tasks that have teardown actions, as multisets *)
Theorem proc_teardown_permutation :
  ~ In (snd res) [3; 4; 98; 99]%N ->
  Permutation (fwd (fst res)) (filter has_td (pstarts (fst res))).
Proof.
  intros Hn. apply NoDup_Permutation.
  - apply proc_teardown_once.
  - apply NoDup_filter. apply parallel_exec_once.
  - intros k. rewrite filter_In. split.
    + intros Hk. apply in_fwd in Hk. destruct Hk as [w Hk].
      destruct (proc_teardown_owner tasks wake_rank calc_rank continue_ always fuel nprocs sched selection k w Hk) as [A B].
      split; [eapply in_pstarts; eauto|exact B].
    + intros [A B]. apply in_pstarts_ex in A. destruct A as [w A].
      eapply in_fwd_of. apply (proc_teardown_all_run Hn k w A B).
Qed.

End TF.

Print Assumptions proc_teardown_complete_exited.
Print Assumptions proc_teardown_all_run_joined.
Print Assumptions proc_teardown_all_run.
Print Assumptions proc_teardown_exact_per_worker.
Print Assumptions proc_teardown_exact_block.
Print Assumptions proc_teardown_exactly_once.
Print Assumptions proc_teardown_permutation.

(* ---------- non-vacuity, and why each hypothesis is needed ---------- *)
Open Scope N_scope.

Lemma ex11p_finite : finite_table ex11p [0; 1; 2; 3; 4].
Proof.
  intros k Hk. destruct k as [|p]; [exfalso; apply Hk; simpl; auto|].
  repeat (destruct p as [p|p|]; try reflexivity; try (exfalso; apply Hk; simpl; tauto)).
Qed.
Definition ex11p_fuel : nat := par_enough_fuel ex11p [0; 1; 2; 3; 4] [0; 1; 2; 3; 4] 2.

(* the table of ParallelTdProcP.v (five independent tasks, all but 3 with teardown actions), two worker processes,
   exactly the fuel of the bound: exit code 0; worker 0 started 1, 2, 4 and tore down 4, 2, 1; worker 1 started
   0, 3 and tore down 0 *)
Example proc_teardown_complete_nonvacuous :
  let r := run_parallel ex11p (fun _ _ => 0) (fun _ => 0) false false true ex11p_fuel 2
             [1;0;2;1;0;1;1;2;0;1;2;1;1;0;2;1;0]%nat [0; 1; 2; 3; 4] in
  N.of_nat ex11p_fuel = 3329 /\ snd r = 0 /\
  wstarts 0 (fst r) = [1; 2; 4] /\ wtds 0 (fst r) = [4; 2; 1] /\ wstarts 1 (fst r) = [0; 3] /\ wtds 1 (fst r) = [0] /\
  fwd (fst r) = [0; 4; 2; 1] /\ map (has_td ex11p) [0; 1; 2; 3; 4] = [true; true; true; false; true].
Proof. cbv zeta. repeat split; vm_compute; reflexivity. Qed.

(* a failing task without --continue: exit code 1 is a normal end too -- the workers get their None jobs and
   tear down, the failed task 0 included *)
Definition ex11f (n : name) : option task :=
  match n with
  | 0 => Some (Build_task [] [] [] true false CkRun false OFail [] [] [])
  | 1 | 2 => Some (Build_task [] [] [] true false CkRun false OOk [] [] [])
  | _ => None end.
Lemma ex11f_finite : finite_table ex11f [0; 1; 2].
Proof.
  intros k Hk. destruct k as [|p]; [exfalso; apply Hk; simpl; auto|].
  repeat (destruct p as [p|p|]; try reflexivity; try (exfalso; apply Hk; simpl; tauto)).
Qed.
Example proc_teardown_complete_nonvacuous_failure :
  let r := run_parallel ex11f (fun _ _ => 0) (fun _ => 0) false false true (par_enough_fuel ex11f [0; 1; 2] [0; 1; 2] 2) 2
             [1;0;2;1;0;1;1;2;0;1;2;1;1;0;2;1;0]%nat [0; 1; 2] in
  snd r = 1 /\ wstarts 0 (fst r) = [1; 2] /\ wtds 0 (fst r) = [2; 1] /\ wstarts 1 (fst r) = [0] /\ wtds 1 (fst r) = [0].
Proof. cbv zeta. repeat split; vm_compute; reflexivity. Qed.

(* the fuel bound is needed: "for EVERY fuel" is FALSE in this model.  Task 0 (teardown actions, fails) and task 1
   depending on it, 12 worker processes, fuel 5: worker 0 runs task 0, the other 11 are put on hold; the failure
   stops the run, 12 None jobs are queued behind the 11 hold jobs; join_all has 4 * 5 scheduler steps and the
   schedule serves the other workers first: the model returns (exit code 1) with worker 0 still waiting for its
   None job -- the teardown of task 0 never runs.  (An artefact of the model's fuel, not of doit: Child.join() waits.) *)
Definition ex11q (n : name) : option task :=
  match n with
  | 0 => Some (Build_task [] [] [] true false CkRun false OFail [] [] [])
  | 1 => Some (Build_task [0] [] [] true false CkRun false OOk [] [] [])
  | _ => None end.
Theorem proc_teardown_all_run_every_fuel_refuted :
  exists tasks wake_rank calc_rank continue_ always fuel nprocs sched selection k w,
    let res := run_parallel tasks wake_rank calc_rank continue_ always true fuel nprocs sched selection in
    ~ In (snd res) [3; 4; 98; 99] /\ In (PStart k w) (fst res) /\ has_td tasks k = true /\ ~ In (PTdRun k w) (fst res).
Proof.
  exists ex11q, (fun _ _ => 0), (fun _ => 0), false, false, 5%nat, 12%nat, ([0;0;0;0] ++ repeat 1 200)%nat, [0; 1], 0, 0%nat.
  cbv zeta. split; [vm_compute; intuition discriminate|]. split; [vm_compute; tauto|].
  split; [reflexivity|vm_compute; intuition discriminate].
Qed.
(* ... with the fuel of the bound the same run (same schedule) does tear task 0 down *)
Example proc_teardown_fuel_bound_enough :
  let res := run_parallel ex11q (fun _ _ => 0) (fun _ => 0) false false true (par_enough_fuel ex11q [0; 1] [0; 1] 12) 12
               ([0;0;0;0] ++ repeat 1 200)%nat [0; 1] in
  snd res = 1 /\ wstarts 0 (fst res) = [0] /\ wtds 0 (fst res) = [0].
Proof. cbv zeta. repeat split; vm_compute; reflexivity. Qed.

(* the exit code hypothesis is needed: on the raising paths terminate() kills the worker processes, their pending
   teardowns never run -- finite tables, fuel of the bound.
   code 3, cycle error: task 3 (teardown actions) ran in the only worker, then the dispatcher meets the cycle 4 -> 5 -> 4;
   code 3, hold error:  task 3 ran, the rest of the selection is a cycle outside one ancestor chain (everything on hold);
   code 4, interrupt:   the table of ParallelTdProcP.proc_teardown_interrupt_example: worker 0 is killed after task 2
                        was interrupted, the teardown of task 1 (started there) never runs *)
Definition ex11c (n : name) : option task :=
  match n with
  | 3 => Some (Build_task [] [] [] true false CkRun false OOk [] [] [])
  | 4 => Some (Build_task [5] [] [] false false CkRun false OOk [] [] [])
  | 5 => Some (Build_task [4] [] [] false false CkRun false OOk [] [] [])
  | _ => None end.
Definition ex11h (n : name) : option task :=
  match n with
  | 0 => Some (Build_task [1; 2] [] [] false false CkRun false OOk [] [] [])
  | 1 => Some (Build_task [2] [] [] false false CkRun false OOk [] [] [])
  | 2 => Some (Build_task [1] [] [] false false CkRun false OOk [] [] [])
  | 3 => Some (Build_task [] [] [] true false CkRun false OOk [] [] [])
  | _ => None end.
Lemma ex11c_finite : finite_table ex11c [3; 4; 5].
Proof.
  intros k Hk. destruct k as [|p]; [reflexivity|].
  repeat (destruct p as [p|p|]; try reflexivity; try (exfalso; apply Hk; simpl; tauto)).
Qed.
Lemma ex11h_finite : finite_table ex11h [0; 1; 2; 3].
Proof.
  intros k Hk. destruct k as [|p]; [exfalso; apply Hk; simpl; auto|].
  repeat (destruct p as [p|p|]; try reflexivity; try (exfalso; apply Hk; simpl; tauto)).
Qed.
Lemma ex11p_int_finite : finite_table ex11p_int [0; 1; 2].
Proof.
  intros k Hk. destruct k as [|p]; [exfalso; apply Hk; simpl; auto|].
  repeat (destruct p as [p|p|]; try reflexivity; try (exfalso; apply Hk; simpl; tauto)).
Qed.

(* the statement of proc_teardown_all_run with "exit code = code" in place of "the run ended normally" fails *)
Definition td_not_run_with_code (code : N) : Prop :=
  exists tasks univ selection wake_rank calc_rank continue_ always nprocs sched k w,
    finite_table tasks univ /\
    let res := run_parallel tasks wake_rank calc_rank continue_ always true
                 (par_enough_fuel tasks univ selection nprocs) nprocs sched selection in
    snd res = code /\ In (PStart k w) (fst res) /\ has_td tasks k = true /\ ~ In (PTdRun k w) (fst res).

Theorem proc_teardown_all_run_code3_cycle_refuted : td_not_run_with_code 3.
Proof.
  exists ex11c, [3; 4; 5], [3; 4], (fun _ _ => 0), (fun _ => 0), false, false, 1%nat, (@nil nat), 3, 0%nat.
  split; [exact ex11c_finite|]. cbv zeta. split; [vm_compute; reflexivity|]. split; [vm_compute; tauto|].
  split; [reflexivity|vm_compute; intuition discriminate].
Qed.
Theorem proc_teardown_all_run_code3_hold_refuted : td_not_run_with_code 3.
Proof.
  exists ex11h, [0; 1; 2; 3], [3; 0], (fun _ _ => 0), (fun _ => 0), false, false, 2%nat, [1;0;1;1;0;0;1]%nat, 3, 1%nat.
  split; [exact ex11h_finite|]. cbv zeta. split; [vm_compute; reflexivity|]. split; [vm_compute; tauto|].
  split; [reflexivity|vm_compute; intuition discriminate].
Qed.
Theorem proc_teardown_all_run_code4_refuted : td_not_run_with_code 4.
Proof.
  exists ex11p_int, [0; 1; 2], [0; 1; 2], (fun _ _ => 0), (fun _ => 0), false, false, 2%nat,
         [1;0;2;1;0;1;1;2;0;1;2;1;1;0;2;1;0]%nat, 1, 0%nat.
  split; [exact ex11p_int_finite|]. cbv zeta. split; [vm_compute; reflexivity|]. split; [vm_compute; tauto|].
  split; [reflexivity|vm_compute; intuition discriminate].
Qed.
(* the diagnostics of the two code-3 runs *)
Example proc_teardown_code3_examples :
  (let res := run_parallel ex11c (fun _ _ => 0) (fun _ => 0) false false true (par_enough_fuel ex11c [3; 4; 5] [3; 4] 1) 1 [] [3; 4] in
   filter ex11p_keep (fst res) = [PStart 3 0; PTerminate; PE EClose] /\ last (fst res) PHang = PE (ECycleError [4; 5; 4])) /\
  (let res := run_parallel ex11h (fun _ _ => 0) (fun _ => 0) false false true (par_enough_fuel ex11h [0; 1; 2; 3] [3; 0] 2) 2
                [1;0;1;1;0;0;1]%nat [3; 0] in
   filter ex11p_keep (fst res) = [PStart 3 1; PTerminate; PE EClose] /\ last (fst res) PHang = PE EHoldError).
Proof. cbv zeta. repeat split; vm_compute; reflexivity. Qed.

Print Assumptions proc_teardown_all_run_every_fuel_refuted.
Print Assumptions proc_teardown_all_run_code3_cycle_refuted.
Print Assumptions proc_teardown_all_run_code3_hold_refuted.
Print Assumptions proc_teardown_all_run_code4_refuted.
