(* ParHoldP.v -- the parallel runners (MRunner / MThreadRunner model of Parallel.v), every schedule,
   every worker count, both flavours:
   (A) the "tasks waiting for each other" diagnostic (EHoldError) is never a false alarm,
   (B) neither is the "cyclic dependency" diagnostic (ECycleError),
   (C) a run that ends normally with the stop flag unset has a final report for every selected task.
   Invariants: PI (ParallelP.v) + the wait-graph invariant of HoldG.v relative to the tasks in flight
   (queued jobs, busy workers, results and interrupt notices not dequeued yet) + a counting invariant
   tying free_proc / proc_count to the queues. *)
From Coq Require Import Permutation.
From DoitV Require Import Base Dispatch Runner Parallel DispatchP DispatchInv RunnerTr RunnerP AncP HoldP HoldG CompleteP ParallelP.
Open Scope N_scope.

(* tasks whose action was interrupted in a worker; the notice is still in the result queue *)
Definition exit_tasks (ms : list msg) : list name := flat_map (fun m => match m with MExit k => [k] | _ => [] end) ms.
Lemma exit_tasks_app a b : exit_tasks (a ++ b) = exit_tasks a ++ exit_tasks b.
Proof. unfold exit_tasks. apply flat_map_app. Qed.

(* tasks in flight: selected to run, the main thread has not seen the outcome yet *)
Definition flight (p : pstate) : list name := live p ++ exit_tasks (p_results p).
Definition Fl (p : pstate) (x : name) : Prop := In x (flight p).

Lemma cnt_perm (l l' : list name) : (forall k, cnt l k = cnt l' k) -> Permutation l l'.
Proof. intros H. apply (Permutation_count_occ N.eq_dec). exact H. Qed.

Lemma res_tasks_teardowns l : res_tasks (map MTeardown l) = [].
Proof. induction l; simpl; auto. Qed.
Lemma exit_tasks_teardowns l : exit_tasks (map MTeardown l) = [].
Proof. induction l; simpl; auto. Qed.

(* what the dispatcher / the counters see is unchanged *)
Definition qsame (p p' : pstate) : Prop :=
  r_d (p_r p') = r_d (p_r p) /\ r_stop (p_r p') = r_stop (p_r p) /\ p_free p' = p_free p /\ p_count p' = p_count p /\
  length (p_workers p') = length (p_workers p).
Lemma qsame_refl p : qsame p p. Proof. repeat split. Qed.
Lemma qsame_trans a b c : qsame a b -> qsame b c -> qsame a c.
Proof. unfold qsame. intuition congruence. Qed.

Ltac flight_unfold :=
  unfold flight, live;
  cbn [p_jobs p_workers p_results p_r with_jobs with_workers with_results with_r with_sched with_counts plog sync].

Section PH.
Variable tasks : name -> option task.
Variable wake_rank : name -> name -> N.
Variable calc_rank : name -> N.
Variable continue_ always proc : bool.

Notation node_of := (node_of tasks).
Notation st_of := (st_of tasks).
Notation get_task := (get_task tasks).
Notation reach := (reach tasks).
Notation AInv := (AInv tasks).
Notation PI := (PI tasks).
Notation HG := (HG tasks).
Notation PG := (PG tasks).
Notation worker_step := (worker_step tasks proc).
Notation main_get := (main_get tasks proc).
Notation join_all := (join_all tasks proc).
Notation next_job_loop := (next_job_loop tasks wake_rank calc_rank continue_ always).
Notation get_next_job := (get_next_job tasks wake_rank calc_rank continue_ always).
Notation start_procs := (start_procs tasks wake_rank calc_rank continue_ always proc).
Notation hand_out := (hand_out tasks wake_rank calc_rank continue_ always).
Notation main_loop := (main_loop tasks wake_rank calc_rank continue_ always proc).
Notation terminate := (terminate proc).
Notation run_parallel := (run_parallel tasks wake_rank calc_rank continue_ always proc).

(* ---------- bookkeeping invariant: no PI needed ---------- *)
(* the main runner: the diagnostics are not reported through the trace; result code vs stop flag *)
Definition NR (r : rstate) : Prop :=
  nohold (r_tr r) /\ nocyc (r_tr r) /\ FI r /\ (continue_ = true -> r_stop r = false).
Record NI (p : pstate) : Prop := {
  ni_int : forall k, In k (res_tasks (p_results p)) -> is_interrupt tasks k = false;
  ni_r : NR (p_r p)
}.

Lemma NI_same p p' : p_results p' = p_results p -> p_r p' = p_r p -> NI p -> NI p'.
Proof. intros Er Ep [A B]. split; rewrite ?Er, ?Ep; auto. Qed.

Lemma NR_with_d r d : NR r -> NR (with_d r d).
Proof. intros H. exact H. Qed.
(* the runner state gets more (ordinary) events *)
Lemma NR_tr r r' evs :
  NR r -> r_tr r' = r_tr r ++ evs -> nohold evs -> nocyc evs -> r_final r' = r_final r -> r_stop r' = r_stop r -> NR r'.
Proof.
  intros (B & C & [D1 D2] & E) Et Hh Hc Ef Es. unfold NR, FI. rewrite Et, Ef, Es.
  split; [apply nohold_app; auto|]. split; [apply nocyc_app; auto|]. auto.
Qed.
Lemma NR_emit r evs : NR r -> nohold evs -> nocyc evs -> NR (emit r evs).
Proof. intros H A B. eapply (NR_tr r _ evs); eauto; reflexivity. Qed.
Lemma NR_handle_error_gen st r k kd : NR r -> NR (handle_error_gen tasks continue_ st r k kd).
Proof.
  intros (B & C & [D1 D2] & E). unfold handle_error_gen, NR, FI. cbn [r_tr r_final r_stop].
  split; [apply nohold_app; auto; reflexivity|]. split; [apply nocyc_app; auto; reflexivity|].
  split; [|destruct continue_; [exact E|discriminate]].
  destruct ((kd =? kind_failed) && negb (r_final r =? 2)); split; try lia; intros; discriminate.
Qed.
Lemma select_task_NR r k b r1 : NR r -> select_task tasks continue_ always r k = (b, r1) -> NR r1.
Proof.
  apply (select_task_pres tasks continue_ always NR k).
  - intros r0 s H. exact H.
  - intros r0 e H [<-|[<-|[<-|[]]]]; apply NR_emit; auto; reflexivity.
  - intros r0 kd H. apply NR_handle_error_gen. exact H.
Qed.
Lemma process_result_NR r k : NR r -> NR (process_result tasks continue_ r k).
Proof.
  intros H. unfold process_result, handle_error. destruct (t_outcome (get_task k)); auto; try apply NR_handle_error_gen; auto.
  apply NR_emit; auto; reflexivity.
Qed.
Lemma NR_start r k : NR r -> NR (start_task tasks r k).
Proof. intros H. eapply (NR_tr r _ [EExecute k]); eauto; reflexivity. Qed.
Lemma NR_finish r : NR r -> NR (finish r).
Proof.
  intros H. unfold finish. apply NR_emit; auto.
  - unfold nohold. simpl. induction (rev (r_td r)); simpl; auto.
  - unfold nocyc. simpl. induction (rev (r_td r)); simpl; auto.
Qed.
Lemma NI_with_r p r' : NI p -> NR r' -> NI (with_r p r').
Proof. intros [A B] H. split; auto. Qed.

Lemma worker_step_flight p w kk : cnt (flight (worker_step p w)) kk = cnt (flight p) kk.
Proof.
  unfold Parallel.worker_step.
  destruct (nth w (p_workers p) WExited) as [|k|] eqn:Ew; auto.
  - assert (Hw : (w < length (p_workers p))%nat) by (eapply nth_lt_of; [exact Ew|discriminate]).
    destruct (p_jobs p) as [|j js] eqn:Ej; auto.
    destruct j as [k| |].
    + pose proof (busy_tasks_cnt (p_workers p) w (WBusy k) kk Hw) as Hc. rewrite Ew in Hc.
      destruct proc; flight_unfold; rewrite Ej, ?res_tasks_app, ?exit_tasks_app, ?cnt_app; simpl in *; destruct (N.eq_dec k kk); lia.
    + flight_unfold. rewrite Ej. reflexivity.
    + pose proof (busy_tasks_cnt (p_workers p) w WExited kk Hw) as Hc. rewrite Ew in Hc.
      destruct proc; flight_unfold; rewrite Ej, ?res_tasks_app, ?exit_tasks_app, ?res_tasks_teardowns, ?exit_tasks_teardowns, ?cnt_app; simpl in *; lia.
  - assert (Hw : (w < length (p_workers p))%nat) by (eapply nth_lt_of; [exact Ew|discriminate]).
    destruct (is_interrupt tasks k).
    + pose proof (busy_tasks_cnt (p_workers p) w WExited kk Hw) as Hc. rewrite Ew in Hc.
      flight_unfold. rewrite ?res_tasks_app, ?exit_tasks_app, ?cnt_app. simpl in *. destruct (N.eq_dec k kk); lia.
    + pose proof (busy_tasks_cnt (p_workers p) w WIdle kk Hw) as Hc. rewrite Ew in Hc.
      flight_unfold. rewrite ?res_tasks_app, ?exit_tasks_app, ?cnt_app. simpl in *. destruct (N.eq_dec k kk); lia.
Qed.

Tactic Notation "pcbn" :=
  cbn [p_results p_r p_free p_count p_workers p_jobs with_jobs with_workers with_results with_r with_sched with_counts plog sync
       put_job start_worker].
Tactic Notation "pcbn" "in" hyp(H) :=
  cbn [p_results p_r p_free p_count p_workers p_jobs with_jobs with_workers with_results with_r with_sched with_counts plog sync
       put_job start_worker] in H.

Lemma res_tasks_In_app ms m k : In k (res_tasks (ms ++ [m])) -> In k (res_tasks ms) \/ m = MResult k.
Proof.
  rewrite res_tasks_app, in_app_iff. intros [H|H]; auto. destruct m; simpl in H; try contradiction. destruct H as [->|[]]. auto.
Qed.

Lemma worker_step_N p w : NI p -> NI (worker_step p w) /\ qsame p (worker_step p w).
Proof.
  intros HN. pose proof HN as [A B]. unfold Parallel.worker_step.
  destruct (nth w (p_workers p) WExited) as [|k|] eqn:Ew; [|..|split; [exact HN|apply qsame_refl]].
  - destruct (p_jobs p) as [|j js] eqn:Ej; [split; [exact HN|apply qsame_refl]|].
    destruct j as [k| |].
    + destruct proc.
      * split; [|repeat split; pcbn; apply set_nth_length].
        split; pcbn; auto. intros k0 Hk. apply res_tasks_In_app in Hk. destruct Hk as [Hk|Hk]; [auto|discriminate].
      * split; [|repeat split; pcbn; apply set_nth_length].
        split; pcbn; auto. apply NR_start. exact B.
    + split; [|repeat split]. split; pcbn; auto.
    + destruct proc.
      * split; [|repeat split; pcbn; apply set_nth_length].
        split; pcbn; auto. intros k0 Hk. rewrite res_tasks_app, res_tasks_teardowns, app_nil_r in Hk. auto.
      * split; [|repeat split; pcbn; apply set_nth_length]. split; pcbn; auto.
  - destruct (is_interrupt tasks k) eqn:Ei.
    + split; [|repeat split; pcbn; apply set_nth_length].
      split; pcbn; auto. intros k0 Hk. apply res_tasks_In_app in Hk. destruct Hk as [Hk|Hk]; [auto|discriminate].
    + split; [|repeat split; pcbn; apply set_nth_length].
      split; pcbn; auto. intros k0 Hk. apply res_tasks_In_app in Hk. destruct Hk as [Hk|Hk]; [auto|]. inversion Hk; subst. exact Ei.
Qed.

Definition mflight (m : option msg) : list name :=
  match m with Some (MResult k) | Some (MExit k) => [k] | _ => [] end.

Lemma worker_step_perm p w : Permutation (flight p) (flight (worker_step p w)).
Proof. apply cnt_perm. intros k. symmetry. apply worker_step_flight. Qed.

Lemma main_get_N fuel : forall p m p', NI p -> main_get fuel p = (m, p') ->
  NI p' /\ qsame p p' /\ Permutation (flight p) (mflight m ++ flight p') /\
  (forall k, m = Some (MResult k) -> is_interrupt tasks k = false).
Proof.
  induction fuel as [|fuel IH]; intros p m p' HN E; cbn [Parallel.main_get] in E.
  { inversion E; subst. split; auto. split; [apply qsame_refl|]. split; [apply Permutation_refl|intros k H; discriminate]. }
  set (ws := enabled_workers p (length (p_workers p)) 0) in *.
  destruct ((if negb (is_nil (p_results p)) then 1 else 0) + length ws)%nat eqn:En.
  { inversion E; subst. split; [eapply NI_same; [| |exact HN]; reflexivity|]. split; [repeat split|].
    split; [apply Permutation_refl|intros k H; discriminate]. }
  destruct (choose (S n) (p_sched p)) as [c s].
  assert (Hs : NI (with_sched p s)) by (eapply NI_same; [| |exact HN]; reflexivity).
  destruct (negb (is_nil (p_results p)) && Nat.eqb c 0).
  - simpl in E. destruct (p_results p) as [|m0 rs] eqn:Er.
    + inversion E; subst. split; auto. split; [repeat split|]. split; [apply Permutation_refl|intros k H; discriminate].
    + inversion E; subst. pose proof HN as [A B].
      split; [|split; [repeat split|split]].
      * split; pcbn; auto. intros k Hk. apply A. rewrite Er. change (m0 :: rs) with ([m0] ++ rs).
        rewrite res_tasks_app. apply in_app_iff. auto.
      * apply cnt_perm. intros kk. flight_unfold. rewrite Er. change (m0 :: rs) with ([m0] ++ rs).
        rewrite res_tasks_app, exit_tasks_app, !cnt_app. destruct m0; simpl; try destruct (N.eq_dec k kk); lia.
      * intros k Hk. inversion Hk; subst. apply A. rewrite Er. simpl. auto.
  - destruct (worker_step_N (with_sched p s) (nth (if negb (is_nil (p_results p)) then Init.Nat.pred c else c) ws 0%nat) Hs) as [N1 Q1].
    destruct (IH _ _ _ N1 E) as (N2 & Q2 & P2 & I2).
    split; auto. split; [eapply qsame_trans; [|exact Q2]; exact Q1|]. split; auto.
    eapply Permutation_trans; [|exact P2]. apply (worker_step_perm (with_sched p s)).
Qed.

Lemma join_all_N fuel : forall p, NI p -> NI (join_all fuel p) /\ qsame p (join_all fuel p) /\ Permutation (flight p) (flight (join_all fuel p)).
Proof.
  induction fuel as [|fuel IH]; intros p HN; cbn [Parallel.join_all].
  { split; auto. split; [apply qsame_refl|apply Permutation_refl]. }
  destruct (enabled_workers p (length (p_workers p)) 0) as [|w ws] eqn:Ew.
  { split; auto. split; [apply qsame_refl|apply Permutation_refl]. }
  destruct (choose (length (w :: ws)) (p_sched p)) as [c s].
  assert (Hs : NI (with_sched p s)) by (eapply NI_same; [| |exact HN]; reflexivity).
  destruct (worker_step_N (with_sched p s) (nth c (w :: ws) 0%nat) Hs) as [N1 Q1].
  destruct (IH _ N1) as (N2 & Q2 & P2).
  split; auto. split; [eapply qsame_trans; [|exact Q2]; exact Q1|].
  eapply Permutation_trans; [|exact P2]. apply (worker_step_perm (with_sched p s)).
Qed.

(* ---------- the dispatcher invariant, relative to a set of tasks in flight ---------- *)
Record DI (F : name -> Prop) (exc : option name) (d : dstate) : Prop := {
  di_a : AInv d;
  di_h : HG F exc d;
  di_p : PG F None d
}.
Lemma DI_mono (F F' : name -> Prop) exc d : (forall x, F x -> F' x) -> DI F exc d -> DI F' exc d.
Proof. intros M [A B C]. split; auto; [eapply HG_mono; eauto|eapply PG_mono; eauto]. Qed.

(* queues and proc_count untouched *)
Definition QS (p p' : pstate) : Prop :=
  p_jobs p' = p_jobs p /\ p_workers p' = p_workers p /\ p_results p' = p_results p /\ p_count p' = p_count p.
Lemma QS_refl p : QS p p. Proof. repeat split. Qed.
Lemma QS_trans a b c : QS a b -> QS b c -> QS a c.
Proof. unfold QS. intuition congruence. Qed.
Lemma QS_flight p p' : QS p p' -> flight p' = flight p.
Proof. intros (A & B & C & _). unfold flight, live. rewrite A, B, C. reflexivity. Qed.

Definition job_post (F : name -> Prop) (p p' : pstate) (g : gnj) : Prop :=
  match g with
  | GJob (JTask k) => p_free p' = p_free p /\ DI (fun x => F x \/ x = k) None (r_d (p_r p')) /\
       ready tasks p' k /\ running tasks p' k /\ ~ In k (live p') /\ ~ In k (pstarts (p_log p'))
  | GJob JHold => p_free p' = S (p_free p) /\ DI F None (r_d (p_r p')) /\ hold4 (r_d (p_r p'))
  | GJob JNone => False
  | GEnd => p_free p' = p_free p /\ DI F None (r_d (p_r p')) /\ stop4 (r_d (p_r p'))
  | GCycle _ => exists k, reach k k
  | GFuel => True
  end.

Lemma next_job_loop_G fuel : forall p completed g p',
  PI p -> NI p -> DI (Fl p) completed (r_d (p_r p)) ->
  (forall k, completed = Some k -> st_of (r_d (p_r p)) k <> SNone) ->
  next_job_loop fuel p completed = (g, p') ->
  PI p' /\ NI p' /\ QS p p' /\ (forall x, seen (r_d (p_r p)) x -> seen (r_d (p_r p')) x) /\ job_post (Fl p) p p' g.
Proof.
  induction fuel as [|fuel IH]; intros p completed g p' HP HN HD Hc E; cbn [Parallel.next_job_loop] in E.
  { inversion E; subst. split; auto. split; auto. split; [apply QS_refl|]. split; auto. exact I. }
  destruct (disp_send tasks wake_rank calc_rank (S fuel) (r_d (p_r p)) completed) as [y d] eqn:Ed.
  (* the part of next_job_loop_PI *)
  pose proof (pi_ri _ _ HP) as HR.
  pose proof (disp_send_spec tasks wake_rank calc_rank _ _ _ _ _ (ri_inv _ _ _ HR) (pi_pre _ _ HP) (ri_res _ _ _ HR) (ri_q _ _ _ HR) Hc Ed) as Hpost.
  pose proof (RI_disp tasks _ _ _ _ HR Hpost) as HR'.
  assert (Hst : forall x, st_of d x = st_of (r_d (p_r p)) x) by (destruct Hpost as (_ & _ & _ & S & _); exact S).
  assert (Hrund : forall k, In k (live p) -> running_in tasks d k).
  { intros k Hk. eapply running_in_disp; [exact Hpost|]. apply (pi_run _ _ HP). exact Hk. }
  assert (Hspd : forall z, spent tasks (r_d (p_r p)) z -> spent tasks d z)
    by (destruct Hpost as (_ & _ & _ & _ & _ & Sp & _); exact Sp).
  assert (Hwd : forall (HPre : Pre tasks d), PI (with_r p (with_d (p_r p) d))).
  { intros HPre. apply PI_with_r_gen; auto.
    - exists []. simpl. rewrite app_nil_r. reflexivity.
    - intros k Hk. simpl. rewrite Hst. apply (proj1 (PI_ready_of tasks p k HP Hk)).
    - apply PT_with_d. apply (pi_pt _ _ HP). }
  (* the wait graph *)
  destruct HD as [HA HH HPG].
  destruct (disp_send_A tasks wake_rank calc_rank _ _ _ _ _ HA Ed) as [HA1 HC1].
  pose proof Ed as Ed'. unfold Dispatch.disp_send in Ed'.
  destruct (update_waiting_G tasks wake_rank calc_rank (Fl p) (r_d (p_r p)) completed HH) as (H0 & S0 & _).
  pose proof (disp_run_G tasks wake_rank calc_rank (Fl p) _ _ _ _ H0 (PG_same tasks _ _ _ _ S0 HPG) Ed') as G.
  assert (Hseen : forall x, seen (r_d (p_r p)) x -> seen d x).
  { intros x Hx. destruct (disp_run_seen tasks wake_rank calc_rank _ _ _ _ Ed') as [Hs _]. apply Hs.
    eapply seen_grows; [apply (update_waiting_grows tasks wake_rank calc_rank)|exact Hx]. }
  assert (HNd : NI (with_r p (with_d (p_r p) d))) by (apply NI_with_r; auto; apply (ni_r _ HN)).
  destruct y as [k| | |path|].
  - destruct (handed_of_post tasks _ _ _ Hpost) as (HK & Hcur & Hns).
    destruct (select_task tasks continue_ always (with_d (p_r p) d) k) as [b r1] eqn:Es.
    pose proof (select_task_post tasks continue_ always (with_d (p_r p) d) k b r1 HR' HK Es) as (R1 & P1 & S1 & Pc1 & C1 & D1 & T1 & O1).
    destruct (select_task_ext tasks continue_ always _ _ _ _ Es) as [Ext Sto].
    assert (Hknl : ~ In k (live p)).
    { intros Hin. apply Hns. apply (pi_run _ _ HP k Hin). }
    assert (H1 : PI (with_r p r1)).
    { apply PI_with_r_gen; auto.
      - intros x Hx. destruct (N.eqb_spec x k) as [->|Hne]; [exact S1|].
        rewrite Sto by auto. simpl. rewrite Hst. apply (proj1 (PI_ready_of tasks p x HP Hx)).
      - intros x Hx. assert (Hne : x <> k) by (intros ->; contradiction).
        destruct (Hrund x Hx) as [A B]. split.
        + rewrite O1 by auto. exact A.
        + eapply spent_pc; [apply Pc1|]. exact B.
      - intros z Hz. eapply spent_pc; [apply Pc1|]. apply Hspd. exact Hz.
      - eapply PT_select; [|exact Es]. apply PT_with_d. apply (pi_pt _ _ HP). }
    (* wait graph: the handed task *)
    destruct G as (G1 & GP1 & GC1).
    set (p0 := n_pc (node_of d k)).
    assert (R0 : RG tasks (Fl p) k p0 (with_d (p_r p) d)).
    { split; [apply HG_strengthen; exact G1|]. split; [exact GC1|]. split; [|reflexivity].
      intros me Hne. apply (pg_all _ _ _ _ GP1). congruence. }
    pose proof (pg_exc _ _ _ _ GP1 k eq_refl) as Hp0. fold p0 in Hp0.
    pose proof (select_task_RG tasks wake_rank calc_rank continue_ always (Fl p) k p0 _ _ _ R0 Es) as (RH1 & RC1 & RS1).
    assert (HA2 : AInv (r_d r1)) by (eapply select_task_A; [|exact Es]; exact HA1).
    assert (HN1 : NI (with_r p r1)).
    { apply NI_with_r; auto. eapply select_task_NR; [|exact Es]. apply (ni_r _ HN). }
    assert (Hseen1 : forall x, seen (r_d (p_r p)) x -> seen (r_d r1) x).
    { intros x Hx. eapply seen_grows; [|apply Hseen; exact Hx].
      eapply (select_task_grows tasks wake_rank calc_rank); [|exact Es]. apply grows_refl. }
    destruct b.
    + inversion E; subst. split; [exact H1|]. split; [exact HN1|]. split; [repeat split|]. split; [exact Hseen1|].
      destruct (T1 eq_refl) as (Srun & _ & _).
      cbn [job_post]. split; [reflexivity|]. split; [|split; [split; simpl; auto|]].
      * cbn [p_r with_r]. split; [exact HA2| |].
        -- apply (HG_mono tasks (Fl p)); [intros x Hx; left; exact Hx|].
           apply (HG_drop_exc tasks (Fl p) k); [exact RH1|]. rewrite Srun. reflexivity.
        -- apply (PG_flight_in tasks (Fl p) _ k p0); [exact RS1| | |intros x Hx; left; exact Hx|right; reflexivity].
           ++ destruct Hp0 as [A|[A _]]; auto.
           ++ rewrite Srun. discriminate.
      * intros x Hx. apply (select_true_good tasks continue_ always (with_d (p_r p) d) k r1 HR' HK Es x Hx).
      * split; [|split; [exact Hknl|intros Hin; apply Hns; apply (pi_sp _ _ HP k Hin)]].
        split; [exact Srun|]. apply (select_true_spent tasks continue_ always (with_d (p_r p) d) k r1 HR' HK Es).
    + destruct (select_false_st tasks continue_ always _ _ _ Es) as [F1 F2].
      destruct (IH (with_r p r1) (Some k) g p' H1 HN1) as (A1 & A2 & A3 & A4 & A5); [| |exact E|].
      * split; [exact HA2|exact RH1|].
        apply (PG_of_PGo tasks (Fl p) k p0); auto. unfold HoldG.gstn. cbn [p_r with_r]. destruct RS1 as [_ ->].
        destruct Hp0 as [->|[-> Hn]]; [split; [exact F1|intros En; left; apply F2; left; exact En]|].
        left. apply F2. right. exact Hn.
      * intros k0 Ek. inversion Ek; subst. exact S1.
      * split; [exact A1|]. split; [exact A2|]. split; [exact A3|]. split; [|exact A5].
        intros x Hx. apply A4. apply Hseen1. exact Hx.
  - inversion E; subst. destruct G as (G1 & GC1 & GR1 & GW1 & GP1).
    assert (HPre : Pre tasks d) by (destruct Hpost as (_ & _ & _ & _ & _ & _ & PP); exact PP).
    split; [apply with_counts_PI; apply Hwd; exact HPre|].
    split; [eapply NI_same; [| |exact HNd]; reflexivity|]. split; [repeat split|]. split; [exact Hseen|].
    cbn [job_post]. split; [reflexivity|]. split; [split; [exact HA1|exact G1|exact GP1]|].
    repeat split; auto. apply (disp_run_torun tasks calc_rank _ _ _ _ Ed'). auto.
  - inversion E; subst. destruct G as (G1 & GC1 & GR1 & GW1 & GP1).
    assert (HPre : Pre tasks d) by (destruct Hpost as (_ & _ & _ & _ & _ & _ & PP); exact PP).
    split; [apply Hwd; exact HPre|].
    split; [exact HNd|]. split; [repeat split|]. split; [exact Hseen|].
    cbn [job_post]. split; [reflexivity|]. split; [split; [exact HA1|exact G1|exact GP1]|].
    repeat split; auto. apply (disp_run_torun tasks calc_rank _ _ _ _ Ed'). auto.
  - inversion E; subst.
    assert (HPre : Pre tasks d) by (destruct Hpost as (_ & _ & _ & _ & _ & _ & PP); exact PP).
    split; [apply Hwd; exact HPre|].
    split; [exact HNd|]. split; [repeat split|]. split; [exact Hseen|].
    cbn [job_post]. eapply HC1. reflexivity.
  - inversion E; subst. split; auto. split; auto. split; [apply QS_refl|]. split; [auto|exact I].
Qed.


(* in a "hold on" / exhausted state the dispatcher gives the same answer again *)
Lemma next_job_loop_hold fuel p g p' :
  hold4 (r_d (p_r p)) -> next_job_loop fuel p None = (g, p') -> g = GJob JHold \/ g = GFuel.
Proof.
  intros Hh E. destruct fuel as [|fuel]; cbn [Parallel.next_job_loop] in E; [inversion E; auto|].
  rewrite (hold4_send tasks wake_rank calc_rank fuel _ Hh) in E. inversion E; auto.
Qed.
Lemma next_job_loop_stop fuel p c g p' F :
  stop4 (r_d (p_r p)) -> HG F c (r_d (p_r p)) -> next_job_loop fuel p c = (g, p') -> g = GEnd \/ g = GFuel.
Proof.
  intros Hs HH E. destruct fuel as [|fuel]; cbn [Parallel.next_job_loop] in E; [inversion E; auto|].
  destruct (stop4_send tasks wake_rank calc_rank fuel _ c Hs) as (d' & Ed & _).
  { intros k _. apply (g_nws _ _ _ _ HH). }
  rewrite Ed in E. inversion E; auto.
Qed.

Lemma get_next_job_G fuel p completed g p' :
  PI p -> NI p -> (r_stop (p_r p) = false -> DI (Fl p) completed (r_d (p_r p))) ->
  (forall k, completed = Some k -> st_of (r_d (p_r p)) k <> SNone) ->
  get_next_job fuel p completed = (g, p') ->
  PI p' /\ NI p' /\ QS p p' /\ (forall x, seen (r_d (p_r p)) x -> seen (r_d (p_r p')) x) /\
  ((r_stop (p_r p) = true /\ g = GEnd /\ p' = p) \/
   (r_stop (p_r p) = false /\ job_post (Fl p) p p' g /\
    (hold4 (r_d (p_r p)) -> completed = None -> g = GJob JHold \/ g = GFuel) /\
    (stop4 (r_d (p_r p)) -> g = GEnd \/ g = GFuel))).
Proof.
  intros HP HN HD Hc E. unfold Parallel.get_next_job in E. destruct (r_stop (p_r p)) eqn:Es.
  - inversion E; subst. split; auto. split; auto. split; [apply QS_refl|]. split; auto.
  - destruct (next_job_loop_G fuel p completed g p' HP HN (HD eq_refl) Hc E) as (A & B & C & D & G).
    split; auto. split; auto. split; auto. split; auto. right. split; auto. split; auto. split.
    + intros Hh ->. eapply next_job_loop_hold; eauto.
    + intros Hs. eapply next_job_loop_stop; [exact Hs|apply (di_h _ _ _ (HD eq_refl))|exact E].
Qed.

(* ---------- the queues ---------- *)
Lemma Fl_put_job p j x : Fl (put_job p j) x <-> Fl p x \/ j = JTask x.
Proof.
  unfold Fl, flight, live, put_job. pcbn. rewrite job_tasks_app, !in_app_iff.
  destruct j as [k| |]; simpl; split; intros H.
  - destruct H as [[[H|[->|[]]]|H]|H]; auto.
  - destruct H as [[[H|H]|H]|H]; auto. inversion H; subst. auto.
  - destruct H as [[[H|[]]|H]|H]; auto.
  - destruct H as [[[H|H]|H]|H]; auto. discriminate.
  - destruct H as [[[H|[]]|H]|H]; auto.
  - destruct H as [[[H|H]|H]|H]; auto. discriminate.
Qed.
Lemma flight_put_job_len p j :
  length (flight (put_job p j)) = (length (flight p) + match j with JTask _ => 1 | _ => 0 end)%nat.
Proof.
  unfold flight, live, put_job. pcbn. rewrite job_tasks_app, !app_length. destruct j; simpl; lia.
Qed.
Lemma flight_with_counts p a b : flight (with_counts p a b) = flight p.
Proof. reflexivity. Qed.
Lemma flight_start_worker p : flight (start_worker p) = flight p.
Proof. unfold flight, live, start_worker. pcbn. rewrite busy_tasks_app. simpl. rewrite app_nil_r. reflexivity. Qed.

(* counting: every process slot is on hold, or has a task in flight, or is one of the n still to be given a job *)
Definition CI (c n : nat) (p : pstate) : Prop := c = (p_free p + length (flight p) + n)%nat.
(* the dispatcher invariant holds unless the run is being stopped (then the dispatcher is not called any
   more); while some slot is on hold since the last reset of free_proc, the dispatcher is in a hold state *)
Definition DJ (p : pstate) (completed : option name) : Prop :=
  (r_stop (p_r p) = false -> DI (Fl p) completed (r_d (p_r p))) /\
  ((0 < p_free p)%nat -> DI (Fl p) completed (r_d (p_r p)) /\ hold4 (r_d (p_r p)) /\ completed = None).
(* a slot is only ended (JNone) when the run is being stopped or the dispatcher is exhausted *)
Definition ZI (p : pstate) : Prop :=
  r_stop (p_r p) = true \/ stop4 (r_d (p_r p)) \/ (0 < p_count p)%nat.

Lemma DI_Fl_eq p p' exc d : (forall x, Fl p x <-> Fl p' x) -> DI (Fl p) exc d -> DI (Fl p') exc d.
Proof. intros H. apply DI_mono. intros x. apply H. Qed.

Lemma Fl_QS p p' x : QS p p' -> (Fl p x <-> Fl p' x).
Proof. intros Q. unfold Fl. rewrite (QS_flight _ _ Q). tauto. Qed.

Lemma hand_out_G fuel n : forall p completed e p',
  PI p -> NI p -> (forall k, completed = Some k -> st_of (r_d (p_r p)) k <> SNone) ->
  DJ p completed -> CI (p_count p) n p -> ZI p ->
  hand_out fuel n p completed = (e, p') ->
  PI p' /\ NI p' /\ (forall x, seen (r_d (p_r p)) x -> seen (r_d (p_r p')) x) /\
  (forall path, e = PCycleErr path -> exists k, reach k k) /\
  (e = PNormal -> DJ p' (match n with O => completed | S _ => None end) /\ CI (p_count p') 0 p' /\ ZI p').
Proof.
  induction n as [|n IH]; intros p completed e p' HP HN Hc HJ HC HZ E; cbn [Parallel.hand_out] in E.
  { inversion E; subst. split; auto. split; auto. split; auto. split; [intros path H; discriminate|]. auto. }
  destruct (get_next_job fuel p completed) as [g p1] eqn:Eg.
  destruct (get_next_job_G fuel p completed g p1 HP HN (proj1 HJ) Hc Eg) as (P1 & N1 & Q1 & S1 & Hg).
  assert (Hfin : forall p2, PI p2 -> NI p2 -> DJ p2 None -> CI (p_count p2) n p2 -> ZI p2 ->
            (forall x, seen (r_d (p_r p1)) x -> seen (r_d (p_r p2)) x) ->
            hand_out fuel n p2 None = (e, p') ->
            PI p' /\ NI p' /\ (forall x, seen (r_d (p_r p)) x -> seen (r_d (p_r p')) x) /\
            (forall path, e = PCycleErr path -> exists k, reach k k) /\
            (e = PNormal -> DJ p' None /\ CI (p_count p') 0 p' /\ ZI p')).
  { intros p2 P2 N2 J2 C2 Z2 S2 E2.
    destruct (IH p2 None e p' P2 N2 ltac:(intros k H; discriminate) J2 C2 Z2 E2) as (A & B & C & D & F).
    split; auto. split; auto. split; [intros x Hx; apply C, S2, S1, Hx|]. split; auto.
    intros He. destruct (F He) as (F1 & F2 & F3). split; [destruct n; exact F1|auto]. }
  unfold CI in HC.
  destruct Hg as [(Hs & -> & ->)|(Hs & Hpost & Hhold & Hstop)].
  - (* the run is being stopped: this slot is ended *)
    refine (Hfin _ _ _ _ _ _ _ E); [| | | | |intros x Hx; exact Hx].
    + apply put_job_PI; [apply with_counts_PI; exact HP|intros k H; discriminate].
    + eapply NI_same; [| |exact HN]; reflexivity.
    + split; [intros H; pcbn in H; congruence|]. pcbn. intros Hf. destruct (proj2 HJ Hf) as (A & B & C).
      split; [|split; auto]. subst completed. eapply DI_mono; [|exact A]. intros x Hx. apply Fl_put_job. auto.
    + unfold CI. rewrite flight_put_job_len, flight_with_counts. pcbn. lia.
    + left. exact Hs.
  - assert (HD : DI (Fl p) completed (r_d (p_r p))) by (apply (proj1 HJ); exact Hs).
    assert (Hfree0 : (g = GJob JHold -> False) -> g <> GFuel -> p_free p = 0%nat).
    { intros G1 G2. destruct (p_free p) eqn:Ef; auto. exfalso.
      destruct (proj2 HJ ltac:(lia)) as (_ & Hh & Hn). destruct (Hhold Hh Hn); auto. }
    assert (Hnostop : g <> GEnd -> g <> GFuel -> ZI p -> (0 < p_count p)%nat).
    { intros G1 G2 [Z|[Z|Z]]; auto; [congruence|]. destruct (Hstop Z); contradiction. }
    destruct g as [[k| |]| |path|]; cbn [job_post] in Hpost.
    + (* a task *)
      destruct Hpost as (Ef & HD1 & Hr & Hrun & Hnl & Hns).
      assert (F0 : p_free p = 0%nat) by (apply Hfree0; intros; discriminate).
      refine (Hfin _ _ _ _ _ _ _ E); [| | | | |intros x Hx; exact Hx].
      * apply put_job_PI; auto. intros k0 Ek. inversion Ek; subst. auto.
      * eapply NI_same; [| |exact N1]; reflexivity.
      * split; [|pcbn; intros Hf; lia]. intros _. pcbn. eapply DI_mono; [|exact HD1].
        intros x Hx. apply Fl_put_job. destruct Hx as [Hx| ->]; auto. left. apply (Fl_QS p p1 x Q1). exact Hx.
      * unfold CI. rewrite flight_put_job_len. pcbn. rewrite (QS_flight _ _ Q1). destruct Q1 as (_ & _ & _ & ->). lia.
      * right; right. pcbn. destruct Q1 as (_ & _ & _ & ->). apply Hnostop; auto; discriminate.
    + (* hold on *)
      destruct Hpost as (Ef & HD1 & Hh1).
      assert (HD2 : DI (Fl (put_job p1 JHold)) None (r_d (p_r p1))).
      { eapply DI_mono; [|exact HD1]. intros x Hx. apply Fl_put_job. left. apply (Fl_QS p p1 x Q1). exact Hx. }
      refine (Hfin _ _ _ _ _ _ _ E); [| | | | |intros x Hx; exact Hx].
      * apply put_job_PI; auto. intros k0 Ek. discriminate.
      * eapply NI_same; [| |exact N1]; reflexivity.
      * split; [intros _; exact HD2|]. intros _. split; [exact HD2|]. split; auto.
      * unfold CI. rewrite flight_put_job_len. pcbn. rewrite (QS_flight _ _ Q1). destruct Q1 as (_ & _ & _ & ->). lia.
      * right; right. pcbn. destruct Q1 as (_ & _ & _ & ->). apply Hnostop; auto; discriminate.
    + destruct Hpost.
    + (* the dispatcher is exhausted: this slot is ended *)
      destruct Hpost as (Ef & HD1 & Hs1).
      assert (F0 : p_free p = 0%nat) by (apply Hfree0; intros; discriminate).
      refine (Hfin _ _ _ _ _ _ _ E); [| | | | |intros x Hx; exact Hx].
      * apply put_job_PI; [apply with_counts_PI; exact P1|intros k H; discriminate].
      * eapply NI_same; [| |exact N1]; reflexivity.
      * split; [|pcbn; intros Hf; lia]. intros _. pcbn. eapply DI_mono; [|exact HD1].
        intros x Hx. apply Fl_put_job. left. apply (Fl_QS p p1 x Q1). exact Hx.
      * unfold CI. rewrite flight_put_job_len, flight_with_counts. pcbn.
        rewrite (QS_flight _ _ Q1). destruct Q1 as (_ & _ & _ & ->). lia.
      * right; left. exact Hs1.
    + inversion E; subst. split; auto. split; auto. split; auto. split; [intros path0 _; exact Hpost|intros H; discriminate].
    + inversion E; subst. split; auto. split; auto. split; auto. split; [intros path0 H; discriminate|intros H; discriminate].
Qed.

Lemma terminate_N p : NI p -> NI (terminate p).
Proof.
  intros HN. unfold Parallel.terminate. destruct (proc && negb (is_nil (p_workers p))); auto.
  eapply NI_same; [| |exact HN]; reflexivity.
Qed.

Lemma start_procs_G fuel n : forall p e p',
  PI p -> NI p -> DJ p None -> CI (length (p_workers p)) 0 p ->
  start_procs fuel n p = (e, p') ->
  PI p' /\ NI p' /\ (forall x, seen (r_d (p_r p)) x -> seen (r_d (p_r p')) x) /\
  (forall path, e = PCycleErr path -> exists k, reach k k) /\
  (e = PNormal -> DJ p' None /\ CI (length (p_workers p')) 0 p' /\
     (r_stop (p_r p') = true \/ stop4 (r_d (p_r p')) \/ length (p_workers p') = (length (p_workers p) + n)%nat)).
Proof.
  induction n as [|n IH]; intros p e p' HP HN HJ HC E; cbn [Parallel.start_procs] in E.
  { inversion E; subst. split; auto. split; auto. split; auto. split; [intros path H; discriminate|].
    intros _. split; [exact HJ|]. split; [exact HC|]. right; right. lia. }
  destruct (get_next_job fuel p None) as [g p1] eqn:Eg.
  destruct (get_next_job_G fuel p None g p1 HP HN (proj1 HJ) ltac:(intros k H; discriminate) Eg) as (P1 & N1 & Q1 & S1 & Hg).
  unfold CI in HC.
  destruct Hg as [(Hs & -> & ->)|(Hs & Hpost & Hhold & Hstop)].
  { inversion E; subst. split; auto. split; auto. split; auto. split; [intros path H; discriminate|]. intros _. auto. }
  assert (HD : DI (Fl p) None (r_d (p_r p))) by (apply (proj1 HJ); exact Hs).
  assert (Hfree0 : (g = GJob JHold -> False) -> g <> GFuel -> p_free p = 0%nat).
  { intros G1 G2. destruct (p_free p) eqn:Ef; auto. exfalso.
    destruct (proj2 HJ ltac:(lia)) as (_ & Hh & Hn). destruct (Hhold Hh Hn); auto. }
  assert (Hfin : forall j, PI (put_job p1 j) -> DJ (put_job p1 j) None ->
            (S (length (p_workers p)) = p_free (put_job p1 j) + length (flight p) + match j with JTask _ => 1 | _ => 0 end)%nat ->
            (match j with JNone => False | _ => True end) ->
            start_procs fuel n (start_worker (put_job p1 j)) = (e, p') ->
            PI p' /\ NI p' /\ (forall x, seen (r_d (p_r p)) x -> seen (r_d (p_r p')) x) /\
            (forall path, e = PCycleErr path -> exists k, reach k k) /\
            (e = PNormal -> DJ p' None /\ CI (length (p_workers p')) 0 p' /\
              (r_stop (p_r p') = true \/ stop4 (r_d (p_r p')) \/ length (p_workers p') = (length (p_workers p) + S n)%nat))).
  { intros j P2 J2 C2 Hj E2.
    assert (Hw : length (p_workers (start_worker (put_job p1 j))) = S (length (p_workers p))).
    { unfold start_worker, put_job. pcbn. destruct Q1 as (_ & -> & _). rewrite app_length. simpl. lia. }
    destruct (IH (start_worker (put_job p1 j)) e p') as (A & B & C & D & F); auto.
    - apply start_worker_PI. exact P2.
    - eapply NI_same; [| |exact N1]; reflexivity.
    - destruct J2 as [J21 J22]. split.
      + intros Hr. eapply DI_mono; [|apply J21; exact Hr]. intros x Hx. unfold Fl. rewrite flight_start_worker. exact Hx.
      + intros Hf. destruct (J22 Hf) as (A & B & C). split; auto. eapply DI_mono; [|exact A].
        intros x Hx. unfold Fl. rewrite flight_start_worker. exact Hx.
    - unfold CI. rewrite Hw, flight_start_worker, flight_put_job_len, (QS_flight _ _ Q1).
      change (p_free (start_worker (put_job p1 j))) with (p_free (put_job p1 j)). destruct j; try contradiction; lia.
    - split; auto. split; auto. split; [intros x Hx; apply C, S1, Hx|]. split; auto.
      intros He. destruct (F He) as (F1 & F2 & F3). split; auto. split; auto.
      destruct F3 as [F3|[F3|F3]]; auto. right; right. rewrite F3, Hw. lia. }
  destruct g as [[k| |]| |path|]; cbn [job_post] in Hpost.
  - destruct Hpost as (Ef & HD1 & Hr & Hrun & Hnl & Hns).
    assert (F0 : p_free p = 0%nat) by (apply Hfree0; intros; discriminate).
    apply (Hfin (JTask k)); auto.
    + apply put_job_PI; auto. intros k0 Ek. inversion Ek; subst. auto.
    + split; [|pcbn; intros Hf; lia]. intros _. pcbn. eapply DI_mono; [|exact HD1].
      intros x Hx. apply Fl_put_job. destruct Hx as [Hx| ->]; auto. left. apply (Fl_QS p p1 x Q1). exact Hx.
    + pcbn. lia.
  - destruct Hpost as (Ef & HD1 & Hh1).
    assert (HD2 : DI (Fl (put_job p1 JHold)) None (r_d (p_r p1))).
    { eapply DI_mono; [|exact HD1]. intros x Hx. apply Fl_put_job. left. apply (Fl_QS p p1 x Q1). exact Hx. }
    apply (Hfin JHold); auto.
    + apply put_job_PI; auto. intros k0 Ek. discriminate.
    + split; [intros _; exact HD2|]. intros _. split; [exact HD2|]. split; auto.
    + pcbn. lia.
  - destruct Hpost.
  - destruct Hpost as (Ef & HD1 & Hs1).
    assert (F0 : p_free p = 0%nat) by (apply Hfree0; intros; discriminate).
    inversion E; subst. split; auto. split; auto. split; auto. split; [intros path H; discriminate|]. intros _.
    split; [|split; [|right; left; exact Hs1]].
    + split; [|intros Hf; lia]. intros _. eapply DI_mono; [|exact HD1]. intros x Hx. apply (Fl_QS p p' x Q1). exact Hx.
    + unfold CI. rewrite (QS_flight _ _ Q1). destruct Q1 as (_ & -> & _). lia.
  - inversion E; subst. split; [apply terminate_PI; exact P1|]. split; [apply terminate_N; exact N1|].
    split; [intros x Hx; unfold Parallel.terminate; destruct (proc && negb (is_nil (p_workers p1))); apply S1; exact Hx|].
    split; [intros path0 _; exact Hpost|intros H; discriminate].
  - inversion E; subst. split; auto. split; auto. split; auto. split; [intros path0 H; discriminate|intros H; discriminate].
Qed.

Lemma hand_out_nohold fuel n : forall p c e p', hand_out fuel n p c = (e, p') -> e <> PHoldErr.
Proof.
  induction n as [|n IH]; intros p c e p' E; cbn [Parallel.hand_out] in E; [inversion E; discriminate|].
  destruct (get_next_job fuel p c) as [[j| |path|] p1]; try (eapply IH; eauto; fail); inversion E; discriminate.
Qed.
Lemma start_procs_nohold fuel n : forall p e p', start_procs fuel n p = (e, p') -> e <> PHoldErr.
Proof.
  induction n as [|n IH]; intros p e p' E; cbn [Parallel.start_procs] in E; [inversion E; discriminate|].
  destruct (get_next_job fuel p None) as [[j| |path|] p1]; try (eapply IH; eauto; fail); inversion E; discriminate.
Qed.

(* ---------- a result reaches the main thread ---------- *)
Lemma spent_exn d k : spent tasks d k -> exn d k.
Proof.
  unfold spent, exn, Dispatch.node_of. destruct (d_nodes d k); [discriminate|].
  simpl. intros [H|[H _]]; discriminate.
Qed.

Lemma process_result_flight (F F' : name -> Prop) r k :
  is_interrupt tasks k = false -> DI F None (r_d r) -> exn (r_d r) k -> (forall x, F x -> x <> k -> F' x) ->
  DI F' (Some k) (r_d (process_result tasks continue_ r k)).
Proof.
  intros Hi [A B C] Hk M. split; [apply process_result_A; exact A| |].
  - unfold is_interrupt in Hi. unfold process_result, handle_error, handle_error_gen.
    destruct (t_outcome (get_task k)); try discriminate; cbn [r_d with_d emit];
      apply (set_status_flight_H tasks wake_rank calc_rank F F'); auto.
  - unfold is_interrupt in Hi. unfold process_result, handle_error, handle_error_gen.
    destruct (t_outcome (get_task k)); try discriminate; cbn [r_d with_d emit];
      apply (set_status_flight_P tasks F F'); auto.
Qed.

Lemma process_result_stop_mono r k : r_stop r = true -> r_stop (process_result tasks continue_ r k) = true.
Proof.
  intros H. unfold process_result, handle_error, handle_error_gen.
  destruct (t_outcome (get_task k)); cbn [r_stop emit with_d]; auto; destruct continue_; auto.
Qed.

Lemma process_result_queues r k :
  let d := r_d r in let d' := r_d (process_result tasks continue_ r k) in
  d_cur d' = d_cur d /\ d_ready d' = d_ready d /\ d_waiting d' = d_waiting d /\ d_torun d' = d_torun d.
Proof.
  cbv zeta. unfold process_result, handle_error, handle_error_gen.
  destruct (t_outcome (get_task k)); cbn [r_d emit with_d]; repeat split.
Qed.
Lemma stop4_process_result r k : stop4 (r_d r) -> stop4 (r_d (process_result tasks continue_ r k)).
Proof.
  intros (A & B & C & D). destruct (process_result_queues r k) as (A' & B' & C' & D'). cbv zeta in *.
  repeat split; congruence.
Qed.

Lemma perm_cons_Fl (l l' : list name) k : Permutation l (k :: l') ->
  (forall x, In x l -> x <> k -> In x l') /\ length l = S (length l').
Proof.
  intros P. split.
  - intros x Hx Hne. apply (Permutation_in _ P) in Hx. destruct Hx as [->|Hx]; [contradiction|exact Hx].
  - apply Permutation_length in P. exact P.
Qed.

(* the deadlock test fires: nothing in flight, the dispatcher said "hold on": a cycle *)
Lemma deadlocked_cycle p :
  DJ p None -> CI (p_count p) 0 p -> deadlocked p = true -> exists k, reach k k.
Proof.
  intros [_ HJ] HC Hd. unfold deadlocked in Hd. apply andb_true_iff in Hd. destruct Hd as [D1 D2].
  apply negb_true_iff in D1. apply Nat.eqb_neq in D1. apply Nat.leb_le in D2. unfold CI in HC.
  destruct (HJ ltac:(lia)) as ([A B C] & (H1 & H2 & H3 & H4) & _).
  assert (Hfl : flight p = []) by (destruct (flight p); [reflexivity|simpl in HC; lia]).
  apply (HoldG.hold_cycle tasks (Fl p) (r_d (p_r p))); auto.
  intros x Hx. unfold Fl in Hx. rewrite Hfl in Hx. destruct Hx.
Qed.

Lemma main_loop_G fuel : forall p e p',
  PI p -> NI p -> CI (p_count p) 0 p -> (r_stop (p_r p) = false -> DI (Fl p) None (r_d (p_r p))) -> ZI p ->
  main_loop fuel p = (e, p') ->
  PI p' /\ NI p' /\ (forall x, seen (r_d (p_r p)) x -> seen (r_d (p_r p')) x) /\
  (e = PHoldErr -> exists k, reach k k) /\ (forall path, e = PCycleErr path -> exists k, reach k k) /\
  (e = PNormal -> p_count p' = 0%nat /\ CI 0 0 p' /\ (r_stop (p_r p') = false -> DI (Fl p') None (r_d (p_r p'))) /\ ZI p').
Proof.
  induction fuel as [|fuel IH]; intros p e p' HP HN HC HD HZ E; cbn [Parallel.main_loop] in E.
  { inversion E; subst. split; auto. split; auto. split; auto. split; [intros H; discriminate|].
    split; [intros path H; discriminate|intros H; discriminate]. }
  destruct (p_count p) eqn:Ecnt.
  { inversion E; subst. split; auto. split; auto. split; auto. split; [intros H; discriminate|].
    split; [intros path H; discriminate|]. intros _. auto. }
  destruct (main_get (S fuel * 4) p) as [m p1] eqn:Em.
  destruct (main_get_PI tasks proc _ _ _ _ HP Em) as (H1 & Hr & Hrr).
  destruct (main_get_N _ _ _ _ HN Em) as (N1 & (Qd & Qs & Qf & Qc & Qw) & Pm & Hint).
  assert (Hterm : forall ee, ee <> PHoldErr -> (forall path, ee <> PCycleErr path) -> ee <> PNormal ->
            (ee, terminate p1) = (e, p') ->
            PI p' /\ NI p' /\ (forall x, seen (r_d (p_r p)) x -> seen (r_d (p_r p')) x) /\
            (e = PHoldErr -> exists k, reach k k) /\ (forall path, e = PCycleErr path -> exists k, reach k k) /\
            (e = PNormal -> p_count p' = 0%nat /\ CI 0 0 p' /\ (r_stop (p_r p') = false -> DI (Fl p') None (r_d (p_r p'))) /\ ZI p')).
  { intros ee E1 E2 E3 Ee. inversion Ee; subst. split; [apply terminate_PI; exact H1|]. split; [apply terminate_N; exact N1|].
    split; [intros x Hx; unfold Parallel.terminate; destruct (proc && negb (is_nil (p_workers p1))); pcbn; rewrite Qd; exact Hx|].
    split; [intros H; contradiction|]. split; [intros path H; exfalso; apply (E2 path H)|intros H; contradiction]. }
  (* a report forwarded by a worker: only the trace of the main runner grows *)
  assert (Hrep : forall evs, PI (with_r p1 (emit (p_r p1) evs)) -> nohold evs -> nocyc evs -> mflight m = [] ->
            main_loop fuel (with_r p1 (emit (p_r p1) evs)) = (e, p') ->
            PI p' /\ NI p' /\ (forall x, seen (r_d (p_r p)) x -> seen (r_d (p_r p')) x) /\
            (e = PHoldErr -> exists k, reach k k) /\ (forall path, e = PCycleErr path -> exists k, reach k k) /\
            (e = PNormal -> p_count p' = 0%nat /\ CI 0 0 p' /\ (r_stop (p_r p') = false -> DI (Fl p') None (r_d (p_r p'))) /\ ZI p')).
  { intros evs P2 Hh Hc Hm E2. rewrite Hm in Pm. simpl in Pm.
    destruct (IH (with_r p1 (emit (p_r p1) evs)) e p') as (A & B & C & D); auto.
    - apply NI_with_r; auto. apply NR_emit; auto. apply (ni_r _ N1).
    - unfold CI in *. pcbn. change (flight (with_r p1 (emit (p_r p1) evs))) with (flight p1).
      rewrite <- (Permutation_length Pm), Qf, Qc, Ecnt. exact HC.
    - pcbn. cbn [r_stop r_d emit]. rewrite Qs, Qd. intros Hs. eapply DI_mono; [|apply HD; exact Hs].
      intros x Hx. unfold Fl in *. change (flight (with_r p1 (emit (p_r p1) evs))) with (flight p1).
      eapply Permutation_in; eauto.
    - unfold ZI in *. pcbn. cbn [r_stop r_d emit]. rewrite Qs, Qd, Qc. exact HZ.
    - split; [exact A|]. split; [exact B|]. split; [|exact D]. intros x Hx. apply C. pcbn. cbn [r_d emit]. rewrite Qd. exact Hx. }
  destruct m as [[k|k|k|k]|].
  - (* a result *)
    assert (Hk : ready tasks p1 k) by (apply Hr; left; reflexivity).
    destruct (Hrr k eq_refl) as [Hk2 Hk3].
    destruct (process_result_PI tasks continue_ p1 k H1 Hk Hk2 Hk3) as [H2 S2].
    pose proof (Hint k eq_refl) as Hi.
    set (p2 := with_r p1 (process_result tasks continue_ (p_r p1) k)) in *.
    destruct (hand_out (S fuel) (S (p_free p2)) (with_counts p2 0 (p_count p2)) (Some k)) as [e2 p3] eqn:Eh.
    simpl in Pm. destruct (perm_cons_Fl _ _ _ Pm) as [PmIn PmLen].
    assert (N2 : NI p2) by (apply NI_with_r; auto; apply process_result_NR; apply (ni_r _ N1)).
    destruct (hand_out_G (S fuel) (S (p_free p2)) (with_counts p2 0 (p_count p2)) (Some k) e2 p3) as (P3 & N3 & S3 & Cy3 & Nm3); auto.
    + apply with_counts_PI. exact H2.
    + eapply NI_same; [| |exact N2]; reflexivity.
    + intros k0 Ek. inversion Ek; subst. exact S2.
    + split; [|pcbn; intros Hf; lia]. pcbn. intros Hs.
      assert (Hs1 : r_stop (p_r p) = false).
      { rewrite <- Qs. destruct (r_stop (p_r p1)) eqn:Es1; auto. pose proof (process_result_stop_mono _ k Es1) as Hm. unfold p2 in Hs. pcbn in Hs. congruence. }
      apply (process_result_flight (Fl p)); auto.
      * rewrite Qd. apply HD. exact Hs1.
      * apply spent_exn. apply Hk2.
    + unfold CI in *. pcbn. rewrite flight_with_counts. change (flight p2) with (flight p1).
      change (p_count p2) with (p_count p1). change (p_free p2) with (p_free p1). rewrite Qc, Qf.
      rewrite Ecnt. lia.
    + unfold ZI in *. pcbn. change (p_count p2) with (p_count p1). rewrite Qc. destruct HZ as [Z|[Z|Z]]; auto.
      * left. apply process_result_stop_mono. rewrite Qs. exact Z.
      * right; left. apply stop4_process_result. rewrite Qd. exact Z.
    + assert (Hseen3 : forall x, seen (r_d (p_r p)) x -> seen (r_d (p_r p3)) x).
      { intros x Hx. apply S3. pcbn. eapply seen_grows; [apply (process_result_grows tasks wake_rank calc_rank)|]. rewrite Qd. exact Hx. }
      pose proof (hand_out_nohold _ _ _ _ _ _ Eh) as Hnh.
      destruct e2; try (inversion E; subst; split; [apply terminate_PI; exact P3|]; split; [apply terminate_N; exact N3|];
                        split; [intros x Hx; unfold Parallel.terminate; destruct (proc && negb (is_nil (p_workers p3))); pcbn; apply Hseen3; exact Hx|];
                        split; [intros H; try discriminate; contradiction|]; split; [intros path0 H; try discriminate; eapply Cy3; eauto|intros H; discriminate]).
      destruct (Nm3 eq_refl) as (J3 & C3 & Z3).
      destruct (deadlocked p3) eqn:Edl.
      * inversion E; subst. split; [apply terminate_PI; exact P3|]. split; [apply terminate_N; exact N3|].
        split; [intros x Hx; unfold Parallel.terminate; destruct (proc && negb (is_nil (p_workers p3))); pcbn; apply Hseen3; exact Hx|].
        split; [intros _; eapply deadlocked_cycle; eauto|]. split; [intros path H; discriminate|intros H; discriminate].
      * destruct (IH p3 e p' P3 N3 C3 (proj1 J3) Z3 E) as (A & B & C & D).
        split; [exact A|]. split; [exact B|]. split; [|exact D]. intros x Hx. apply C. apply Hseen3. exact Hx.
  - (* execute report forwarded by a worker process *)
    apply (Hrep [EExecute k]); auto; try reflexivity.
    apply PI_emit_main; auto.
    apply RI_exec; [apply (pi_ri _ _ H1)|]. apply (ready_deps _ _ _ (Hr k (or_intror eq_refl))).
  - (* teardown report *)
    apply (Hrep [ETeardown k]); auto; try reflexivity.
    apply PI_emit_main; auto. apply RI_emit; [apply (pi_ri _ _ H1)|reflexivity|intros e0 x0 [<-|[]]; reflexivity].
  - apply (Hterm (PInterrupt k)); auto; discriminate.
  - apply (Hterm PHung); auto; discriminate.
Qed.

(* ---------- the end of the run ---------- *)
Lemma drain_N p : NI p -> NI (drain p) /\ r_d (p_r (drain p)) = r_d (p_r p) /\ r_stop (p_r (drain p)) = r_stop (p_r p).
Proof.
  intros [A B]. unfold drain. split; [|split; reflexivity]. split; pcbn.
  - intros k [].
  - clear A. apply NR_emit; auto.
    + unfold nohold. induction (p_results p) as [|m l IH]; cbn [flat_map]; [reflexivity|]. rewrite forallb_app, IH.
      destruct m; reflexivity.
    + unfold nocyc. induction (p_results p) as [|m l IH]; cbn [flat_map]; [reflexivity|]. rewrite forallb_app, IH.
      destruct m; reflexivity.
Qed.

Lemma flight_drain_nil p : flight p = [] -> flight (drain p) = [].
Proof.
  unfold flight, live, drain. pcbn. intros H.
  apply app_eq_nil in H. destruct H as [H _]. apply app_eq_nil in H. destruct H as [H1 H].
  apply app_eq_nil in H. destruct H as [H2 _]. rewrite H1, H2. reflexivity.
Qed.

(* exhausted dispatcher, nothing in flight: every selected task has its final report *)
Lemma complete_final sel p :
  PI p -> flight p = [] -> DI (Fl p) None (r_d (p_r p)) -> stop4 (r_d (p_r p)) ->
  (forall x, In x sel -> seen (r_d (p_r p)) x) ->
  forall x, In x sel -> finished_in (r_tr (p_r p)) x.
Proof.
  intros HP Hfl [A B C] (S1 & S2 & S3 & S4) Hseen x Hx.
  assert (Hex : exn (r_d (p_r p)) x).
  { destruct (Hseen x Hx) as [H|H]; auto. rewrite S4 in H. destruct H. }
  apply (ri_link _ _ _ (pi_ri _ _ HP)). unfold final.
  destruct (unfinished (st_of (r_d (p_r p)) x)) eqn:Eu; auto. exfalso.
  destruct (g_loc _ _ _ _ B x Hex Eu) as [[L|[L|L]]|L].
  - rewrite S2 in L. destruct L.
  - rewrite S3 in L. destruct L.
  - rewrite S1 in L. discriminate.
  - unfold Fl in L. rewrite Hfl in L. destruct L.
Qed.

Lemma NI_init sched sel : NI (p_init sched sel).
Proof.
  split; simpl; [intros k []|]. split; [reflexivity|]. split; [reflexivity|]. split; [|reflexivity].
  split; simpl; [lia|reflexivity].
Qed.

Lemma DJ_init sched sel : DJ (p_init sched sel) None.
Proof.
  split; [|simpl; intros H; lia]. intros _. simpl. split; [apply AInv_init|apply HG_init|apply PG_init].
Qed.

(* the run after the main loop ended normally *)
Lemma after_loop sel fuel pm :
  PI pm -> NI pm -> CI 0 0 pm -> (r_stop (p_r pm) = false -> DI (Fl pm) None (r_d (p_r pm))) ->
  (forall x, In x sel -> seen (r_d (p_r pm)) x) ->
  let p2 := drain (join_all fuel pm) in
  PI p2 /\ NI p2 /\
  (r_stop (p_r pm) = true \/ stop4 (r_d (p_r pm)) -> r_stop (p_r p2) = false ->
   forall x, In x sel -> finished_in (r_tr (p_r p2)) x).
Proof.
  intros HP HN HC HD Hseen. cbv zeta.
  destruct (join_all_N fuel pm HN) as (N1 & (Qd & Qs & _) & Pm).
  destruct (drain_N _ N1) as (N2 & Dd & Ds).
  assert (P2 : PI (drain (join_all fuel pm))) by (apply drain_PI; apply join_all_PI; exact HP).
  split; auto. split; auto. intros Hz Hs x Hx.
  assert (Hs0 : r_stop (p_r pm) = false) by congruence.
  destruct Hz as [Hz|Hz]; [congruence|].
  assert (Hfl : flight pm = []) by (unfold CI in HC; destruct (flight pm); [reflexivity|simpl in HC; lia]).
  assert (Hfl1 : flight (join_all fuel pm) = []) by (rewrite Hfl in Pm; apply Permutation_nil; exact Pm).
  pose proof (flight_drain_nil _ Hfl1) as Hfl2.
  apply (complete_final sel); auto.
  - rewrite Dd, Qd. eapply DI_mono; [|apply HD; exact Hs0]. intros y Hy. unfold Fl in Hy. rewrite Hfl in Hy. destruct Hy.
  - rewrite Dd, Qd. exact Hz.
  - intros y Hy. rewrite Dd, Qd. apply Hseen. exact Hy.
Qed.

(* ---------- the whole run ---------- *)
(* how run_tasks ended and the state it ended in (before finish()) *)
Definition run_core (fuel nprocs : nat) (sched : list nat) (sel : list name) : pend * pstate :=
  let '(e1, p1) := start_procs fuel nprocs (p_init sched sel) in
  match e1 with
  | PNormal =>
      let p1 := with_counts p1 (p_free p1) (length (p_workers p1)) in
      if deadlocked p1 then (PHoldErr, terminate p1)
      else match main_loop fuel p1 with
           | (PNormal, p2) => (PNormal, drain (join_all (fuel * 4) p2))
           | r => r end
  | _ => (e1, p1)
  end.
Definition pmarker (e : pend) : list pevent :=
  match e with
  | PCycleErr path => [PE (ECycleError path)] | PHoldErr => [PE EHoldError]
  | PInterrupt k => [PE (EInterrupt k)] | _ => [] end.
Definition pcode (e : pend) (r : rstate) : N :=
  match e with
  | PNormal => r_final r | PCycleErr _ | PHoldErr => 3 | PInterrupt _ => 4 | PHung => 98 | PFuel => 99 end.
Definition pfin (p2 : pstate) : pstate := sync (with_r p2 (finish (p_r p2))).

Lemma run_parallel_eq fuel nprocs sched sel :
  run_parallel fuel nprocs sched sel =
  let '(e2, p2) := run_core fuel nprocs sched sel in (p_log (pfin p2) ++ pmarker e2, pcode e2 (p_r (pfin p2))).
Proof.
  unfold Parallel.run_parallel, run_core.
  destruct (start_procs fuel nprocs (p_init sched sel)) as [e1 p1].
  destruct e1; reflexivity.
Qed.

Lemma run_core_G fuel nprocs sched sel e2 p2 :
  run_core fuel nprocs sched sel = (e2, p2) ->
  PI p2 /\ NI p2 /\
  (e2 = PHoldErr -> exists k, reach k k) /\ (forall path, e2 = PCycleErr path -> exists k, reach k k) /\
  ((0 < nprocs)%nat -> e2 = PNormal -> r_stop (p_r p2) = false -> forall x, In x sel -> finished_in (r_tr (p_r p2)) x).
Proof.
  unfold run_core. destruct (start_procs fuel nprocs (p_init sched sel)) as [e1 p1] eqn:E1.
  destruct (start_procs_G fuel nprocs (p_init sched sel) e1 p1 (PI_init tasks sched sel) (NI_init sched sel) (DJ_init sched sel))
    as (P1 & N1 & S1 & Cy1 & Nm1); [reflexivity|exact E1|].
  pose proof (start_procs_nohold _ _ _ _ _ E1) as Hnh1.
  assert (Hseen1 : forall x, In x sel -> seen (r_d (p_r p1)) x) by (intros x Hx; apply S1; left; exact Hx).
  assert (Hother : e1 <> PNormal -> (e1, p1) = (e2, p2) ->
    PI p2 /\ NI p2 /\
    (e2 = PHoldErr -> exists k, reach k k) /\ (forall path, e2 = PCycleErr path -> exists k, reach k k) /\
    ((0 < nprocs)%nat -> e2 = PNormal -> r_stop (p_r p2) = false -> forall x, In x sel -> finished_in (r_tr (p_r p2)) x)).
  { intros Hne E. inversion E; subst. split; auto. split; auto. split; [intros H; contradiction|]. split; [exact Cy1|].
    intros _ H; contradiction. }
  destruct e1; try (apply Hother; discriminate).
  clear Hother. destruct (Nm1 eq_refl) as (J1 & C1 & Z1).
  set (p1' := with_counts p1 (p_free p1) (length (p_workers p1))).
  assert (P1' : PI p1') by (apply with_counts_PI; exact P1).
  assert (N1' : NI p1') by (eapply NI_same; [| |exact N1]; reflexivity).
  assert (J1' : DJ p1' None) by exact J1.
  assert (C1' : CI (p_count p1') 0 p1') by exact C1.
  destruct (deadlocked p1') eqn:Edl.
  { intros E. inversion E; subst. split; [apply terminate_PI; exact P1'|]. split; [apply terminate_N; exact N1'|].
    split; [intros _; eapply deadlocked_cycle; eauto|]. split; [intros path H; discriminate|intros _ H; discriminate]. }
  destruct (main_loop fuel p1') as [em pm] eqn:E2.
  assert (Hcore : PI pm /\ NI pm /\ (forall x, In x sel -> seen (r_d (p_r pm)) x) /\
            (em = PHoldErr -> exists k, reach k k) /\ (forall path, em = PCycleErr path -> exists k, reach k k) /\
            (em = PNormal -> CI 0 0 pm /\ (r_stop (p_r pm) = false -> DI (Fl pm) None (r_d (p_r pm))) /\
                             ((0 < nprocs)%nat -> r_stop (p_r pm) = true \/ stop4 (r_d (p_r pm))))).
  { destruct (p_count p1') as [|c] eqn:Ec.
    - (* no process was started *)
      assert (Em : (em = PFuel \/ em = PNormal) /\ pm = p1').
      { destruct fuel; cbn [Parallel.main_loop] in E2; [|rewrite Ec in E2]; inversion E2; auto. }
      destruct Em as [Em ->]. split; auto. split; auto. split; [exact Hseen1|].
      split; [intros H; destruct Em; congruence|]. split; [intros path H; destruct Em; congruence|].
      intros _. split; [exact C1'|]. split; [apply (proj1 J1')|]. intros Hn.
      destruct Z1 as [Z|[Z|Z]]; auto. exfalso. unfold p1' in Ec. pcbn in Ec. lia.
    - rewrite <- Ec in C1'. destruct (main_loop_G fuel p1' em pm P1' N1' C1' (proj1 J1')) as (A & B & C & D & F & G); [right; right; lia|exact E2|].
      split; auto. split; auto. split; [intros x Hx; apply C; apply Hseen1; exact Hx|]. split; auto. split; auto.
      intros He. destruct (G He) as (G1 & G2 & G3 & G4). split; auto. split; auto. intros _.
      destruct G4 as [Z|[Z|Z]]; auto. lia. }
  destruct Hcore as (Pm & Nm & Sm & Hm & Cm & Fm).
  destruct em; try (intros E; inversion E; subst; split; auto; split; auto; split; auto; split; auto; intros _ H; discriminate).
  intros E. inversion E; subst. destruct (Fm eq_refl) as (F1 & F2 & F3).
  destruct (after_loop sel (fuel * 4) pm Pm Nm F1 F2 Sm) as (A & B & C).
  split; [exact A|]. split; [exact B|]. split; [intros H; discriminate|]. split; [intros path H; discriminate|].
  intros Hn _ Hs. apply C; auto.
Qed.

Lemma In_PE_proj e log : In (PE e) log -> In e (proj log).
Proof. intros H. unfold proj. apply in_flat_map. exists (PE e). split; [exact H|left; reflexivity]. Qed.

(* the diagnostics never appear inside the log: only as the marker of the way the run ended *)
Lemma pfin_log_plain p2 e : PI p2 -> NI p2 -> In (PE e) (p_log (pfin p2)) -> is_hold e = false /\ is_cyc e = false.
Proof.
  intros HP HN Hin. apply In_PE_proj in Hin. unfold pfin in Hin.
  rewrite (pi_proj _ _ (finish_PI tasks p2 HP)) in Hin.
  assert (Hin2 : In e (r_tr (finish (p_r p2)))).
  { change (r_tr (p_r (sync (with_r p2 (finish (p_r p2)))))) with (r_tr (finish (p_r p2))) in Hin.
    rewrite <- (firstn_skipn (p_seen (sync (with_r p2 (finish (p_r p2))))) (r_tr (finish (p_r p2)))).
    apply in_or_app. left. exact Hin. }
  destruct (NR_finish _ (ni_r _ HN)) as (A & B & _).
  unfold nohold in A. unfold nocyc in B. rewrite forallb_forall in A, B.
  specialize (A e Hin2). specialize (B e Hin2). apply negb_true_iff in A. apply negb_true_iff in B. auto.
Qed.

(* (A) the "tasks waiting for each other" error of a parallel run is never a false alarm *)
Theorem parallel_hold_error_is_real_s fuel nprocs sched sel :
  In (PE EHoldError) (fst (run_parallel fuel nprocs sched sel)) -> exists k, reach k k.
Proof.
  rewrite run_parallel_eq. destruct (run_core fuel nprocs sched sel) as [e2 p2] eqn:Ec.
  destruct (run_core_G _ _ _ _ _ _ Ec) as (HP & HN & Hh & _). cbn [fst]. intros Hin.
  apply in_app_iff in Hin. destruct Hin as [Hin|Hin].
  - destruct (pfin_log_plain p2 _ HP HN Hin) as [A _]. discriminate.
  - destruct e2; simpl in Hin; try contradiction; destruct Hin as [Hin|[]]; try discriminate. apply Hh. reflexivity.
Qed.

(* (B) neither is the "cyclic dependency" error *)
Theorem parallel_cycle_error_is_real_s fuel nprocs sched sel path :
  In (PE (ECycleError path)) (fst (run_parallel fuel nprocs sched sel)) -> exists k, reach k k.
Proof.
  rewrite run_parallel_eq. destruct (run_core fuel nprocs sched sel) as [e2 p2] eqn:Ec.
  destruct (run_core_G _ _ _ _ _ _ Ec) as (HP & HN & _ & Hc & _). cbn [fst]. intros Hin.
  apply in_app_iff in Hin. destruct Hin as [Hin|Hin].
  - destruct (pfin_log_plain p2 _ HP HN Hin) as [_ A]. discriminate.
  - destruct e2; simpl in Hin; try contradiction; destruct Hin as [Hin|[]]; try discriminate. eapply Hc. reflexivity.
Qed.

(* (C) a run that ended normally (run_tasks returned: no diagnostic, no interrupt, no hang, fuel left)
   with the stop flag of the main runner unset has a final report for every selected task *)
Lemma parallel_complete_core fuel nprocs sched sel e2 p2 :
  (0 < nprocs)%nat -> run_core fuel nprocs sched sel = (e2, p2) -> e2 = PNormal -> r_stop (p_r p2) = false ->
  forall x, In x sel -> pfinished (fst (run_parallel fuel nprocs sched sel)) x.
Proof.
  intros Hn Ec He Hs x Hx. rewrite run_parallel_eq, Ec. cbn [fst].
  destruct (run_core_G _ _ _ _ _ _ Ec) as (HP & HN & _ & _ & Hc).
  apply pfinished_app. unfold pfin. apply (pi_sync _ _ (finish_PI tasks p2 HP)).
  change (p_seen (sync (with_r p2 (finish (p_r p2))))) with (length (r_tr (finish (p_r p2)))).
  change (r_tr (p_r (sync (with_r p2 (finish (p_r p2)))))) with (r_tr (finish (p_r p2))).
  rewrite firstn_all. unfold finish, emit. cbn [r_tr]. apply finished_in_app. apply (Hc Hn He Hs x Hx).
Qed.

Theorem parallel_complete_continue_s fuel nprocs sched sel :
  continue_ = true -> (0 < nprocs)%nat -> snd (run_parallel fuel nprocs sched sel) <= 2 ->
  forall x, In x sel -> pfinished (fst (run_parallel fuel nprocs sched sel)) x.
Proof.
  intros Hcont Hn Hc. destruct (run_core fuel nprocs sched sel) as [e2 p2] eqn:Ec.
  destruct (run_core_G _ _ _ _ _ _ Ec) as (HP & HN & _).
  rewrite run_parallel_eq, Ec in Hc. cbn [snd] in Hc.
  apply (parallel_complete_core fuel nprocs sched sel e2 p2 Hn Ec).
  - destruct e2; simpl in Hc; auto; lia.
  - destruct (ni_r _ HN) as (_ & _ & _ & D). apply D. exact Hcont.
Qed.

Theorem parallel_complete_success_s fuel nprocs sched sel :
  (0 < nprocs)%nat -> snd (run_parallel fuel nprocs sched sel) = 0 ->
  forall x, In x sel -> pfinished (fst (run_parallel fuel nprocs sched sel)) x.
Proof.
  intros Hn Hc. destruct (run_core fuel nprocs sched sel) as [e2 p2] eqn:Ec.
  destruct (run_core_G _ _ _ _ _ _ Ec) as (HP & HN & _).
  rewrite run_parallel_eq, Ec in Hc. cbn [snd] in Hc.
  assert (He : e2 = PNormal) by (destruct e2; simpl in Hc; auto; discriminate).
  apply (parallel_complete_core fuel nprocs sched sel e2 p2 Hn Ec He).
  subst e2. simpl in Hc. destruct (ni_r _ HN) as (_ & _ & [_ D] & _). apply D. exact Hc.
Qed.

End PH.

(* ---------- the statements, fully quantified ---------- *)
Theorem parallel_hold_error_is_real :
  forall tasks wake_rank calc_rank continue_ always proc fuel nprocs sched sel,
  In (PE EHoldError) (fst (run_parallel tasks wake_rank calc_rank continue_ always proc fuel nprocs sched sel)) ->
  exists k, reach tasks k k.
Proof. intros. eapply parallel_hold_error_is_real_s; eauto. Qed.
Print Assumptions parallel_hold_error_is_real.

Theorem parallel_cycle_error_is_real :
  forall tasks wake_rank calc_rank continue_ always proc fuel nprocs sched sel p,
  In (PE (ECycleError p)) (fst (run_parallel tasks wake_rank calc_rank continue_ always proc fuel nprocs sched sel)) ->
  exists k, reach tasks k k.
Proof. intros. eapply parallel_cycle_error_is_real_s; eauto. Qed.
Print Assumptions parallel_cycle_error_is_real.

(* over an acyclic graph no parallel run, whatever the schedule, ends with either diagnostic *)
Corollary parallel_acyclic_no_diagnostic :
  forall tasks wake_rank calc_rank continue_ always proc fuel nprocs sched sel,
  (forall k, ~ reach tasks k k) ->
  let log := fst (run_parallel tasks wake_rank calc_rank continue_ always proc fuel nprocs sched sel) in
  ~ In (PE EHoldError) log /\ forall p, ~ In (PE (ECycleError p)) log.
Proof.
  intros tasks wake_rank calc_rank continue_ always proc fuel nprocs sched sel Hac. cbv zeta. split.
  - intros Hin. destruct (parallel_hold_error_is_real _ _ _ _ _ _ _ _ _ _ Hin) as [k Hk]. exact (Hac k Hk).
  - intros p Hin. destruct (parallel_cycle_error_is_real _ _ _ _ _ _ _ _ _ _ _ Hin) as [k Hk]. exact (Hac k Hk).
Qed.
Print Assumptions parallel_acyclic_no_diagnostic.

(* with --continue: unless the run ended with a diagnostic (3), an interrupt (4), a hang (98) or out of
   fuel (99), every selected task has a final report in the merged log *)
Theorem parallel_complete_continue :
  forall tasks wake_rank calc_rank always proc fuel nprocs sched sel,
  (0 < nprocs)%nat ->
  snd (run_parallel tasks wake_rank calc_rank true always proc fuel nprocs sched sel) <= 2 ->
  forall x, In x sel -> pfinished (fst (run_parallel tasks wake_rank calc_rank true always proc fuel nprocs sched sel)) x.
Proof. intros. eapply parallel_complete_continue_s; eauto. Qed.
Print Assumptions parallel_complete_continue.

(* exit code 0 *)
Theorem parallel_complete_success :
  forall tasks wake_rank calc_rank continue_ always proc fuel nprocs sched sel,
  (0 < nprocs)%nat ->
  snd (run_parallel tasks wake_rank calc_rank continue_ always proc fuel nprocs sched sel) = 0 ->
  forall x, In x sel -> pfinished (fst (run_parallel tasks wake_rank calc_rank continue_ always proc fuel nprocs sched sel)) x.
Proof. intros. eapply parallel_complete_success_s; eauto. Qed.
Print Assumptions parallel_complete_success.
