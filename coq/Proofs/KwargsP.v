(* KwargsP.v -- proofs about Model/Kwargs.v: what a python-action declared as (callable, args, kwargs)
   receives, key by key; the declared dict objects are never written to, hence every execution of a
   sequence sees them as declared; agreement with Inputs.prepare_kwargs on bare callables. *)
From Coq Require Import ZifyBool Lia.
From DoitV Require Import Base Status History Inputs Kwargs.
Open Scope Z_scope.

Lemma mem_In x l : mem x l = true <-> In x l.
Proof.
  unfold mem. rewrite existsb_exists. split.
  - intros (y & H & E). apply N.eqb_eq in E. subst; auto.
  - intros H. exists x. split; auto. apply N.eqb_refl.
Qed.

Lemma dget_dset d k x k' : dget (dset d k x) k' = if N.eqb k k' then Some x else dget d k'.
Proof.
  induction d as [|[k0 y] d IH]; simpl.
  - reflexivity.
  - destruct (N.eqb_spec k0 k) as [->|N0]; simpl.
    + destruct (N.eqb_spec k k'); reflexivity.
    + rewrite IH. destruct (N.eqb_spec k0 k') as [->|N1]; auto.
      destruct (N.eqb_spec k k') as [->|]; auto. congruence.
Qed.

Lemma dhas_dset d k x k' : dhas (dset d k x) k' = N.eqb k k' || dhas d k'.
Proof. unfold dhas. rewrite dget_dset. destruct (N.eqb k k'); reflexivity. Qed.

(* ---------------------------------------------------------------- the meta-arguments *)
Lemma meta_step_get a df ch kw key k :
  dget (meta_step a df ch kw key) k =
    if N.eqb key k && mem key (f_params (a_fun a)) && negb (mem key (bound a))
    then Some (meta_value df ch key) else dget kw k.
Proof.
  unfold meta_step. destruct (mem key (f_params (a_fun a)) && negb (mem key (bound a))) eqn:E.
  - rewrite dget_dset. apply andb_true_iff in E. destruct E as [-> ->]. destruct (N.eqb key k); reflexivity.
  - destruct (N.eqb key k); simpl; auto. rewrite E. reflexivity.
Qed.

Lemma meta_fold_get a df ch kw k :
  dget (fold_left (meta_step a df ch) meta_keys kw) k =
    if is_meta k && mem k (f_params (a_fun a)) && negb (mem k (bound a))
    then Some (meta_value df ch k) else dget kw k.
Proof.
  assert (IM : is_meta k = N.eqb 0 k || N.eqb 1 k || N.eqb 2 k).
  { unfold is_meta, meta_keys, mem, arg_targets, arg_dependencies, arg_changed. simpl.
    rewrite !(N.eqb_sym k), orb_false_r, orb_assoc. reflexivity. }
  rewrite IM. unfold meta_keys, arg_targets, arg_dependencies, arg_changed. cbn [fold_left]. rewrite !meta_step_get.
  destruct (N.eqb 2 k) eqn:E2; destruct (N.eqb 1 k) eqn:E1; destruct (N.eqb 0 k) eqn:E0;
    repeat match goal with H : N.eqb _ _ = true |- _ => apply N.eqb_eq in H end; subst;
    try discriminate; cbn [andb orb]; reflexivity.
Qed.

(* ---------------------------------------------------------------- the options *)
Definition opt_get (a : pyact) (kw : kwdict) (k : N) (x : aval) : option kwval :=
  if mem k (f_params (a_fun a))
  then (if negb (mem k (bound a)) then Some (KOpt x) else dget kw k)
  else if f_varkw (a_fun a) && negb (dhas kw k) then Some (KOpt x) else dget kw k.

Lemma opt_step_get a kw key x k :
  dget (opt_step a kw (key, x)) k = if N.eqb key k then opt_get a kw key x else dget kw k.
Proof.
  unfold opt_step, opt_get.
  destruct (mem key (f_params (a_fun a))).
  - destruct (negb (mem key (bound a))); [rewrite dget_dset|]; destruct (N.eqb_spec key k); subst; reflexivity.
  - destruct (f_varkw (a_fun a) && negb (dhas kw key)); [rewrite dget_dset|]; destruct (N.eqb_spec key k); subst; reflexivity.
Qed.

Lemma oget_notin o k : ~ In k (map fst o) -> oget o k = None.
Proof.
  induction o as [|[k' x] o IH]; simpl; auto. intros H.
  destruct (N.eqb_spec k' k); [tauto|]. apply IH. tauto.
Qed.

Lemma opt_fold_get a : forall opts kw k, NoDup (map fst opts) ->
  dget (fold_left (opt_step a) opts kw) k =
    match oget opts k with Some x => opt_get a kw k x | None => dget kw k end.
Proof.
  induction opts as [|[key x] opts IH]; intros kw k ND; [reflexivity|].
  cbn [fold_left oget map fst] in *.
  inversion ND as [|? ? Hn ND']; subst. rewrite (IH _ _ ND').
  destruct (N.eqb_spec key k) as [->|Ne].
  - rewrite (oget_notin _ _ Hn). rewrite opt_step_get, N.eqb_refl. reflexivity.
  - assert (G : dget (opt_step a kw (key, x)) k = dget kw k).
    { rewrite opt_step_get. destruct (N.eqb_spec key k); congruence. }
    destruct (oget opts k); auto. unfold opt_get, dhas. rewrite G. reflexivity.
Qed.

(* ---------------------------------------------------------------- the whole function, key by key *)
Definition meta_in (a : pyact) (k : N) : bool :=
  is_meta k && mem k (f_params (a_fun a)) && negb (mem k (bound a)).

Lemma prepare_in_get kw0 a df ch opts k : NoDup (map fst opts) ->
  dget (prepare_in kw0 a df ch opts) k =
    let after_meta := if meta_in a k then Some (meta_value df ch k) else dget kw0 k in
    match oget opts k with
    | None => after_meta
    | Some x =>
        if mem k (f_params (a_fun a))
        then (if negb (mem k (bound a)) then Some (KOpt x) else after_meta)
        else if f_varkw (a_fun a) && negb (dhas kw0 k) then Some (KOpt x) else dget kw0 k
    end.
Proof.
  intros ND. unfold prepare_in. rewrite (opt_fold_get a opts _ k ND). cbv zeta.
  destruct (oget opts k) as [x|]; [|apply meta_fold_get].
  unfold opt_get, dhas. rewrite meta_fold_get. fold (meta_in a k).
  destruct (mem k (f_params (a_fun a))) eqn:Em; auto.
  unfold meta_in. rewrite Em, andb_false_r. simpl. reflexivity.
Qed.

(* a getargs value (an entry of task.options) reaches the callable under its name when the callable has
   a parameter of that name -- whatever the declared dict holds -- or has **kwargs and the declared dict
   does not hold that name *)
Lemma getargs_received kw0 a df ch opts k x : NoDup (map fst opts) ->
  oget opts k = Some x -> ~ In k (bound a) ->
  (In k (f_params (a_fun a)) \/ (f_varkw (a_fun a) = true /\ dget kw0 k = None)) ->
  dget (prepare_in kw0 a df ch opts) k = Some (KOpt x).
Proof.
  intros ND E Hb H. rewrite (prepare_in_get _ _ _ _ _ _ ND). cbv zeta. rewrite E.
  assert (Hb' : mem k (bound a) = false).
  { destruct (mem k (bound a)) eqn:M; auto. apply mem_In in M. contradiction. }
  rewrite Hb'. simpl.
  destruct (mem k (f_params (a_fun a))) eqn:Em; auto.
  destruct H as [H|[Hv Hd]].
  - apply mem_In in H. congruence.
  - unfold dhas. rewrite Hv, Hd. reflexivity.
Qed.

Lemma meta_received kw0 a df ch opts k : NoDup (map fst opts) ->
  In k meta_keys -> In k (f_params (a_fun a)) -> ~ In k (bound a) -> oget opts k = None ->
  dget (prepare_in kw0 a df ch opts) k = Some (meta_value df ch k).
Proof.
  intros ND Hm Hp Hb E. rewrite (prepare_in_get _ _ _ _ _ _ ND). cbv zeta. rewrite E.
  unfold meta_in, is_meta. apply mem_In in Hm. apply mem_In in Hp. rewrite Hm, Hp.
  destruct (mem k (bound a)) eqn:M; auto. apply mem_In in M. contradiction.
Qed.

(* nothing else: every keyword the callable receives is a declared one, a meta-argument of THIS task the
   callable has a parameter for, or an option of THIS task *)
Lemma nothing_else kw0 a df ch opts k v : NoDup (map fst opts) ->
  dget (prepare_in kw0 a df ch opts) k = Some v ->
  dget kw0 k = Some v \/
  (In k meta_keys /\ In k (f_params (a_fun a)) /\ v = meta_value df ch k) \/
  (exists x, oget opts k = Some x /\ v = KOpt x).
Proof.
  intros ND. rewrite (prepare_in_get _ _ _ _ _ _ ND). cbv zeta.
  assert (M : forall w, (if meta_in a k then Some (meta_value df ch k) else dget kw0 k) = Some w ->
              dget kw0 k = Some w \/ (In k meta_keys /\ In k (f_params (a_fun a)) /\ w = meta_value df ch k)).
  { intros w. unfold meta_in, is_meta. destruct (mem k meta_keys) eqn:E1; simpl; auto.
    destruct (mem k (f_params (a_fun a))) eqn:E2; simpl; auto.
    destruct (negb (mem k (bound a))); auto.
    intros H. inversion H; subst. right. apply mem_In in E1. apply mem_In in E2. auto. }
  destruct (oget opts k) as [x|] eqn:E.
  - destruct (mem k (f_params (a_fun a))).
    + destruct (negb (mem k (bound a))).
      * intros H. inversion H; subst. right. right. eauto.
      * intros H. apply M in H. tauto.
    + destruct (f_varkw (a_fun a) && negb (dhas kw0 k)); auto.
      intros H. inversion H; subst. right. right. eauto.
  - intros H. apply M in H. tauto.
Qed.

(* ---------------------------------------------------------------- the dict objects *)
Lemma prepare_heap_copy h a df ch opts :
  prepare_heap true h a df ch opts = (prepare_in (h (a_kw a)) a df ch opts, h).
Proof. reflexivity. Qed.

(* with the copy, whatever was executed before -- other actions, other tasks, earlier runs of the same
   process, sharing dict objects in any way -- every execution receives what the DECLARED content of its
   dict gives, and all dict objects are as declared afterwards *)
Lemma exec_calls_copy : forall cs h, exec_calls true h cs = (map (call_kw h) cs, h).
Proof.
  induction cs as [|c cs IH]; intros h; simpl; auto.
  rewrite IH. reflexivity.
Qed.

(* ---------------------------------------------------------------- bare callable with named parameters *)
Definition plain (params : list N) : pyact := {| a_fun := {| f_params := params; f_varkw := false |}; a_npos := 0; a_kw := 0%N |}.

Lemma meta_value_input df ch opts k : oget opts k = None -> is_meta k = true ->
  action_input df ch opts k = Some (meta_value df ch k).
Proof.
  intros E H. unfold action_input, meta_value. rewrite E.
  destruct (N.eqb k arg_targets) eqn:E0; auto. destruct (N.eqb k arg_dependencies) eqn:E1; auto.
  destruct (N.eqb k arg_changed) eqn:E2; auto. exfalso.
  unfold is_meta, meta_keys, mem in H. cbn [existsb] in H. rewrite E0, E1, E2 in H. discriminate.
Qed.

Lemma nonmeta_input df ch opts k : oget opts k = None -> is_meta k = false -> action_input df ch opts k = None.
Proof.
  intros E H. unfold action_input. rewrite E.
  unfold is_meta, meta_keys, mem in H. cbn [existsb] in H.
  destruct (N.eqb k arg_targets); [discriminate|]. destruct (N.eqb k arg_dependencies); [discriminate|].
  destruct (N.eqb k arg_changed); [discriminate|]. reflexivity.
Qed.

Lemma prepare_in_plain df ch opts params k : NoDup (map fst opts) ->
  dget (prepare_in [] (plain params) df ch opts) k = if mem k params then action_input df ch opts k else None.
Proof.
  intros ND. rewrite (prepare_in_get _ _ _ _ _ _ ND). cbv zeta.
  unfold meta_in, bound, plain. simpl.
  destruct (mem k params) eqn:Em; simpl.
  - rewrite andb_true_r.
    destruct (oget opts k) as [x|] eqn:E.
    + unfold action_input. rewrite E. reflexivity.
    + destruct (is_meta k) eqn:Ek.
      * symmetry. apply meta_value_input; auto.
      * symmetry. apply nonmeta_input; auto.
  - rewrite andb_false_r. destruct (oget opts k); reflexivity.
Qed.

Lemma prepare_kwargs_In df ch opts params k x :
  In (k, x) (prepare_kwargs df ch opts params) <-> In k params /\ action_input df ch opts k = Some x.
Proof.
  unfold prepare_kwargs. rewrite in_flat_map. split.
  - intros (p & Hp & H). destruct (action_input df ch opts p) eqn:E; [|destruct H].
    destruct H as [H|[]]. inversion H; subst. auto.
  - intros [Hp E]. exists k. split; auto. rewrite E. left; reflexivity.
Qed.

Lemma plain_agrees df ch opts params k x : NoDup (map fst opts) ->
  In (k, x) (prepare_kwargs df ch opts params) <-> dget (prepare_in [] (plain params) df ch opts) k = Some x.
Proof.
  intros ND. rewrite prepare_kwargs_In, (prepare_in_plain _ _ _ _ _ ND).
  destruct (mem k params) eqn:Em.
  - apply mem_In in Em. tauto.
  - split; [|discriminate]. intros [H _]. apply mem_In in H. congruence.
Qed.

(* ---------------------------------------------------------------- the property-shaped statement *)
(* in any sequence of executions over shared dict objects, the i-th one receives, under the name of each of
   its task's getargs entries, the value task.options holds at that moment *)
Lemma seq_getargs cs h i c k x :
  nth_error cs i = Some c -> NoDup (map fst (c_opts c)) ->
  oget (c_opts c) k = Some x -> ~ In k (bound (c_act c)) ->
  (In k (f_params (a_fun (c_act c))) \/ (f_varkw (a_fun (c_act c)) = true /\ dget (h (a_kw (c_act c))) k = None)) ->
  exists kw, nth_error (fst (exec_calls true h cs)) i = Some kw /\ dget kw k = Some (KOpt x).
Proof.
  intros Hn ND E Hb H. rewrite exec_calls_copy. simpl.
  exists (call_kw h c). split.
  - apply map_nth_error. exact Hn.
  - unfold call_kw. apply getargs_received; auto.
Qed.

Lemma seq_meta cs h i c k :
  nth_error cs i = Some c -> NoDup (map fst (c_opts c)) ->
  In k meta_keys -> In k (f_params (a_fun (c_act c))) -> ~ In k (bound (c_act c)) -> oget (c_opts c) k = None ->
  exists kw, nth_error (fst (exec_calls true h cs)) i = Some kw /\ dget kw k = Some (meta_value (c_def c) (c_changed c) k).
Proof.
  intros Hn ND Hm Hp Hb E. rewrite exec_calls_copy. simpl.
  exists (call_kw h c). split.
  - apply map_nth_error. exact Hn.
  - unfold call_kw. apply meta_received; auto.
Qed.

Lemma seq_nothing_else cs h i c kw k v :
  nth_error cs i = Some c -> NoDup (map fst (c_opts c)) ->
  nth_error (fst (exec_calls true h cs)) i = Some kw -> dget kw k = Some v ->
  dget (h (a_kw (c_act c))) k = Some v \/
  (In k meta_keys /\ In k (f_params (a_fun (c_act c))) /\ v = meta_value (c_def c) (c_changed c) k) \/
  (exists x, oget (c_opts c) k = Some x /\ v = KOpt x).
Proof.
  intros Hn ND. rewrite exec_calls_copy. simpl. rewrite (map_nth_error _ _ _ Hn).
  intros H. inversion H; subst. unfold call_kw. apply nothing_else; auto.
Qed.
