(* RunConfigP.v -- where the run options handed to _execute come from (Model/RunConfig.v) *)
From Coq Require Import List NArith ZArith Bool Lia.
From DoitV Require Import Base CmdParse CmdParseP CmdParseR RunConfig.
Import ListNotations.
Open Scope N_scope.

Lemma items_get_set_same l : forall k v, items_get (items_set l k v) k = Some v.
Proof.
  induction l as [|[k' v'] r IH]; intros k v; simpl.
  - rewrite N.eqb_refl. reflexivity.
  - destruct (N.eqb k' k) eqn:E; simpl; rewrite E; auto.
Qed.

Lemma items_get_set_other l : forall k k2 v, k2 <> k -> items_get (items_set l k v) k2 = items_get l k2.
Proof.
  induction l as [|[k' v'] r IH]; intros k k2 v Hne; simpl.
  - destruct (N.eqb k k2) eqn:E; auto. apply N.eqb_eq in E. congruence.
  - destruct (N.eqb k' k) eqn:E; simpl.
    + apply N.eqb_eq in E. subst k'. destruct (N.eqb k k2) eqn:E2; auto. apply N.eqb_eq in E2. congruence.
    + destruct (N.eqb k' k2); auto.
Qed.

Definition merged (p : params) (dodo : list (name * value)) (k : name) : option value :=
  if mem k (d_nd p) then d_get p k
  else match lookup_last dodo k with Some x => Some x | None => d_get p k end.

(* continue_ is the value of `continue` AFTER DOIT_CONFIG was merged: the command line (a non-default key) wins,
   else the last entry of DOIT_CONFIG, else the default held by the parser (tool configuration / declared) *)
Lemma execute_continue_spec kc kc_ p dodo :
  d_get (execute_params kc kc_ p dodo) kc_ =
    Some (match merged p dodo kc with Some v => v | None => VNone end).
Proof.
  unfold execute_params. cbv zeta. unfold d_get at 1. unfold d_setitem. cbn [d_items]. rewrite items_get_set_same.
  unfold get_or_none. rewrite (proj2 (update_defaults_spec dodo p kc)). reflexivity.
Qed.

Lemma execute_other_spec kc kc_ p dodo k : k <> kc_ ->
  d_get (execute_params kc kc_ p dodo) k = merged p dodo k.
Proof.
  intros Hne. unfold execute_params. cbv zeta. unfold d_get at 1. unfold d_setitem. cbn [d_items].
  rewrite items_get_set_other by exact Hne. exact (proj2 (update_defaults_spec dodo p k)).
Qed.

Lemma continue_from_doit_config kc kc_ p dodo v :
  mem kc (d_nd p) = false -> lookup_last dodo kc = Some v ->
  d_get (execute_params kc kc_ p dodo) kc_ = Some v.
Proof. intros Hn Hl. rewrite execute_continue_spec. unfold merged. rewrite Hn, Hl. reflexivity. Qed.

Lemma continue_from_command_line kc kc_ p dodo v :
  mem kc (d_nd p) = true -> d_get p kc = Some v ->
  d_get (execute_params kc kc_ p dodo) kc_ = Some v.
Proof. intros Hn Hl. rewrite execute_continue_spec. unfold merged. rewrite Hn, Hl. reflexivity. Qed.

(* ---- parsed: which keys are non-default, and the values *)
Lemma fold_default_nd defaults : forall d,
  d_nd (fold_left (fun d kv => d_set_default d (fst kv) (snd kv)) defaults d) = d_nd d.
Proof. induction defaults as [|kv r IH]; intros d; simpl; auto. rewrite IH. reflexivity. Qed.

Lemma mem_addset k x l : mem k (addset x l) = (N.eqb k x || mem k l)%bool.
Proof.
  unfold addset. destruct (mem x l) eqn:E.
  - destruct (N.eqb k x) eqn:Ek; auto. apply N.eqb_eq in Ek. subst. rewrite E. reflexivity.
  - unfold mem. rewrite existsb_app. simpl. rewrite orb_false_r. apply orb_comm.
Qed.

Lemma fold_setitem_nd cli : forall d k,
  mem k (d_nd (fold_left (fun d kv => d_setitem d (fst kv) (snd kv)) cli d)) =
  (mem k (map fst cli) || mem k (d_nd d))%bool.
Proof.
  induction cli as [|[k0 v0] r IH]; intros d k; simpl; auto.
  rewrite IH. simpl. rewrite mem_addset.
  destruct (N.eqb k k0); destruct (mem k (map fst r)); destruct (mem k (d_nd d)); reflexivity.
Qed.

Lemma parsed_nd defaults cli k : mem k (d_nd (parsed defaults cli)) = mem k (map fst cli).
Proof. unfold parsed. rewrite fold_setitem_nd, fold_default_nd. simpl. apply orb_false_r. Qed.

Lemma lookup_last_cons {A} (k0 : name) (v0 : A) r k :
  lookup_last ((k0, v0) :: r) k =
  match lookup_last r k with Some y => Some y | None => if N.eqb k0 k then Some v0 else None end.
Proof.
  unfold lookup_last. simpl. destruct (N.eqb k0 k); simpl; auto.
  destruct (last_opt _); reflexivity.
Qed.

Lemma fold_setitem_get cli : forall d k,
  d_get (fold_left (fun d kv => d_setitem d (fst kv) (snd kv)) cli d) k =
  match lookup_last cli k with Some v => Some v | None => d_get d k end.
Proof.
  induction cli as [|[k0 v0] r IH]; intros d k; simpl; auto.
  rewrite IH, lookup_last_cons. destruct (lookup_last r k); auto.
  unfold d_get, d_setitem; simpl. destruct (N.eqb k0 k) eqn:E.
  - apply N.eqb_eq in E. subst. apply items_get_set_same.
  - apply items_get_set_other. intros ->. rewrite N.eqb_refl in E. discriminate.
Qed.

Lemma fold_default_get defaults : forall d k,
  d_get (fold_left (fun d kv => d_set_default d (fst kv) (snd kv)) defaults d) k =
  match lookup_last defaults k with Some v => Some v | None => d_get d k end.
Proof.
  induction defaults as [|[k0 v0] r IH]; intros d k; simpl; auto.
  rewrite IH, lookup_last_cons. destruct (lookup_last r k); auto.
  unfold d_get, d_set_default; simpl. destruct (N.eqb k0 k) eqn:E.
  - apply N.eqb_eq in E. subst. apply items_get_set_same.
  - apply items_get_set_other. intros ->. rewrite N.eqb_refl in E. discriminate.
Qed.

Lemma parsed_get defaults cli k :
  d_get (parsed defaults cli) k =
  match lookup_last cli k with Some v => Some v | None => lookup_last defaults k end.
Proof.
  unfold parsed. rewrite fold_setitem_get, fold_default_get. unfold d_get. simpl.
  destruct (lookup_last cli k); auto. destruct (lookup_last defaults k); reflexivity.
Qed.

Lemma lookup_last_none_mem {A} (l : list (name * A)) k : mem k (map fst l) = false -> lookup_last l k = None.
Proof.
  induction l as [|[k0 v0] r IH]; simpl; intros H; auto.
  rewrite lookup_last_cons. unfold mem in *. simpl in H. apply orb_false_iff in H. destruct H as [H1 H2].
  rewrite (IH H2). rewrite N.eqb_sym, H1. reflexivity.
Qed.

Lemma lookup_last_some_mem {A} (l : list (name * A)) k : mem k (map fst l) = true -> exists v, lookup_last l k = Some v.
Proof.
  induction l as [|[k0 v0] r IH]; simpl; intros H; [discriminate|].
  rewrite lookup_last_cons. destruct (lookup_last r k) eqn:E; eauto.
  unfold mem in *. simpl in H. apply orb_true_iff in H. destruct H as [H|H].
  - rewrite N.eqb_sym, H. eauto.
  - destruct (IH H) as [v Hv]. discriminate.
Qed.

(* the whole precedence for continue_: command line > DOIT_CONFIG > parser default (tool configuration over declared) *)
Lemma continue_precedence kc kc_ defaults cli dodo :
  d_get (execute_params kc kc_ (parsed defaults cli) dodo) kc_ =
  Some (match (match lookup_last cli kc with
               | Some v => Some v
               | None => match lookup_last dodo kc with
                         | Some v => Some v
                         | None => lookup_last defaults kc
                         end
               end) with Some v => v | None => VNone end).
Proof.
  rewrite execute_continue_spec. unfold merged. rewrite parsed_nd, parsed_get.
  destruct (mem kc (map fst cli)) eqn:E.
  - destruct (lookup_last_some_mem cli kc E) as [v Hv]. rewrite Hv. reflexivity.
  - rewrite (lookup_last_none_mem cli kc E). destruct (lookup_last dodo kc); reflexivity.
Qed.

(* the copy made before the merge loses a DOIT_CONFIG `continue` *)
Lemma early_copy_loses_doit_config :
  exists p dodo, lookup_last dodo 0 = Some (VBool true) /\ mem 0 (d_nd p) = false /\
    d_get (execute_params_early 0 3 p dodo) 3 = Some (VBool false) /\
    d_get (execute_params 0 3 p dodo) 3 = Some (VBool true).
Proof.
  exists (parsed [(0, VBool false)] []), [(0, VBool true)]. vm_compute. repeat split; reflexivity.
Qed.
