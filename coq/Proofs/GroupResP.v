(* GroupResP.v -- proofs about Model/GroupRes.v: the result of a group that result_dep compares is a function of the
   records of its SUB-TASKS only; exact characterisation of the item's verdict; frame over the operations of History.v. *)
From DoitV Require Import Base Status History GroupRes StatusP HistoryP.
Open Scope Z_scope.

Lemma res_eqb_eq a b : res_eqb a b = true <-> a = b.
Proof.
  destruct a as [x|], b as [y|]; simpl; split; intros H; try discriminate; auto.
  - apply N.eqb_eq in H. subst; auto.
  - inversion H. apply N.eqb_refl.
Qed.

Lemma dget_dset_same l k x : dget (dset l k x) k = Some x.
Proof.
  induction l as [|[k' x'] r IH]; simpl.
  - rewrite N.eqb_refl; auto.
  - destruct (N.eqb k' k) eqn:E; simpl; rewrite E; auto.
Qed.

Lemma dget_dset_other l k k' x : k' <> k -> dget (dset l k x) k' = dget l k'.
Proof.
  intros Hne. induction l as [|[k0 x0] r IH]; simpl.
  - destruct (N.eqb k k') eqn:E; auto. apply N.eqb_eq in E. congruence.
  - destruct (N.eqb k0 k) eqn:E; simpl.
    + apply N.eqb_eq in E. subst k0. destruct (N.eqb k k') eqn:E2; auto. apply N.eqb_eq in E2. congruence.
    + destruct (N.eqb k0 k'); auto.
Qed.

Definition keys (l : gdict) : list name := map fst l.

Lemma dget_None l k : dget l k = None <-> ~ In k (keys l).
Proof.
  induction l as [|[k' x'] r IH]; simpl.
  - tauto.
  - destruct (N.eqb k' k) eqn:E.
    + apply N.eqb_eq in E. split; [discriminate | intros H; exfalso; apply H; auto].
    + apply N.eqb_neq in E. rewrite IH. tauto.
Qed.

Lemma keys_dset l k x : forall y, In y (keys (dset l k x)) <-> y = k \/ In y (keys l).
Proof.
  induction l as [|[k' x'] r IH]; simpl; intros y.
  - intuition auto.
  - destruct (N.eqb k' k) eqn:E; simpl.
    + apply N.eqb_eq in E. subst. intuition auto.
    + rewrite IH. intuition auto.
Qed.

Lemma nodup_dset l k x : NoDup (keys l) -> NoDup (keys (dset l k x)).
Proof.
  induction l as [|[k' x'] r IH]; simpl; intros H.
  - constructor; [simpl; tauto | constructor].
  - inversion H as [|? ? H1 H2]; subst. destruct (N.eqb k' k) eqn:E; simpl.
    + constructor; auto.
    + constructor; auto. fold (keys (dset r k x)). rewrite keys_dset. intros [->|Hin]; [|contradiction].
      rewrite N.eqb_refl in E. discriminate.
Qed.

(* with unique keys, membership of an item = lookup *)
Lemma In_dget l k x : NoDup (keys l) -> (In (k, x) l <-> dget l k = Some x).
Proof.
  induction l as [|[k' x'] r IH]; simpl; intros H.
  - split; [tauto | discriminate].
  - inversion H as [|? ? H1 H2]; subst. destruct (N.eqb k' k) eqn:E.
    + apply N.eqb_eq in E. subst k'. split.
      * intros [Heq|Hin]; [inversion Heq; auto|]. exfalso. apply H1. apply (in_map fst) in Hin. exact Hin.
      * intros Heq. inversion Heq. auto.
    + apply N.eqb_neq in E. rewrite <- IH by auto. split; [intros [Heq|Hin]; [inversion Heq; congruence | auto] | auto].
Qed.

Lemma dsub_spec a b : NoDup (keys a) -> (dsub a b = true <-> forall k x, dget a k = Some x -> dget b k = Some x).
Proof.
  intros Ha. unfold dsub. rewrite forallb_forall. split.
  - intros H k x Hg. apply (In_dget a k x Ha) in Hg. specialize (H _ Hg). simpl in H.
    destruct (dget b k) as [y|]; [|discriminate]. apply res_eqb_eq in H. congruence.
  - intros H [k x] Hin. simpl. apply (In_dget a k x Ha) in Hin. rewrite (H _ _ Hin). apply res_eqb_eq. auto.
Qed.

(* dict == dict *)
Lemma dict_eqb_spec a b : NoDup (keys a) -> NoDup (keys b) -> (dict_eqb a b = true <-> forall k, dget a k = dget b k).
Proof.
  intros Ha Hb. unfold dict_eqb. rewrite andb_true_iff, (dsub_spec a b Ha), (dsub_spec b a Hb). split.
  - intros [H1 H2] k. destruct (dget a k) as [x|] eqn:E1.
    + symmetry. apply H1; auto.
    + destruct (dget b k) as [y|] eqn:E2; auto. rewrite (H2 _ _ E2) in E1. discriminate.
  - intros H. split; intros k x Hg; [rewrite <- H | rewrite H]; auto.
Qed.

Section GroupResP.
Variable is_sub : name -> name -> bool.
Notation result_group := (result_group is_sub).
Notation dep_result := (dep_result is_sub).
Notation item_verdict := (item_verdict is_sub).
Notation item_saver := (item_saver is_sub).

Definition gstep (d : db) (g : name) (acc : gdict) (s : name) : gdict :=
  if is_sub g s then dset acc s (get_result d s) else acc.

Lemma fold_dget d g tdeps : forall acc k,
  dget (fold_left (gstep d g) tdeps acc) k =
  if is_sub g k && mem k tdeps then Some (get_result d k) else dget acc k.
Proof.
  induction tdeps as [|s r IH]; intros acc k; simpl.
  - rewrite andb_false_r. auto.
  - rewrite IH. unfold gstep. unfold mem. simpl. fold (mem k r).
    destruct (N.eqb k s) eqn:E; simpl.
    + apply N.eqb_eq in E. subst s. destruct (is_sub g k) eqn:Es; simpl; auto.
      destruct (mem k r); auto. apply dget_dset_same.
    + destruct (is_sub g k && mem k r); auto.
      destruct (is_sub g s); auto. apply dget_dset_other. apply N.eqb_neq; auto.
Qed.

Lemma fold_nodup d g tdeps : forall acc, NoDup (keys acc) -> NoDup (keys (fold_left (gstep d g) tdeps acc)).
Proof.
  induction tdeps as [|s r IH]; intros acc H; simpl; auto.
  apply IH. unfold gstep. destruct (is_sub g s); auto. apply nodup_dset; auto.
Qed.

(* the dict: exactly the sub-tasks among the task_dep of the group, each with the result its record holds *)
Lemma result_group_dget d g tdeps k :
  dget (result_group d g tdeps) k = if is_sub g k && mem k tdeps then Some (get_result d k) else None.
Proof. unfold GroupRes.result_group. apply (fold_dget d g tdeps [] k). Qed.

Lemma result_group_nodup d g tdeps : NoDup (keys (result_group d g tdeps)).
Proof. unfold GroupRes.result_group. apply (fold_nodup d g tdeps []). constructor. Qed.

(* the other task_dep of the group are skipped by the loop *)
Lemma result_group_filter d g tdeps : result_group d g tdeps = result_group d g (filter (is_sub g) tdeps).
Proof.
  unfold GroupRes.result_group. generalize (@nil (name * option N)).
  induction tdeps as [|s r IH]; intros acc; simpl; auto.
  destruct (is_sub g s) eqn:E; simpl; [rewrite E|]; apply IH.
Qed.

(* ... and the records of tasks that are not sub-tasks are not read *)
Lemma result_group_ext d d' g tdeps :
  (forall s, In s tdeps -> is_sub g s = true -> get_result d' s = get_result d s) ->
  result_group d' g tdeps = result_group d g tdeps.
Proof.
  unfold GroupRes.result_group. generalize (@nil (name * option N)).
  induction tdeps as [|s r IH]; intros acc H; simpl; auto.
  destruct (is_sub g s) eqn:E.
  - rewrite (H s) by (simpl; auto). apply IH. intros x Hx. apply H. simpl; auto.
  - apply IH. intros x Hx. apply H. simpl; auto.
Qed.

(* EXACT characterisation of the item on a group: true iff the sub-tasks are the same and each one's record holds the result it held *)
Theorem group_item_iff d d' g tdeps tdeps' :
  item_verdict (item_saver d true g tdeps) d' true g tdeps' = true <->
  forall s, is_sub g s = true -> (In s tdeps <-> In s tdeps') /\ (In s tdeps -> get_result d' s = get_result d s).
Proof.
  unfold GroupRes.item_verdict, GroupRes.item_saver, GroupRes.dep_result, eval_result_dep, dres_eqb.
  rewrite (dict_eqb_spec _ _ (result_group_nodup d g tdeps) (result_group_nodup d' g tdeps')). split.
  - intros H s Hs. specialize (H s). rewrite !result_group_dget, Hs in H. simpl in H.
    destruct (mem s tdeps) eqn:E1, (mem s tdeps') eqn:E2; try discriminate.
    + apply mem_In in E1. apply mem_In in E2. split; [tauto | intros _; congruence].
    + apply mem_false_In in E1. apply mem_false_In in E2. split; tauto.
  - intros H k. rewrite !result_group_dget. destruct (is_sub g k) eqn:Es; simpl; auto.
    destruct (H k Es) as [H1 H2].
    destruct (mem k tdeps) eqn:E1, (mem k tdeps') eqn:E2; auto.
    + apply mem_In in E1. rewrite (H2 E1). auto.
    + apply mem_In in E1. apply mem_false_In in E2. tauto.
    + apply mem_In in E2. apply mem_false_In in E1. tauto.
Qed.

(* the second look of a consumer at a group: up-to-date as far as this item goes, whatever the records of the tasks that are
   not sub-tasks of the group hold now, and whatever other task_dep the group has now *)
Theorem group_second_look d d' g tdeps tdeps' :
  (forall s, is_sub g s = true -> (In s tdeps <-> In s tdeps')) ->
  (forall s, In s tdeps -> is_sub g s = true -> get_result d' s = get_result d s) ->
  item_verdict (item_saver d true g tdeps) d' true g tdeps' = true.
Proof. intros H1 H2. apply group_item_iff. intros s Hs. split; auto. Qed.

(* a sub-task whose record holds another result, a sub-task that left or joined the group: the item is false *)
Theorem group_change_detected d d' g tdeps tdeps' s :
  is_sub g s = true ->
  (In s tdeps /\ In s tdeps' /\ get_result d' s <> get_result d s) \/ (In s tdeps /\ ~ In s tdeps') \/ (~ In s tdeps /\ In s tdeps') ->
  item_verdict (item_saver d true g tdeps) d' true g tdeps' = false.
Proof.
  intros Hs H. destruct (item_verdict (item_saver d true g tdeps) d' true g tdeps') eqn:E; auto.
  destruct (proj1 (group_item_iff d d' g tdeps tdeps') E s Hs) as [E1 E2]. destruct H as [(A & B & C) | [(A & B) | (A & B)]]; tauto.
Qed.

(* the single-task form is the one of Status.v *)
Lemma single_item_agrees d t src l :
  vget (get_values d t) (k_result src) = Some l ->
  eval_utd d t (UResultDep src) = Some (item_verdict (Some (RSingle l)) d false src []).
Proof.
  intros H. simpl. rewrite H. unfold GroupRes.item_verdict, GroupRes.dep_result, eval_result_dep. destruct l as [x|]; auto.
Qed.

(* ---- frame over histories (History.v): operations that do not write the record of a sub-task ---- *)
Variable md5 : N -> N.
Variable size_of : N -> Z.
Variable v : ver.

(* a file operation, a change of a definition or of the checker, or get_status / a recorded success / a failure or forget of a
   task that is not a sub-task of g *)
Definition off_group (g : name) (o : op) : Prop :=
  match o with
  | Write _ _ | Touch _ | Delete _ | WriteAt _ _ _ | TouchAt _ _ | WriteSameMtime _ _ | SetDef _ _ | SetChecker _ => True
  | Check t | SaveOk t | Remove t => is_sub g t = false
  | _ => False
  end.

Lemma step_write_db s o : s_db (step_write size_of s o) = s_db s.
Proof. unfold step_write. destruct (new_version size_of s o) as [[f m]|]; reflexivity. Qed.

Lemma off_group_step g s o x : off_group g o -> is_sub g x = true -> s_db (step md5 size_of v s o) x = s_db s x.
Proof.
  intros Ho Hx.
  assert (Hon : forall t, is_sub g t = false -> op_on t o -> s_db (step md5 size_of v s o) x = s_db s x).
  { intros t Ht Hop. apply (step_on_frame md5 size_of v s t o x Hop). intros ->. congruence. }
  destruct o; simpl in Ho; try contradiction;
    try (unfold step; rewrite step_write_db; reflexivity); try reflexivity.
  - apply (Hon t Ho). right; left; reflexivity.
  - apply (Hon t Ho). right; right; reflexivity.
  - apply (Hon t Ho). left; reflexivity.
Qed.

Lemma off_group_run g ops : forall s x, Forall (off_group g) ops -> is_sub g x = true ->
  s_db (run_from md5 size_of v s ops) x = s_db s x.
Proof.
  induction ops as [|o r IH]; intros s x H Hx; simpl; auto.
  inversion H as [|? ? H1 H2]; subst. rewrite (IH _ x H2 Hx). apply (off_group_step g); auto.
Qed.

(* whatever is executed, fails, is forgotten or edited outside the sub-tasks of g, the result of g is what it was ... *)
Theorem group_result_frame g tdeps ops s :
  Forall (off_group g) ops ->
  result_group (s_db (run_from md5 size_of v s ops)) g tdeps = result_group (s_db s) g tdeps.
Proof.
  intros H. apply result_group_ext. intros x _ Hx. unfold get_result, getrec. rewrite (off_group_run g ops s x H Hx). auto.
Qed.

(* ... and the item of a consumer that saved it is still true: a task_dep of the group that is not a sub-task may re-execute with
   any result (SetDef + file edit + Check + SaveOk), fail or be forgotten (Remove) -- the consumer is not re-executed because of it *)
Theorem group_item_frame g tdeps tdeps' ops s :
  Forall (off_group g) ops ->
  (forall x, is_sub g x = true -> (In x tdeps <-> In x tdeps')) ->
  item_verdict (item_saver (s_db s) true g tdeps) (s_db (run_from md5 size_of v s ops)) true g tdeps' = true.
Proof.
  intros H Hsame. apply group_second_look; auto.
  intros x _ Hx. unfold get_result, getrec. rewrite (off_group_run g ops s x H Hx). auto.
Qed.

End GroupResP.
