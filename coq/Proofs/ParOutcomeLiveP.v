(* ParOutcomeLiveP.v -- liveness of the parallel runners (ParLiveP / ParTermP) combined with completeness
   (ParHoldP) and outcome soundness (OutcomeSerialP / OutcomeParP): over a finite acyclic task table, with
   enough fuel, at least one worker and --continue, a parallel run that is not interrupted by an action reports
   EVERY selected task with exactly the outcome the specification derives from the task table -- hence the
   set of final reports of the selected tasks is the one of the serial run (C08, whole outcome for the
   selected tasks). *)
From DoitV Require Import Base Dispatch Runner Parallel DispatchP DispatchInv RunnerTr RunnerP AncP HoldP HoldG CompleteP
  ParallelP ParHoldP TermP LiveP OutcomeSpec OutcomeInvP OutcomeSerialP OutcomeParP OutcomeLiveP ParStepP ParLiveP ParTermP.
Open Scope N_scope.

Lemma pfinished_In log x : pfinished log x -> exists e, In (PE e) log /\ is_final_ev x e = true.
Proof.
  unfold pfinished. intros H. apply existsb_exists in H. destruct H as (pe & Hin & Hf).
  destruct pe; simpl in Hf; try discriminate. eauto.
Qed.

(* finite acyclic table, enough fuel, >= 1 worker, --continue: the run is interrupted by an action (exit code 4)
   or reports every selected task with the outcome of the specification *)
Theorem parallel_acyclic_right_outcome tasks univ sel :
  finite_table tasks univ -> (forall k, ~ reach tasks k k) ->
  forall wake_rank calc_rank always proc nprocs sched fuel,
  (0 < nprocs)%nat -> (par_enough_fuel tasks univ sel nprocs <= fuel)%nat ->
  let res := run_parallel tasks wake_rank calc_rank true always proc fuel nprocs sched sel in
  snd res = 4 \/ forall x, In x sel -> exists r, fin tasks always x r /\ In (PE (ev_of x r)) (fst res).
Proof.
  intros Hf Hac wake_rank calc_rank always proc nprocs sched fuel Hn Hfuel. cbv zeta.
  destruct (parallel_acyclic_continue_all_reported tasks univ sel Hf Hac wake_rank calc_rank always proc nprocs sched fuel Hn Hfuel) as [H|[_ H]]; auto.
  right. intros x Hx. destruct (pfinished_In _ _ (H x Hx)) as (e & Hin & He).
  destruct (parallel_outcome_sound tasks wake_rank calc_rank true always proc fuel nprocs sched sel x e Hin He) as (r & A & ->).
  exists r. auto.
Qed.

(* C08, whole outcome for the selected tasks: a parallel --continue run (threads or processes, any number
   >= 1 of workers, EVERY schedule) and a serial --continue run over the same finite acyclic table and
   selection, both with enough fuel, whatever the set-iteration oracles: unless an action interrupts one of
   them, the final reports of the selected tasks are THE SAME SET of events in both -- every selected task is
   reported in both, by the same reporter call with the same failure kind *)
Theorem parallel_serial_same_final_reports tasks univ sel :
  finite_table tasks univ -> (forall k, ~ reach tasks k k) ->
  forall wr1 cr1 wr2 cr2 always proc nprocs sched fuel1 fuel2,
  (0 < nprocs)%nat -> (par_enough_fuel tasks univ sel nprocs <= fuel1)%nat -> (enough_fuel tasks univ sel <= fuel2)%nat ->
  let par := run_parallel tasks wr1 cr1 true always proc fuel1 nprocs sched sel in
  let ser := run_serial tasks wr2 cr2 true always fuel2 sel in
  snd par = 4 \/ snd ser = 4 \/
  ((forall x, In x sel -> exists e, is_final_ev x e = true /\ In (PE e) (fst par) /\ In e (fst ser)) /\
   (forall x e, In x sel -> is_final_ev x e = true -> (In (PE e) (fst par) <-> In e (fst ser)))).
Proof.
  intros Hf Hac wr1 cr1 wr2 cr2 always proc nprocs sched fuel1 fuel2 Hn F1 F2. cbv zeta.
  destruct (parallel_acyclic_right_outcome tasks univ sel Hf Hac wr1 cr1 always proc nprocs sched fuel1 Hn F1) as [H1|H1]; auto.
  destruct (serial_acyclic_right_outcome tasks univ sel Hf Hac wr2 cr2 always fuel2 F2) as [H2|H2]; auto.
  right; right. split.
  - intros x Hx. destruct (H1 x Hx) as (r1 & A1 & I1). destruct (H2 x Hx) as (r2 & A2 & I2).
    exists (ev_of x r1). split; [apply ev_of_final|]. split; [exact I1|].
    rewrite (fin_functional tasks always x r1 A1 r2 A2). exact I2.
  - intros x e Hx He. destruct (H1 x Hx) as (r1 & A1 & I1). destruct (H2 x Hx) as (r2 & A2 & I2). split; intros Hin.
    + destruct (parallel_outcome_sound tasks wr1 cr1 true always proc fuel1 nprocs sched sel x e Hin He) as (r & A & ->).
      rewrite (fin_functional tasks always x r A r2 A2). exact I2.
    + destruct (serial_outcome_sound tasks wr2 cr2 true always fuel2 sel x e Hin He) as (r & A & ->).
      rewrite (fin_functional tasks always x r A r1 A1). exact I1.
Qed.

(* two parallel runs (different flavours / worker counts / schedules / oracles) likewise *)
Theorem parallel_runs_same_final_reports tasks univ sel :
  finite_table tasks univ -> (forall k, ~ reach tasks k k) ->
  forall wr1 cr1 wr2 cr2 always proc1 proc2 np1 np2 sched1 sched2 fuel1 fuel2,
  (0 < np1)%nat -> (0 < np2)%nat ->
  (par_enough_fuel tasks univ sel np1 <= fuel1)%nat -> (par_enough_fuel tasks univ sel np2 <= fuel2)%nat ->
  let r1 := run_parallel tasks wr1 cr1 true always proc1 fuel1 np1 sched1 sel in
  let r2 := run_parallel tasks wr2 cr2 true always proc2 fuel2 np2 sched2 sel in
  snd r1 = 4 \/ snd r2 = 4 \/
  forall x e, In x sel -> is_final_ev x e = true -> (In (PE e) (fst r1) <-> In (PE e) (fst r2)).
Proof.
  intros Hf Hac wr1 cr1 wr2 cr2 always proc1 proc2 np1 np2 sched1 sched2 fuel1 fuel2 N1 N2 F1 F2. cbv zeta.
  destruct (parallel_acyclic_right_outcome tasks univ sel Hf Hac wr1 cr1 always proc1 np1 sched1 fuel1 N1 F1) as [H1|H1]; auto.
  destruct (parallel_acyclic_right_outcome tasks univ sel Hf Hac wr2 cr2 always proc2 np2 sched2 fuel2 N2 F2) as [H2|H2]; auto.
  right; right. intros x e Hx He. destruct (H1 x Hx) as (r1 & A1 & I1). destruct (H2 x Hx) as (r2 & A2 & I2). split; intros Hin.
  - destruct (parallel_outcome_sound tasks wr1 cr1 true always proc1 fuel1 np1 sched1 sel x e Hin He) as (r & A & ->).
    rewrite (fin_functional tasks always x r A r2 A2). exact I2.
  - destruct (parallel_outcome_sound tasks wr2 cr2 true always proc2 fuel2 np2 sched2 sel x e Hin He) as (r & A & ->).
    rewrite (fin_functional tasks always x r A r1 A1). exact I1.
Qed.

Print Assumptions parallel_acyclic_right_outcome.
Print Assumptions parallel_serial_same_final_reports.
Print Assumptions parallel_runs_same_final_reports.
