(* WholeOutcomeEx.v -- non-vacuity of WholeOutcomeP.parallel_serial_same_whole_outcome by computation on the table
   ParLiveEx.exl:  0 depends on 1 and 2 (1 FAILS, is not selected);  3 has a setup-task 4 and a calc_dep 5 whose
   saved values add the task_dep 1.  Selection [0; 3].  The table is finite and acyclic (hypotheses of the theorem);
   both runs end with exit code 2; the failure of the NON-SELECTED task 1 is reported in both, and so are 2 and 5;
   the setup-task 4 is reported in NEITHER run: 3's first-selection verdict is `unmet dependency`, not `run`,
   so 4 is not active -- and the theorem turns that observation into ~ active. *)
From DoitV Require Import Base Dispatch Runner Parallel DispatchP DispatchInv RunnerTr RunnerP AncP ParallelP
  TermP ParTermP ParLiveEx OutcomeSpec OrderP WholeOutcomeP.
Open Scope N_scope.

Definition exl_rank (n : name) : N := match n with 0 => 0 | 3 => 0 | 1 => 2 | _ => 1 end.

Lemma exl_calc t c : eff_calc exl t c -> t = 3 /\ c = 5.
Proof.
  induction 1 as [c H|c c' _ IH H].
  - destruct t as [|p]; [destruct H|].
    repeat (destruct p as [p|p|]; simpl in H; try contradiction).
    destruct H as [<-|[]]. auto.
  - destruct IH as [-> ->]. simpl in H. destruct H.
Qed.

Lemma exl_ranked x y : eff_dep exl x y -> exl_rank x < exl_rank y.
Proof.
  intros [H|c Hc H].
  - unfold static_deps in H. destruct x as [|p]; [simpl in H; destruct H as [<-|[<-|[]]]; reflexivity|].
    repeat (destruct p as [p|p|]; simpl in H; try contradiction).
    destruct H as [<-|[<-|[]]]; reflexivity.
  - destruct (exl_calc x c Hc) as [-> ->]. simpl in H. destruct H as [<-|[]]. reflexivity.
Qed.

Lemma exl_acyclic : forall k, ~ reach exl k k.
Proof. exact (ranked_acyclic exl exl_rank exl_ranked). Qed.

Definition exl_par := run_parallel exl (fun _ _ => 0) (fun _ => 0) true false true (exl_fuel 2) 2 [1;1;0;1;1;1;0;1]%nat [0; 3].
Definition exl_ser := run_serial exl (fun _ _ => 0) (fun _ => 0) true false (enough_fuel exl [0; 1; 2; 3; 4; 5] [0; 3]) [0; 3].

Example whole_outcome_nonvacuous :
  finite_table exl [0; 1; 2; 3; 4; 5] /\ (forall k, ~ reach exl k k) /\
  snd exl_par = 2 /\ snd exl_ser = 2 /\
  In (PE (EFailure 1 kind_failed)) (fst exl_par) /\ In (EFailure 1 kind_failed) (fst exl_ser) /\
  In (PE (ESuccess 2)) (fst exl_par) /\ In (ESuccess 2) (fst exl_ser) /\
  In (PE (ESuccess 5)) (fst exl_par) /\ In (ESuccess 5) (fst exl_ser) /\
  existsb (pfinal 4) (fst exl_par) = false /\ existsb (is_final_ev 4) (fst exl_ser) = false.
Proof.
  split; [exact exl_finite|]. split; [exact exl_acyclic|].
  split; [vm_compute; reflexivity|]. split; [vm_compute; reflexivity|].
  split; [vm_compute; tauto|]. split; [vm_compute; tauto|].
  split; [vm_compute; tauto|]. split; [vm_compute; tauto|].
  split; [vm_compute; tauto|]. split; [vm_compute; tauto|].
  split; vm_compute; reflexivity.
Qed.

(* what the theorem adds to the computation: which tasks are active is decided by the table *)
Example whole_outcome_active :
  active exl false [0; 3] 1 /\ active exl false [0; 3] 5 /\ ~ active exl false [0; 3] 4.
Proof.
  destruct (parallel_serial_same_whole_outcome exl [0; 1; 2; 3; 4; 5] [0; 3] exl_finite exl_acyclic
              (fun _ _ => 0) (fun _ => 0) (fun _ _ => 0) (fun _ => 0) false true 2%nat [1;1;0;1;1;1;0;1]%nat
              (exl_fuel 2) (enough_fuel exl [0; 1; 2; 3; 4; 5] [0; 3]) (le_S 1 1 (le_n 1)) (le_n (exl_fuel 2)) (le_n (enough_fuel exl [0; 1; 2; 3; 4; 5] [0; 3])))
    as [H|[H|(_ & B & _)]].
  - exfalso. revert H. vm_compute. discriminate.
  - exfalso. revert H. vm_compute. discriminate.
  - split; [|split].
    + apply B. exists (EFailure 1 kind_failed). split; [reflexivity|]. split; vm_compute; tauto.
    + apply B. exists (ESuccess 5). split; [reflexivity|]. split; vm_compute; tauto.
    + intros H. apply B in H. destruct H as (e & Hf & _ & Hin).
      pose proof (proj2 (existsb_exists (is_final_ev 4) _) (ex_intro _ e (conj Hin Hf))) as X.
      revert X. vm_compute. discriminate.
Qed.

Print Assumptions whole_outcome_nonvacuous.
Print Assumptions whole_outcome_active.
