(* CycleP.v -- a task that lies on a dependency cycle (through task_dep / calc_dep edges) never gets a
   final report and is never executed, in any serial run. *)
From DoitV Require Import Base Dispatch Runner DispatchP DispatchInv RunnerTr RunnerP.
Open Scope N_scope.

Section C.
Variable tasks : name -> option task.

Notation deps12 := (deps12 tasks).
Notation static_deps := (static_deps tasks).
Notation fordered := (fordered tasks).
Notation ordered := (ordered tasks).

(* x depends on y through one or more task_dep / calc_dep edges *)
Inductive reach12 : name -> name -> Prop :=
| r_step x y : In y (deps12 x) -> reach12 x y
| r_trans x y z : In y (deps12 x) -> reach12 y z -> reach12 x z.

Lemma finished_in_split pre y :
  finished_in pre y -> exists p1 e p2, pre = p1 ++ e :: p2 /\ is_final_ev y e = true.
Proof.
  unfold finished_in. intros H. apply existsb_exists in H. destruct H as [e [Hin He]].
  apply in_split in Hin. destruct Hin as [p1 [p2 ->]]. exists p1, e, p2. auto.
Qed.

Lemma finished_in_prefix p1 e p2 z : finished_in p1 z -> finished_in (p1 ++ e :: p2) z.
Proof. apply finished_in_app. Qed.

(* a final report of k is preceded by a final report of everything k reaches *)
Lemma final_reach tr : fordered tr ->
  forall k y, reach12 k y ->
  forall pre e post, tr = pre ++ e :: post -> is_final_ev k e = true -> finished_in pre y.
Proof.
  intros Hf k y Hr. induction Hr as [x y Hy|x y z Hy Hr IH]; intros pre e post E He.
  - eapply fordered_split; eauto.
  - assert (Hfy : finished_in pre y) by (eapply fordered_split; eauto).
    destruct (finished_in_split pre y Hfy) as (p1 & e1 & p2 & -> & He1).
    apply finished_in_prefix. eapply (IH p1 e1 (p2 ++ e :: post)); auto.
    rewrite E. rewrite <- app_assoc. reflexivity.
Qed.

(* no final report for a task on a cycle: infinite descent on the position of the report *)
Lemma cycle_no_final tr k : fordered tr -> reach12 k k ->
  forall n pre e post, length pre = n -> tr = pre ++ e :: post -> is_final_ev k e = true -> False.
Proof.
  intros Hf Hc n. induction n as [n IHn] using lt_wf_ind. intros pre e post Hn E He.
  pose proof (final_reach tr Hf k k Hc pre e post E He) as Hk.
  destruct (finished_in_split pre k Hk) as (p1 & e1 & p2 & Ep & He1).
  apply (IHn (length p1)) with (pre := p1) (e := e1) (post := p2 ++ e :: post); auto.
  - subst. rewrite app_length. simpl. lia.
  - rewrite E, Ep. rewrite <- app_assoc. reflexivity.
Qed.

Lemma reach12_first k : reach12 k k -> exists d, In d (deps12 k) /\ (d = k \/ reach12 d k).
Proof. intros H. inversion H; subst; eauto. Qed.

Lemma cycle_no_exec tr k : fordered tr -> ordered tr -> reach12 k k ->
  forall pre post, tr = pre ++ EExecute k :: post -> False.
Proof.
  intros Hf Ho Hc pre post E.
  destruct (reach12_first k Hc) as (d & Hd & Hdk).
  assert (Hfd : finished_in pre d).
  { eapply ordered_split; eauto. unfold RunnerP.static_deps, RunnerP.deps12 in *. rewrite app_assoc. apply in_app_iff. left. exact Hd. }
  destruct (finished_in_split pre d Hfd) as (p1 & e1 & p2 & Ep & He1).
  assert (E1 : tr = p1 ++ e1 :: (p2 ++ EExecute k :: post)) by (rewrite E, Ep, <- app_assoc; reflexivity).
  destruct Hdk as [->|Hdk].
  - eapply cycle_no_final; eauto.
  - pose proof (final_reach tr Hf d k Hdk p1 e1 _ E1 He1) as Hk.
    destruct (finished_in_split p1 k Hk) as (q1 & e2 & q2 & Eq & He2).
    eapply (cycle_no_final tr k Hf Hc (length q1) q1 e2 (q2 ++ e1 :: p2 ++ EExecute k :: post)); auto.
    rewrite E1, Eq, <- app_assoc. reflexivity.
Qed.

End C.

Theorem serial_cycle_never_runs tasks wake_rank calc_rank continue_ always fuel sel k :
  reach12 tasks k k ->
  let tr := fst (run_serial tasks wake_rank calc_rank continue_ always fuel sel) in
  (forall pre post, tr <> pre ++ EExecute k :: post) /\
  (forall pre e post, tr = pre ++ e :: post -> is_final_ev k e = false).
Proof.
  intros Hc tr. split.
  - intros pre post E. eapply cycle_no_exec; eauto.
    + apply serial_final_order.
    + apply serial_dep_order.
  - intros pre e post E. destruct (is_final_ev k e) eqn:He; auto. exfalso.
    eapply cycle_no_final; eauto. apply serial_final_order.
Qed.
