"""C20 -- introspection commands are read-only and agree with run.

Everything goes through the REAL commands, in-process: DoitMain(ModuleTaskLoader(namespace)).run(argv)
with an explicit dep_file inside a temp dir, on each backend (json, dbm, sqlite3).

States are built by histories of real steps:
    Write f c | Touch f | Delete f (files with mtimes from the harness clock, os.utime) | SetDef t def |
    SetChecker ck | Run [tasks] (doit run --continue, instrumented python-actions, some failing) |
    Forget t | ForgetAll | Ignore t | ResetDep t   (the real commands) | SetVals k values (what calc task k returns from now on)
and at every `Probe` a batch of read-only commands is executed:
    list [-s] [--all] [-p] [--deps] [--sort definition] [-q] [TASK..], info [--no-status] TASK, help [X],
    dumpdb (dbm), tabcompletion -s bash|zsh [--hardcode-tasks], clean --dry-run [-c] [-a] [--forget] [TASK]
each between two snapshots of (a) the logical DB content read through a fresh Dependency (whole
record of every task id) and (b) the file tree (names, sizes, mtimes, sha1; the directory holding
the DB files excluded), with a record of every instrumented action that ran.  The probe ends with
`list -s --all -p`, `info T` for every task and an immediately following `doit run --continue`
with a recording reporter (which also keeps the Task objects the dispatcher worked on).

A file dependency that left file_dep and is back (scripted(), every seed): file_dep [f0, f1] / [f0] / [f0, f1], f1 untouched:
the record still holds the state of f1 saved two executions ago; `info` says the task is not up-to-date because f1 was added
AND (the repaired loop of get_status, fixC of Model/Status.v) lists f1 among the changed dependencies -- it was not a dependency
of the last successful execution; true_reasons (the oracle) reads "changed" that way: no saved state, or not in the saved
'deps:' list, or modified by the checker's rule (C20_info_reasons_changed).

A missing file dependency (scripted(), every seed, the three backends): together with a modified one, with an uptodate item
that is false, with a missing target, with a changed SET of file_dep (the added one is the missing one), with a changed checker.
`run` / `list -s` decide at the FIRST reason get_status meets (DependencyError for the missing file unless a reason for 'run'
came before the loop over file_dep); `info` (get_log=True) collects every reason and -- since the repair of DependencyStatus,
fixL of Model/Status.v -- keeps the status the first one decided: its status line is what the run does (shape
info-status-differs-missing-file-dep when it is not: the later reason overwrote the status; C20_info_agrees,
C20_info_cmd_agrees, on the code before the repair C20_info_agrees_legacy_refuted).

Ignore mark + checker switch (ignore_switch_scripted, every seed, the three backends; ignore_switch_tail on random histories):
`run; ignore t; SetChecker <the other one>; Ask <ONE status query>` where step `Ask` is a single `list -s ...` / `info T`
between the two snapshots, immediately followed by the run the letters / the verdict are compared with.  md5 -> timestamp and
timestamp -> md5; the query about the ignored task, about ANOTHER task, about everything, about the sub-tasks of an ignored
group, about one ignored sub-task.  `run` tests the ignore mark before anything else, so the record of an ignored task is never
part of the documented invalidation: the frame oracle does not accept its removal (shape readonly-removed-ignore-mark; the dbm
backend writes the removal through at once), nor the removal of a record of a task the command was not asked about.

Worlds with chains / trees of calc_dep tasks (shape['chain']; chain_scripted, gen_chain_history): calc tasks K1..K4 whose
action returns -- and so saves -- {'file_dep': [...], 'calc_dep': [names], 'task_dep': [names]} (any subset of the keys),
consumers A, B declaring calc_dep on some of them, plain tasks S1, S2 that only occur as contributed task_dep.  Depth 1-3
(a dependency only found through the values of a calc task that was itself only found through the values of another one),
diamonds and sharing, back / self references and repeats in the saved lists, a saved name that is not a task, a calc task
with a declared calc_dep of its own, values that change between two executions, a forgotten / ignored link.  The first three
scripted shapes run on the three backends (quick), all of them in the thorough tier.

The FILES of the DB (file-level frame; implementation side only -- the model and the frame theorems of Properties/C20.v speak about
the logical DB in memory and "on disk" ([persisted]), not about files, bytes or mtimes).  Around EVERY read-only command of every
history, probe, Ask, Frame step and clean-list world, on every backend: every file in the directory of the DB (json: the one file;
dbm = dbm.dumb here: .dat / .dir / .bak; sqlite3: the file and, during a transaction, its -journal) is given a known old mtime
(os.utime) and snapshotted (name, size, st_mtime_ns, sha1) just before the command; after it -- and after what the end of the
process does to the DB object (dropped, never closed: end_of_process) -- the set of files, their bytes and their mtimes must be what
they were: no file created when there was none, nothing re-written (shape readonly-db-file-touched).  What the unchanged code does for
the documented exception, and so the only thing accepted (file_frame): get_status removes the record of a task saved by another
checker; DbmDB.remove writes that through at once (`del self._dbm[task_id]`: dbm.dumb re-writes .dir / .bak, .dat stays), JsonDB
keeps it in memory and SqliteDB in a transaction that is never committed -- on json and sqlite3 the files stay byte-identical in
that case too.  (The snapshot of the logical DB taken before the command opens a fresh Dependency: DbmDB / SqliteDB create their
empty files when there are none, JsonDB does not -- "no file created when there was none" is observed on the json backend.)
Step `Frame` (file_frame_scripted: every seed, the three backends; no DB at all / after a run / after ignore + checker switch)
executes a FIXED list with every kind of read-only command (list with and without -s / --deps / --all, info, clean --dry-run,
help TASK, tabcompletion, dumpdb) between these snapshots, without the model.
KNOWN finding (shape dryrun-clean-rewrites-json-db, stays printed): `clean --dry-run` ends with dep_manager.close()
(cmd_clean.py:65) -- on the json backend the file is created / re-written / a concurrent run's state overwritten.

A run of ANOTHER PROCESS while a read-only command is in progress (class Interleave, interleave_scenarios: systematic, every seed,
json backend -- the whole file is read when the command opens the DB): tasks V and W; the task-creator of W (called after the
command opened the DB), or an uptodate callable of V that `list -s` / `info V` evaluates, runs a complete `python -m doit run W`
in a sub-process against the same DB file.  After the command returned the DB file must be, byte for byte, what the sub-process
left and the next `doit run W` must find W up-to-date (shape readonly-overwrote-concurrent-run).  Prior states: no DB file / only V
saved / W saved and its file_dep modified since.  Commands: list [-s] [--deps --all -p], info [--no-status], help TASK,
tabcompletion --hardcode-tasks, clean -n (the known finding above).

Independent oracles (out.violations; no use of the model):
  * no task action and no clean action without a `dryrun` parameter ran; file tree identical;
    logical DB content identical -- or identical minus tasks whose stored 'checker:' differs from the
    configured checker (the documented invalidation), that do NOT carry the ignore mark, and that the command was asked about;
    the files of the DB identical (set, bytes, mtimes; see above); the state saved by a concurrent run still there;
  * for every task whose dependencies (task_dep, setup, calc_dep) were all skipped up-to-date by the
    run: letter of `list -s` == verdict of `info` == what the run did (R executed, U skipped
    up-to-date, I skipped ignored, E DependencyError while checking);
  * every reason `info` prints is true of the file system / DB / definition `run` uses, and every
    such fact is printed (conditions recomputed here from the raw DB record and os.stat; the definition `run` uses
    = the declared one plus the closure of the values saved by the calc_dep tasks, calc_closure, read from the raw records);
  * for a task with calc_dep whose dependencies were all skipped up-to-date: the file_dep / calc_dep / task_dep that `info`
    lists (the Task object after cmd_base.merge_calc_dep) are those of the Task object the run checked, and these are the
    closure of the saved values.

Correspondence with Model/Introspect.v: for every list / info command the model is evaluated inside
Coq on the state read back just before the command (configured checker, file system of the known
files, logical DB content, the task table as the real loader produced it) and must give the same
lines, the same outcome and the same DB on disk afterwards; `run_decision` (with `run_def` merging
the calc_dep results to a fix-point) must predict what the run did; `info_attrs` must give the dependency entries of the
attribute listing of `info`, and `merged` the Task object the run checked (enc_mtask).  help/dumpdb/tabcompletion/clean --dry-run
are compared with `noop_cmd`.

Encoding (list of ints; see enc_lres / enc_ires in Introspect.v, rec_z in History.v):
  list:  [0] ++ lines ++ [-7] ++ DB  |  [1; name] "is not a task"  |  [2; name] KeyError  |  [98] ...
         line = [1; task; 0 | 1 I | 2 U | 3 R | 4 E]  |  [2; file] (--deps)  |  [3] (blank)
  info:  [0; status (0 up-to-date 1 run 2 error, -1 hidden); return code] ++ lines ++ [-7] ++ DB | [1] | [2; name]
         line = [10] no deps | [11] uptodate header | [12] uptodate item | [13; 10*prev+cur] checker |
                [20+k] header, [30+k; file] item, k = 0 missing target 1 changed 2 missing dep 3 removed 4 added
  DB:    per task id [0] | [1; mask(deps) or -1; len(deps) or -1; checker; result id or -1; ignore] ++ 4 ints per
         dependency file ++ one int per value key
  run:   [1 I | 2 U | 3 R | 4 E] per compared task
  task:  [0] sorted file_dep -1 sorted calc_dep ids -1 sorted task_dep ids (a multiset)  |  [95] out of fuel   (enc_mtask)

clean --dry-run over clean LISTS (CleanWorld / CleanRunner below; model: Introspect.v, last part, `cclean_cmd`)
  Worlds of up to 9 tasks (T0 T1 T2, group G with G:a G:b, _P, C, D) with random task_dep / setup edges, an optional
  DOIT_CONFIG default_tasks, and for every task `clean: True`, no clean, or a LIST of clean actions of the kinds
      T  doit.task.clean_targets (the real function, unwrapped)
      D  python callable WITH a `dryrun` parameter (4 signatures), instrumented: records the flag it got and touches
         files only when the flag is false
      P  python callable WITHOUT it (3 signatures; some return False), removes / creates files
      S  shell command (string, argument list or CmdAction object; some exit 1) that removes / creates files
  every sequence over {T,D,P,S} up to length 3 (thorough: 4) occurs as some task's list, longer ones at random.
  After a real `run` (and some `forget`s / deleted files) a batch of `clean -n` commands with every combination of
  -c / -a / --forget and positional selections (names, wild-cards, unknown name) is executed through DoitMain, each
  between two snapshots of the file tree and of the logical DB.  What is invoked is recorded without touching doit:
  a sys.setprofile hook notes every call of Task.clean, PythonAction.execute, CmdAction.execute and clean_targets
  (with the position in the command's output, so that hook records and printed lines form ONE sequence); the
  instrumented callables add the flag they received.  The world ends with one real clean and a dry-run after it.
  Oracle (no model): on a dry-run no cmd-action and no python-action of kind P is invoked, every D / clean_targets
  call got dryrun=True, no task action ran, file tree and DB records are identical.
  Encoding (enc_cres): [0] cleaned ids -1 events -1 one 0/1 per file 0..14 -7 DB | [96] InvalidCommand | [97] KeyError
      events: [1; t; dryrun] Task.clean entered | [2; t; i] "t - executing '...'" (i-th of t) |
              [3; t; i; 0/1 flag received, 2 no dryrun parameter / cmd] action i executed | [4; t; f] "t - removing file 'f'"

clean --dry-run over targets that are DIRECTORIES (harness/c20_dirs.py, part `clean-dirs`; model: Model/Clean.v's command)
  Trees of directories and files that are targets (of one task, of two, of none), created by a real run and then changed by hand
  (files deleted, directories emptied / removed / given foreign content); `clean -n` with every option combination between
  snapshots of the whole tree (directories included), the DB records and the DB files; see the module's docstring.
"""
import contextlib, gc, hashlib, io, json, os, re, shutil, sys, time
import common
from common import Outcome

BASE = 1600000000
CONTENT = {0: b'aaaa', 1: b'bbbb', 2: b'cc', 3: b'dddd', 4: b''}
DIGEST = {hashlib.md5(b).hexdigest(): c for c, b in CONTENT.items()}
RESULT_MD5 = {hashlib.md5(('res%d' % i).encode()).hexdigest(): i for i in range(8)}
NAME_ID = {'T0': 0, 'T1': 1, 'T2': 2, 'G': 3, 'G:a': 4, 'G:b': 5, '_P': 6, 'C': 7, 'D': 8, 'X': 9,
           'K1': 10, 'K2': 11, 'K3': 12, 'K4': 13, 'A': 14, 'B': 15, 'S1': 16, 'S2': 17, 'zz': 20, 'nope': 21}
ID_NAME = {v: k for k, v in NAME_ID.items()}
TASK_IDS = list(range(10))
TASK_IDS_K = list(range(18))      # worlds with calc_dep chains (K1..K4 calc tasks, A B consumers, S1 S2 contributed task_dep)
DEP_FILES = [0, 1, 2, 3, 4]           # f0..f3 file deps, f4 = file_dep of the calc task C; 5..7 = targets g0..g2
VKEYS = ['run-once', '_config_changed', 'u0', 'u1', 'u2', '_result:T0', '_result:T1', '_result:T2']
VKEY_N = [0, 1, 2, 4, 6, 3, 5, 7]
CK_NAME = {'md5': 'MD5Checker', 'ts': 'TimestampChecker'}
CK_OPT = {'md5': 'md5', 'ts': 'timestamp'}
CK_Z = {'MD5Checker': 1, 'TimestampChecker': 2, None: 0}
BACKEND_OPT = {'json': 'json', 'dbm': 'dbm', 'sqlite': 'sqlite3'}
BACKEND_COQ = {'json': 'BJson', 'dbm': 'BDbm', 'sqlite': 'BSqlite'}
STATUS_Z = {'up-to-date': 0, 'run': 1, 'error': 2, 'ignored': 3}
LETTER_Z = {'I': 1, 'U': 2, 'R': 3, 'E': 4}

PRE = ('From DoitV Require Import Base Status History Introspect.\nFrom DoitV Require Clean.\nOpen Scope Z_scope.\n'
       'Definition md5o (c : N) : N := c.\n'
       'Definition TASKS : list name := [0;1;2;3;4;5;6;7;8;9]%N.\n'
       'Definition TASKSK : list name := [0;1;2;3;4;5;6;7;8;9;10;11;12;13;14;15;16;17]%N.\n'
       'Definition CV (fd : list file) (cd td : list name) : cvals := {| cv_file_dep := fd; cv_calc_dep := cd; cv_task_dep := td |}.\n'
       'Definition FILES : list file := [0;1;2;3;4]%N.\n'
       'Definition LO (a s p dd sn : bool) (pos : list name) : lopts := '
       '{| o_subtasks := a; o_status := s; o_private := p; o_list_deps := dd; o_sort_name := sn; o_pos := pos |}.\n'
       'Definition LT (n : name) (pv : bool) (sub : option name) (td cd : list name) (df : tdef) : ltask := '
       '{| l_name := n; l_private := pv; l_subtask_of := sub; l_task_dep := td; l_calc_dep := cd; l_def := df |}.\n'
       'Definition DF (fd tg : list file) (u : list utd) : tdef := '
       '{| file_dep := fd; targets := tg; uptodate := u; act_values := []; act_result := None |}.\n'
       'Definition RC (dp : option (list file)) (ck : option ck) (sv : file -> option fstate) (vl : vals) (rs : option N) (ig : bool) : rec := '
       '{| r_deps := dp; r_checker := ck; r_saved := sv; r_values := vl; r_result := rs; r_ignore := ig |}.\n'
       'Definition FM (m s : Z) (c : N) : option meta := Some {| mtime := m; size := s; content := c |}.\n'
       'Definition CFILES : list file := [0;1;2;3;4;5;6;7;8;9;10;11;12;13;14]%N.\n'
       'Definition fm (tab : list (list N)) (n : N) (p : N) : bool := mem n (nth (N.to_nat p) tab []).\n'
       'Definition CT (n : name) (td su : list name) (sub : option name) (cl : option (list cact)) (tg : list file) : ctask := '
       '{| ct_name := n; ct_task_dep := td; ct_setup := su; ct_subtask_of := sub; ct_clean := cl; ct_targets := tg |}.\n'
       'Definition CO (dry cd ca fg : bool) (pos : list (Clean.sel N)) (sl : option (list (Clean.sel N))) : Clean.opts N := '
       '{| Clean.o_dryrun := dry; Clean.o_cleandep := cd; Clean.o_cleanall := ca; Clean.o_forget := fg; Clean.o_pos := pos; Clean.o_sel := sl |}.\n'
       'Definition CW (fs : cfs) (d : db) : cworld := {| c_fs := fs; c_db := d; c_ev := [] |}.\n'
       'Definition DRY (ops : list fop) : cact := CPyDry (fun d : bool => if d then [] else ops).\n'
       'Definition SN (n : N) : Clean.sel N := Clean.SName n.\nDefinition SP (p : N) : Clean.sel N := Clean.SPat p.\n'
       # clean --dry-run over targets that are directories (c20_dirs.py): Model/Clean.v's table and world
       'Definition KT (n : name) (td su : list name) (sub : option name) (cl : option (list bool)) (tg : list Clean.path) : Clean.task := '
       '{| Clean.t_name := n; Clean.t_task_dep := td; Clean.t_setup := su; Clean.t_subtask_of := sub; Clean.t_clean := cl; Clean.t_targets := tg |}.\n'
       'Definition KW (fs : Clean.fsys) (d : list name) : Clean.world := {| Clean.w_fs := fs; Clean.w_db := d; Clean.w_ev := [] |}.\n')

OLD_NS = (BASE - 10 ** 6) * 10 ** 9      # the mtime every DB file is given just before a read-only command (file-level frame)
KNOWN_DRYRUN_CLOSE = 'dryrun-clean-rewrites-json-db'

RAN = []          # names of tasks whose (instrumented) action ran
CLEANED = []      # (task, kind, dryrun) of clean actions that ran
TRACE = []        # clean commands: hook records and callable records, in order (see CleanTrace)


_IDX = [0]


def next_idx():
    _IDX[0] += 1
    return _IDX[0]


def mask(xs):
    m = 0
    for x in xs:
        m |= 1 << x
    return m


# ------------------------------------------------------------------ recording reporter
class RecReporter:
    log = None
    tasks = None
    desc = 'recording'

    def __init__(self, outstream, options):
        pass

    def initialize(self, tasks, selected_tasks):
        RecReporter.tasks = tasks          # the Task objects the dispatcher works on (and merges calc_dep results into)

    def get_status(self, task):
        pass

    def execute_task(self, task):
        RecReporter.log.append(('execute', task.name, None))

    def add_failure(self, task, fail):
        RecReporter.log.append(('failure', task.name, type(fail).__name__))

    def add_success(self, task):
        RecReporter.log.append(('success', task.name, None))

    def skip_uptodate(self, task):
        RecReporter.log.append(('uptodate', task.name, None))

    def skip_ignore(self, task):
        RecReporter.log.append(('ignore', task.name, None))

    def cleanup_error(self, exception):
        RecReporter.log.append(('cleanup_error', None, None))

    def runtime_error(self, msg):
        RecReporter.log.append(('runtime_error', None, None))

    def teardown_task(self, task):
        pass

    def complete_run(self):
        pass


# ------------------------------------------------------------------ who is invoked during a clean command
class CleanTrace:
    """sys.setprofile hook (doit itself is not patched or wrapped): every call of Task.clean, PythonAction.execute,
    CmdAction.execute and doit.task.clean_targets is appended to TRACE with the current length of the command's
    output, so that these records and the printed lines can be merged into one sequence.
        ('clean', task, dryrun, pos) | ('exec', task, index in task.clean_actions or None, 'py'|'cmd', pos) |
        ('targets', task, dryrun, pos);   the instrumented callables add ('got', task, index, flag or None)"""
    def __init__(self, buf):
        self.buf = buf

    def __enter__(self):
        from doit import task as T, action as A
        self.codes = {T.Task.clean.__code__: 'clean', T.clean_targets.__code__: 'targets',
                      A.PythonAction.execute.__code__: 'py', A.CmdAction.execute.__code__: 'cmd'}
        del TRACE[:]
        sys.setprofile(self.hook)
        return self

    def hook(self, frame, event, arg):
        if event != 'call':
            return
        k = self.codes.get(frame.f_code)
        if k is None:
            return
        loc, pos = frame.f_locals, self.buf.tell()
        if k == 'clean':
            TRACE.append(('clean', loc['self'].name, loc.get('dryrun'), pos))
        elif k == 'targets':
            TRACE.append(('targets', getattr(loc.get('task'), 'name', None), loc.get('dryrun'), pos))
        else:
            act = loc['self']
            t = getattr(act, 'task', None)
            idx = None
            for i, a in enumerate(getattr(t, 'clean_actions', ()) or ()):
                if a is act:
                    idx = i
            TRACE.append(('exec', getattr(t, 'name', None), idx, k, pos))

    def __exit__(self, *a):
        sys.setprofile(None)
        return False


# ------------------------------------------------------------------ the files of the DB around a read-only command
def _no_conv(data):
    return data


def end_of_process(backend):
    """What the end of the doit process does to the DB object: it is dropped without close().  SqliteDB registers a converter
    closure (holding the SqliteDB, so its connection) in the sqlite3 module: in-process the connection of the previous command
    would stay open -- with its uncommitted transaction and the -journal file -- until the next SqliteDB is created."""
    if backend == 'sqlite':
        import sqlite3
        sqlite3.register_converter('json', _no_conv)
    gc.collect()


def cache_entry_points():
    """Every doit command object asks importlib.metadata.entry_points(group=...) for plugins (doit/plugin.py 100-109): a scan of the
    metadata of every installed distribution, ~18 ms per command, more than everything else a read-only command does.  The set of
    installed distributions does not change during a check: the answers are memoised per group (an environment oracle, not doit code)."""
    import importlib.metadata as M
    if getattr(M.entry_points, '_c20_memo', None) is not None:
        return
    real, memo = M.entry_points, {}

    def entry_points(**params):
        k = tuple(sorted(params.items()))
        if k not in memo:
            memo[k] = real(**params)
        return memo[k]
    entry_points._c20_memo = memo
    M.entry_points = entry_points


def dbfile_changes(before, after):
    """[(file, 'created' | 'removed' | 'content changed' | 're-written (same bytes, new mtime)')]"""
    res = []
    for f in sorted(set(before) | set(after)):
        a, b = before.get(f), after.get(f)
        if a == b:
            continue
        if a is None:
            res.append((f, 'created (%d bytes)' % b[0]))
        elif b is None:
            res.append((f, 'removed'))
        elif a[2] != b[2]:
            res.append((f, 'content changed'))
        else:
            res.append((f, 're-written (same bytes, new mtime)'))
    return res


def file_frame(out, backend, label, is_dry_clean, before, after, documented_removal):
    """File-level frame of a read-only command: the set of files of the DB, their bytes and their mtimes are what they were.
    What the unchanged code does, and so the only thing accepted: the dbm backend writes the documented invalidation (record of
    a task saved by another checker, removed by get_status) through at once (`del self._dbm[task_id]`: dbm.dumb re-writes
    .dir / .bak); json keeps it in memory and sqlite3 in a transaction that is never committed -- their files stay as they are.
    -> None | (shape, sentence)"""
    ch = dbfile_changes(before, after)
    if not ch:
        out.count('db-files-identical:%s%s' % (backend, '' if before else ':no-db-file'))
        return None
    if backend == 'dbm' and documented_removal and all(f in after for f in before):
        out.count('db-files-written-through-checker-change:dbm')
        return None
    what = '`%s` touched the files of the dependency DB (%s backend%s): %s' % (
        label, backend, '' if before else ', no DB file before', ', '.join('%s %s' % c for c in ch))
    if backend == 'json' and is_dry_clean:
        # Clean.clean_tasks ends with dep_manager.close() also on a dry-run: JsonDB.dump re-writes the whole file
        return KNOWN_DRYRUN_CLOSE, what + ' -- Clean.clean_tasks calls dep_manager.close() on a dry-run too, JsonDB.dump writes the snapshot read at start'
    if backend == 'sqlite' and documented_removal:
        what += ' (the removal of a record saved by another checker is left uncommitted by the unchanged code)'
    return 'readonly-db-file-touched', what


# ------------------------------------------------------------------ the world: one history on one backend
class World:
    def __init__(self, ctx, backend, shape):
        self.dir = ctx.subdir('c20w')        # one directory for every history: the path strings fix the set orders
        for f in os.listdir(self.dir):
            p = os.path.join(self.dir, f)
            shutil.rmtree(p) if os.path.isdir(p) else os.remove(p)
        self.dbdir = os.path.join(self.dir, '_db')
        os.makedirs(self.dbdir)
        self.backend = backend
        self.dbpath = os.path.join(self.dbdir, 'deps.' + backend)
        self.ck = 'md5'
        self.clock = 1
        self.shape = shape                   # dict(group, private, calc, d_own, dangling)
        self.defs = {t: dict(file_dep=[], target=False, uptodate=[], values=[], result=None) for t in range(3)}
        self.fsview = {}
        self.fails = set()
        ch = shape.get('chain')
        self.task_ids = TASK_IDS_K if ch else TASK_IDS
        self.tasks_coq = 'TASKSK' if ch else 'TASKS'
        # what the action of each calc task returns at the moment (step SetVals changes it)
        self.kvals = {k: {a: list(b) for a, b in t.get('vals', {}).items()} for k, t in (ch or {}).items()}

    # ---- files
    def path(self, f):
        return os.path.join(self.dir, ('f%d' % f) if f < 5 else ('g%d' % (f - 5)))

    def fileno(self, p):
        b = os.path.basename(p)
        if os.path.dirname(p) != self.dir or not re.fullmatch(r'[fg]\d', b):
            raise ValueError('unknown path ' + p)
        return int(b[1:]) + (5 if b[0] == 'g' else 0)

    def write(self, f, c, m=None):
        if m is None:
            m = self.clock
            self.clock += 1
        p = self.path(f)
        with open(p, 'wb') as fh:
            fh.write(CONTENT[c])
        ns = (BASE + m) * 10 ** 9
        os.utime(p, ns=(ns, ns))
        self.fsview[f] = (m, len(CONTENT[c]), c)

    def touch(self, f):
        if f in self.fsview:
            self.write(f, self.fsview[f][2])
        else:
            self.clock += 1

    def delete(self, f):
        if f in self.fsview:
            os.remove(self.path(f))
            del self.fsview[f]

    # ---- the dodo namespace
    def make_utd(self, u):
        from doit import tools, task as T
        k = u[0]
        if k == 'bool':
            return u[1]
        if k == 'none':
            return None
        if k == 'call':
            r = u[1]
            return lambda: r
        if k == 'run_once':
            return tools.run_once
        if k == 'config':
            return tools.config_changed('cfg%d' % u[1])
        if k == 'result_dep':
            return T.result_dep('T%d' % u[1])
        raise ValueError(u)

    def namespace(self):
        w = self
        ns = {'DOIT_CONFIG': {'dep_file': w.dbpath, 'backend': BACKEND_OPT[w.backend],
                              'check_file_uptodate': CK_OPT[w.ck], 'reporter': RecReporter, 'verbosity': 0, 'continue': True}}

        def action(name, targets=(), result=None, values=None):
            def act():
                RAN.append(name)
                if name in w.fails:
                    return False
                for g in targets:
                    w.write(g, 2)
                if values is not None:
                    return dict(values)
                return True if result is None else result
            return act

        def clean_plain(name):
            def c():
                CLEANED.append((name, 'plain', None))
            return c

        def clean_dry(name):
            def c(dryrun):
                CLEANED.append((name, 'takes-dryrun', dryrun))
                if not dryrun:
                    with open(os.path.join(w.dir, 'cleaned-' + name), 'w') as fh:
                        fh.write('x')
            return c

        def plain(t):
            def creator():
                d = w.defs[t]
                name = 'T%d' % t
                acts = []
                if d['values']:
                    acts.append((action(name, values={('u%d' % k): x for k, x in d['values']}),))
                acts.append((action(name, targets=[5 + t] if d['target'] else [],
                                    result=None if d['result'] is None else 'res%d' % d['result']),))
                return {'actions': acts, 'file_dep': [w.path(f) for f in sorted(d['file_dep'])],
                        'targets': [w.path(5 + t)] if d['target'] else [],
                        'uptodate': [w.make_utd(u) for u in d['uptodate']],
                        'clean': [True, [clean_dry(name), clean_plain(name)], [clean_dry(name)]][t]}
            creator.__name__ = 'task_T%d' % t
            return creator
        if not w.shape.get('chain'):
            for t in range(3):
                ns['task_T%d' % t] = plain(t)
        for cname, ct in (w.shape.get('chain') or {}).items():
            # K*: calc tasks, the dict their action returns = the values they save; A B: tasks with calc_dep; S*: plain tasks
            def chain_task(cname=cname, ct=ct):
                d = {'file_dep': [w.path(f) for f in ct.get('fd', [])]}
                if cname in w.kvals and 'vals' in ct:
                    kv = w.kvals[cname]
                    vals = {k: ([w.path(f) for f in x] if k == 'file_dep' else list(x)) for k, x in kv.items()}
                    d['actions'] = [(action(cname, values=vals),)]
                else:
                    d['actions'] = [(action(cname),)]
                if ct.get('calc'):
                    d['calc_dep'] = list(ct['calc'])
                if ct.get('td'):
                    d['task_dep'] = list(ct['td'])
                return d
            chain_task.__name__ = 'task_' + cname
            ns['task_' + cname] = chain_task
        if w.shape.get('group'):
            def task_G():
                yield {'name': 'a', 'actions': [action('G:a')], 'file_dep': [w.path(0)]}
                yield {'name': 'b', 'actions': [action('G:b')], 'file_dep': [w.path(1)], 'uptodate': [True],
                       'clean': ['touch %s' % os.path.join(w.dir, 'cleaned-by-cmd')]}
            ns['task_G'] = task_G
        if w.shape.get('private'):
            def task__P():
                return {'actions': [action('_P')], 'file_dep': [w.path(2)], 'clean': [clean_plain('_P')]}
            ns['task__P'] = task__P
        if w.shape.get('calc'):
            def task_C():
                return {'actions': [action('C', values={'file_dep': [w.path(3)]})], 'file_dep': [w.path(4)]}

            def task_D():
                return {'actions': [action('D')], 'calc_dep': ['C'], 'file_dep': [w.path(f) for f in sorted(w.shape.get('d_own', []))]}
            ns['task_C'] = task_C
            ns['task_D'] = task_D
        if w.shape.get('dangling'):
            def task_X():
                return {'actions': None, 'task_dep': ['nope']}
            ns['task_X'] = task_X
        return ns

    def utd_defs(self, name):
        if name in ('T0', 'T1', 'T2'):
            return self.defs[int(name[1])]['uptodate']
        if name == 'G:b':
            return [('bool', True)]
        return []

    def loaded(self):
        """the task list exactly as the loader hands it to list / info"""
        from doit import loader
        return loader.load_tasks(self.namespace(), allow_delayed=False)

    # ---- running a command in-process
    def doit(self, args, trace=False):
        from doit.doit_cmd import DoitMain
        from doit.cmd_base import ModuleTaskLoader
        from doit.globals import Globals
        RecReporter.log = []
        RecReporter.tasks = None
        buf = io.StringIO()
        real = (sys.stdout, sys.stderr)
        cwd = os.getcwd()
        os.chdir(self.dir)                 # a command that forgot the configured dep_file would write here, and be noticed
        try:
            with contextlib.redirect_stdout(buf), contextlib.redirect_stderr(buf), (CleanTrace(buf) if trace else contextlib.nullcontext()):
                try:
                    rc = DoitMain(ModuleTaskLoader(self.namespace())).run(args)
                except SystemExit:
                    rc = 90
                except BaseException as e:  # noqa
                    rc = 91
                    buf.write('ESCAPED %s' % type(e).__name__)
        finally:
            os.chdir(cwd)
            sys.stdout, sys.stderr = real
            Globals.dep_manager = None     # what the end of the process does: the DB object is dropped, never closed
            end_of_process(self.backend)
        return rc, buf.getvalue(), list(RecReporter.log)

    # ---- the FILES of the DB (file-level frame)
    def dbfiles(self):
        """{file name: (size, mtime_ns, sha1)} of everything in the directory that holds the DB: json the one file; dbm (dbm.dumb
        here) .dat / .dir / .bak; sqlite3 the file and, while a transaction is open, its -journal"""
        snap = {}
        for f in sorted(os.listdir(self.dbdir)):
            p = os.path.join(self.dbdir, f)
            st = os.stat(p)
            with open(p, 'rb') as fh:
                snap[f] = (st.st_size, st.st_mtime_ns, hashlib.sha1(fh.read()).hexdigest())
        return snap

    def age_dbfiles(self):
        """every DB file gets a known old mtime: a command that re-writes a file with the same bytes is still seen"""
        for f in os.listdir(self.dbdir):
            os.utime(os.path.join(self.dbdir, f), ns=(OLD_NS, OLD_NS))
        return self.dbfiles()

    # ---- snapshots
    def open_dep(self):
        from doit import dependency as D
        cls = {'json': D.JsonDB, 'dbm': D.DbmDB, 'sqlite': D.SqliteDB}[self.backend]
        return D.Dependency(cls, self.dbpath, D.MD5Checker if self.ck == 'md5' else D.TimestampChecker)

    def db_records(self):
        """logical DB content: {task name: whole record} through a fresh Dependency"""
        dep = self.open_dep()
        recs = {}
        try:
            names = [n for n in NAME_ID]
            present = {n: dep._in(n) for n in names}
            for n in names:
                if not present[n]:
                    continue
                dep._get(n, 'deps:')
                cache = getattr(dep.backend, '_db', None)
                if cache is None:
                    cache = dep.backend._cache
                recs[n] = json.loads(json.dumps(cache.get(n)))
        finally:
            if self.backend == 'sqlite':
                dep.backend._conn.close()
            elif self.backend == 'dbm':
                dep.backend._dbm.close()
            del dep
            gc.collect()
        return recs

    def fs_snapshot(self):
        snap = {}
        for root, dirs, files in os.walk(self.dir):
            if os.path.abspath(root) == os.path.abspath(self.dir) and '_db' in dirs:
                dirs.remove('_db')
            for d in dirs:
                snap[os.path.relpath(os.path.join(root, d), self.dir) + '/'] = ('dir',)
            for f in files:
                p = os.path.join(root, f)
                st = os.stat(p)
                with open(p, 'rb') as fh:
                    h = hashlib.sha1(fh.read()).hexdigest()
                snap[os.path.relpath(p, self.dir)] = (st.st_size, st.st_mtime_ns, h)
        return snap

    # ---- encoders
    def rec_ints(self, r):
        if r is None:
            return [0]
        deps = r.get('deps:')
        res = r.get('result:')
        out = [1, -1 if deps is None else mask(self.fileno(p) for p in deps), -1 if deps is None else len(deps),
               CK_Z.get(r.get('checker:'), 94),
               -1 if res is None else (RESULT_MD5.get(res, 93) if isinstance(res, str) else 90),
               1 if r.get('ignore:') else 0]
        for f in DEP_FILES:
            st = r.get(self.path(f))
            if st is None:
                out += [0, 0, 0, 0]
            elif isinstance(st, (list, tuple)):
                out += [1, int(st[0]) - BASE, st[1], DIGEST.get(st[2], 92)]
            else:
                out += [2, int(st) - BASE, 0, 0]
        vals = r.get('_values_:') or {}
        for key in VKEYS:
            if key not in vals:
                out.append(-2)
                continue
            x = vals[key]
            if x is None:
                out.append(-1)
            elif key == '_config_changed':
                out.append(int(x[3:]) if isinstance(x, str) and x.startswith('cfg') else 91)
            elif key.startswith('_result:'):
                out.append(RESULT_MD5.get(x, 93))
            else:
                out.append(int(x))
        return out

    def db_ints(self, recs):
        out = []
        for t in self.task_ids:
            out += self.rec_ints(recs.get(ID_NAME[t]))
        return out


# ------------------------------------------------------------------ Coq literals of a state
def nlist(xs):
    return '[' + '; '.join('%d' % x for x in xs) + ']%N'


def utd_coq(u):
    k = u[0]
    if k == 'bool':
        return 'UBool %s' % ('true' if u[1] else 'false')
    if k == 'none':
        return 'UNone'
    if k == 'call':
        return 'UOpaque %s' % {True: '(Some true)', False: '(Some false)', None: 'None'}[u[1]]
    if k == 'run_once':
        return 'URunOnce'
    if k == 'config':
        return 'UConfig %d%%N' % u[1]
    if k == 'result_dep':
        return 'UResultDep %d%%N' % u[1]
    raise ValueError(u)


def coq_fs(w):
    arms = ' '.join('| %d%%N => FM %d %d %d%%N' % (f, m, sz, c) for f, (m, sz, c) in sorted(w.fsview.items()))
    return '(fun f : file => match f with %s | _ => @None meta end)' % arms


def coq_rec(w, r):
    deps = r.get('deps:')
    dp = 'None' if deps is None else '(Some %s)' % nlist(w.fileno(p) for p in deps)
    ck = {'MD5Checker': '(Some MD5)', 'TimestampChecker': '(Some TS)', None: 'None'}[r.get('checker:')]
    arms = []
    for f in range(8):
        st = r.get(w.path(f))
        if st is None:
            continue
        if isinstance(st, (list, tuple)):
            arms.append('| %d%%N => Some (MD5state %d %d %d%%N)' % (f, int(st[0]) - BASE, st[1], DIGEST.get(st[2], 92)))
        else:
            arms.append('| %d%%N => Some (TSstate %d)' % (f, int(st) - BASE))
    sv = '(fun f : file => match f with %s | _ => @None fstate end)' % ' '.join(arms)
    vals = r.get('_values_:') or {}
    vl = []
    for key, kn in zip(VKEYS, VKEY_N):
        if key not in vals:
            continue
        x = vals[key]
        if x is None:
            vl.append('(%d%%N, None)' % kn)
        elif key == '_config_changed':
            vl.append('(%d%%N, Some %d%%N)' % (kn, int(x[3:]) if isinstance(x, str) and x.startswith('cfg') else 91))
        elif key.startswith('_result:'):
            vl.append('(%d%%N, Some %d%%N)' % (kn, RESULT_MD5.get(x, 93)))
        else:
            vl.append('(%d%%N, Some %d%%N)' % (kn, int(x)))
    res = r.get('result:')
    rs = 'None' if res is None else '(Some %d%%N)' % (RESULT_MD5.get(res, 93) if isinstance(res, str) else 90)
    return 'RC %s %s %s [%s] %s %s' % (dp, ck, sv, '; '.join(vl), rs, 'true' if r.get('ignore:') else 'false')


def coq_db(w, recs):
    arms = ' '.join('| %d%%N => Some (%s)' % (NAME_ID[n], coq_rec(w, r)) for n, r in sorted(recs.items(), key=lambda kv: NAME_ID[kv[0]]))
    return '(fun t : name => match t with %s | _ => @None rec end)' % arms


def coq_table(w, tasks):
    rows = []
    for t in tasks:
        df = 'DF %s %s [%s]' % (nlist(w.fileno(p) for p in t.file_dep), nlist(w.fileno(p) for p in t.targets),
                                '; '.join(utd_coq(u) for u in w.utd_defs(t.name)))
        rows.append('LT %d%%N %s %s %s %s (%s)' % (
            NAME_ID[t.name], 'true' if t.name.startswith('_') else 'false',
            'None' if t.subtask_of is None else '(Some %d%%N)' % NAME_ID[t.subtask_of],
            nlist(NAME_ID[x] for x in t.task_dep), nlist(NAME_ID[x] for x in t.calc_dep), df))
    return '[' + '; '.join(rows) + ']'


def coq_rank(tasks):
    names = sorted(set(t.name for t in tasks) | {'zz', 'nope'})
    arms = ' '.join('| %d%%N => %d%%N' % (NAME_ID[n], i) for i, n in enumerate(names))
    return '(fun a b : name => let rk := fun x : name => match x with %s | _ => 99%%N end in N.ltb (rk a) (rk b))' % arms


class State:
    """what the model is given: everything read back from the world just before a command"""
    def __init__(self, w, recs, tasks):
        cv = saved_cvals(w, recs)
        cf_coq = '(fun c : name => match c with %s | _ => no_cvals end)' % ' '.join(
            '| %d%%N => CV %s %s %s' % (NAME_ID[n], nlist(x['file_dep']), nlist(x['calc_dep']), nlist(x['task_dep'])) for n, x in sorted(cv.items()))
        self.defs = ('Definition fs_# : fsys := %s.\nDefinition db_# : db := %s.\nDefinition tb_# : table := %s.\nDefinition lt_# : name -> name -> bool := %s.\n'
                     'Definition cv_# : name -> cvals := %s.\n'
                     % (coq_fs(w), coq_db(w, recs), coq_table(w, tasks), coq_rank(tasks), cf_coq))
        self.ck = 'MD5' if w.ck == 'md5' else 'TS'
        self.backend = BACKEND_COQ[w.backend]
        self.tasks = w.tasks_coq


def b2c(b):
    return 'true' if b else 'false'


# ------------------------------------------------------------------ command variants and parsers
def canon_runs(out, start, is_item):
    """sort every maximal run of [tag, file] pairs (set iteration order is not compared); `out` is a flat int list
    that is walked token-wise by `is_item(out, i) -> length of the token at i, is it an item`"""
    res, i, run = out[:start], start, []
    while i < len(out):
        n, item = is_item(out, i)
        if item:
            run.append(out[i:i + n])
        else:
            res += [x for tok in sorted(run) for x in tok]
            run = []
            res += out[i:i + n]
        i += n
    res += [x for tok in sorted(run) for x in tok]
    return res


def list_tok(out, i):
    return {1: (3, False), 2: (2, True), 3: (1, False)}.get(out[i], (1, False))


def info_tok(out, i):
    t = out[i]
    if 30 <= t <= 34:
        return 2, True
    if t == 13:
        return 2, False
    return 1, False


def saved_cvals(w, recs):
    """name -> dict(file_dep=[file numbers], calc_dep=[task ids], task_dep=[task ids]): the lists under these keys in the
    values the task saved (the model's oracle cv).  A name that is not in NAME_ID is given the id of 'zz' (not a task)."""
    res = {}
    for n, r in recs.items():
        vals = r.get('_values_:') or {}
        fd, cd, td = vals.get('file_dep') or [], vals.get('calc_dep') or [], vals.get('task_dep') or []
        if fd or cd or td:
            res[n] = dict(file_dep=[w.fileno(p) for p in fd], calc_dep=[NAME_ID.get(x, 20) for x in cd], task_dep=[NAME_ID.get(x, 20) for x in td])
    return res


def calc_closure(w, recs, tasks, t):
    """what `run` ends up with for task t when every calc_dep task it meets is up-to-date, recomputed from the raw DB
    records (no doit code, no model): the declared dependencies plus whatever the values saved by the calc_dep tasks --
    declared, or named by the values of another one -- contribute.  -> (file numbers, calc_dep names, task_dep names)"""
    names = set(x.name for x in tasks)
    fdep = [w.fileno(p) for p in t.file_dep]
    calc, tdep = set(t.calc_dep), list(t.task_dep)
    seen = set()
    while True:
        new = [c for c in sorted(calc) if c not in seen and c in names]
        if not new:
            break
        for c in new:
            seen.add(c)
            vals = (recs.get(c) or {}).get('_values_:') or {}
            fdep += [f for f in (w.fileno(p) for p in vals.get('file_dep') or []) if f not in fdep]
            calc |= set(vals.get('calc_dep') or [])
            tdep += list(vals.get('task_dep') or [])
    return fdep, calc, tdep


def parse_info_attrs(w, txt):
    """the file_dep / calc_dep / task_dep entries of the attribute listing `info` prints -> ints as enc_mtask"""
    got = {}
    lines = txt.split('\n')
    for attr in ('file_dep', 'calc_dep', 'task_dep'):
        items = []
        for i, ln in enumerate(lines):
            if ln.startswith('%-11s:' % attr):
                j = i + 1
                while j < len(lines) and lines[j].startswith(' - '):
                    items.append(lines[j][3:])
                    j += 1
        got[attr] = items
    return task_ints([w.fileno(p) for p in got['file_dep']], got['calc_dep'], got['task_dep'])


def calc_depth(w, recs, tasks, t):
    """length of the longest discovery chain: 1 = every calc_dep is declared by the task, 2 = some are only named in the
    values of a declared one, ..."""
    names = set(x.name for x in tasks)
    level, seen, depth = set(t.calc_dep), set(), 0
    while level:
        depth += 1
        seen |= level
        nxt = set()
        for c in level:
            if c in names:
                nxt |= set(((recs.get(c) or {}).get('_values_:') or {}).get('calc_dep') or [])
        level = nxt - seen
    return depth


def task_ints(fdep, calc, tdep):
    return [0] + sorted(fdep) + [-1] + sorted(NAME_ID.get(x, 77) for x in calc) + [-1] + sorted(NAME_ID.get(x, 77) for x in tdep)


def parse_list_args(args):
    o = dict(all=False, status=False, private=False, deps=False, sort_name=True, pos=[])
    i = 1
    while i < len(args):
        a = args[i]
        if a == '--all':
            o['all'] = True
        elif a in ('-s', '--status'):
            o['status'] = True
        elif a in ('-p', '--private'):
            o['private'] = True
        elif a == '--deps':
            o['deps'] = True
        elif a == '--sort':
            i += 1
            o['sort_name'] = args[i] == 'name'
        elif a in ('-q', '--quiet'):
            pass
        else:
            o['pos'] = list(args[i:])
            break
        i += 1
    return o


def parse_list_output(w, o, rc, txt):
    if rc != 0:
        m = re.search(r"'([^']*)' is not a task", txt)
        if m:
            return [1, NAME_ID.get(m.group(1), 77)], False
        m = re.search(r"KeyError: '([^']*)'", txt)
        if m:
            return [2, NAME_ID.get(m.group(1), 77)], False
        if 'TypeError' in txt:
            return [98], True
        return [97, rc], False
    out = [0]
    for line in txt.split('\n')[:-1]:
        if line.startswith(' -  '):
            out += [2, w.fileno(line[4:])]
        elif line.strip() == '':
            out += [3]
        elif o['status']:
            out += [1, NAME_ID.get(line[2:].split()[0], 77), LETTER_Z.get(line[0], 76)]
        else:
            out += [1, NAME_ID.get(line.split()[0], 77), 0]
    return canon_runs(out, 1, list_tok), True


HEADERS = [('The following targets do not exist:', 0), ('The following file dependencies have changed:', 1),
           ('The following file dependencies are missing:', 2), ('The following file dependencies were removed:', 3),
           ('The following file dependencies were added:', 4)]


def parse_info_output(w, rc, txt):
    """-> (ints, with_db, parsed dict for the oracles)"""
    if rc == 3:
        if 'must select *one* task' in txt:
            return [1], False, None
        m = re.search(r"KeyError: '([^']*)'", txt)
        if m:
            return [2, NAME_ID.get(m.group(1), 77)], False, None
        if 'TypeError' in txt:
            return [98], True, None
        return [97, rc], False, None
    lines = txt.split('\n')
    status, out, parsed = -1, [], dict(status=None, nodeps=False, utd_false=0, checker=None, sets={k: [] for k in range(5)})
    i = 0
    while i < len(lines):
        m = re.match(r'status\s+: (.*)$', lines[i])
        if m:
            parsed['status'] = m.group(1)
            status = STATUS_Z.get(m.group(1), 75)
            i += 1
            kind = None
            while i < len(lines) and lines[i] != '':
                ln = lines[i]
                if ln == ' * The task has no dependencies.':
                    out += [10]; parsed['nodeps'] = True; kind = None
                elif ln == ' * The following uptodate objects evaluate to false:':
                    out += [11]; kind = 'utd'
                elif ln.startswith(' * The file_dep checker changed from '):
                    mm = re.match(r' \* The file_dep checker changed from (\w+) to (\w+)\.', ln)
                    out += [13, 10 * CK_Z.get(mm.group(1), 9) + CK_Z.get(mm.group(2), 9)]
                    parsed['checker'] = (mm.group(1), mm.group(2)); kind = None
                elif ln.startswith(' * '):
                    k = dict(HEADERS).get(ln[3:], 74)
                    out += [20 + k]; kind = k
                elif ln.startswith('    - '):
                    if kind == 'utd':
                        out += [12]; parsed['utd_false'] += 1
                    else:
                        f = w.fileno(ln[6:])
                        out += [30 + kind, f]; parsed['sets'][kind].append(f)
                else:
                    out += [73]
                i += 1
            break
        i += 1
    return [0, status, rc] + canon_runs(out, 0, info_tok), True, parsed


def list_model(st, idx, o):
    return ('enc_lres %s %s FILES db_# (list_cmd md5o current lt_# icurrent cv_# tb_# (LO %s %s %s %s %s %s) %s fs_# db_#)' % (
        st.backend, st.tasks, b2c(o['all']), b2c(o['status']), b2c(o['private']), b2c(o['deps']), b2c(o['sort_name']),
        nlist(NAME_ID.get(x, 20) for x in o['pos']), st.ck)).replace('#', str(idx))


def info_model(st, idx, pos, hide):
    return ('enc_ires %s %s FILES db_# (info_cmd md5o current icurrent cv_# tb_# %s %s %s fs_# db_#)' % (
        st.backend, st.tasks, nlist(NAME_ID.get(x, 20) for x in pos), b2c(hide), st.ck)).replace('#', str(idx))


# ------------------------------------------------------------------ the true reasons (oracle for `info`)
def true_reasons(w, task, rec, merged_file_dep):
    """conditions of C03's characterisation recomputed from the raw record, os.stat and the definition
    `run` uses (file_dep with the calc_dep result merged).  Returns None when an uptodate item of a kind
    whose value depends on saved values is present (run_once, config_changed, result_dep)."""
    utd = w.utd_defs(task.name)
    if any(u[0] in ('run_once', 'config', 'result_dep') for u in utd):
        return None
    vals = [u[1] if u[0] in ('bool', 'call') else None for u in utd]
    evaluated = [x for x in vals if x is not None]
    fdep = list(merged_file_dep)
    rec = rec or {}
    stored = rec.get('checker:')
    cur = CK_NAME[w.ck]
    ck_changed = bool(stored) and stored != cur
    if ck_changed:
        rec = {}
    prev = rec.get('deps:')
    prev_set = None if prev is None else set(w.fileno(p) for p in prev)
    sets = {k: [] for k in range(5)}
    sets[0] = [w.fileno(p) for p in task.targets if not os.path.exists(p)]
    for f in fdep:
        p = w.path(f)
        if not os.path.exists(p):
            sets[2].append(f)
            continue
        st = os.stat(p)
        saved = rec.get(p)
        # "changed": no saved state; or not a dependency of the last successful execution (not in the saved 'deps:' list --
        # the record may still hold the state an OLDER execution saved for it: save_success never drops it; fixC of
        # Model/Status.v, C20_info_reasons_changed); or modified by the checker's rule
        if saved is None or (prev_set is not None and f not in prev_set):
            sets[1].append(f)
        elif w.ck == 'ts':
            if not (isinstance(saved, float) or isinstance(saved, int)) or saved != st.st_mtime:
                sets[1].append(f)
        else:
            ts, size, dg = saved
            if ts != st.st_mtime and (size != st.st_size or dg != hashlib.md5(open(p, 'rb').read()).hexdigest()):
                sets[1].append(f)
    if prev_set is not None and prev_set != set(fdep):
        sets[3] = sorted(prev_set - set(fdep))
        sets[4] = sorted(set(fdep) - prev_set)
    return dict(nodeps=not (fdep or evaluated), utd_false=sum(1 for x in evaluated if not x),
                checker=(stored, cur) if ck_changed else None, sets=sets)


# ------------------------------------------------------------------ one history
class Runner:
    def __init__(self, ctx, out, backend, history, shape, kind):
        self.ctx, self.out, self.backend, self.history, self.shape, self.kind = ctx, out, backend, history, shape, kind
        self.w = World(ctx, backend, shape)
        self.cases = []
        self.ncmd = 0
        self.last_attrs, self.must = None, []
        self.with_model = True             # step Frame switches the correspondence cases off (file-level family: oracles only)

    def case_desc(self, extra):
        return dict(backend=self.backend, shape=self.shape, history=self.history, **extra)

    def violation(self, what, shape, extra):
        self.out.violations.append(dict(what=what, shape=shape, case=self.case_desc(extra)))

    # ---- a read-only command between two snapshots
    def readonly(self, args, examined_all=True):
        w, out = self.w, self.out
        recs0, fs0 = w.db_records(), w.fs_snapshot()
        tasks = None
        if args[0] in ('list', 'info'):
            tasks = w.loaded()
            st = State(w, recs0, tasks) if self.with_model else None
        del RAN[:]
        del CLEANED[:]
        dbf0 = w.age_dbfiles()             # (after db_records: a fresh Dependency creates the dbm / sqlite3 files when there are none)
        rc, txt, _ = w.doit(args, trace=(args[0] == 'clean'))
        dbf1 = w.dbfiles()
        self.ncmd += 1
        out.count('cmd:' + ' '.join(a for a in args[:1]))
        recs1, fs1 = w.db_records(), w.fs_snapshot()
        label = ' '.join(a if not a.startswith(w.dir) else '<dep_file>' for a in args)
        documented_removal = False
        # --- oracles
        if RAN:
            self.violation('`%s` executed task actions %s' % (label, RAN), 'readonly-executed-action', dict(cmd=label))
        bad_clean = [c for c in CLEANED if c[1] == 'plain' or c[2] is not True]
        if args[0] == 'clean':
            bad_clean += [(r[1], 'cmd-action #%s' % r[2], None) for r in TRACE if r[0] == 'exec' and r[3] == 'cmd']
        if bad_clean:
            self.violation('`%s` executed clean actions %s' % (label, bad_clean), 'dryrun-executed-clean-action', dict(cmd=label))
        if fs1 != fs0:
            diff = sorted(set(fs0.items()) ^ set(fs1.items()))
            self.violation('`%s` altered the file system: %s' % (label, [d[0] for d in diff][:6]), 'readonly-altered-fs', dict(cmd=label))
        if recs1 != recs0:
            cur = CK_NAME[w.ck]
            # the documented invalidation: the record of a task whose state get_status looked at and that was saved by another
            # checker.  An IGNORED task is never checked (`run` skips it before anything else and leaves its record -- with the
            # ignore mark -- alone), and a command that names its tasks (`info T`, `list -s T..` without --all) checks only these
            asked = None
            if args[0] == 'info':
                pos_ = [a for a in args[1:] if a != '--no-status']
                asked = set(pos_) if len(pos_) == 1 else None
            elif args[0] == 'list':
                o_ = parse_list_args(args)
                asked = set(o_['pos']) if o_['pos'] and not o_['all'] else None
            foreign = [n for n, r in recs0.items() if r.get('checker:') and r.get('checker:') != cur and not r.get('ignore:')
                       and (asked is None or n in asked)]
            allowed = args[0] in ('list', 'info')
            ok = allowed and all((n in recs1 and recs1[n] == r) or (n in foreign and n not in recs1) for n, r in recs0.items()) \
                and all(n in recs0 for n in recs1)
            lost_marks = sorted(n for n, r in recs0.items() if r.get('ignore:') and not (recs1.get(n) or {}).get('ignore:'))
            if ok:
                out.count('db-invalidated-by-checker-change')
                documented_removal = True
            elif allowed and lost_marks:
                self.violation('`%s` removed the ignore mark of %s from the dependency DB (%s backend): the next `run` executes a task the user '
                               'asked to ignore' % (label, lost_marks, w.backend),
                               'readonly-removed-ignore-mark', dict(cmd=label, before=sorted(recs0), after=sorted(recs1)))
            else:
                self.violation('`%s` altered the dependency DB (beyond the documented checker-change invalidation)' % label,
                               'readonly-altered-db', dict(cmd=label, before=sorted(recs0), after=sorted(recs1)))
        # the FILES of the DB: same set, same bytes, same mtimes (implementation side only: the model has no files)
        ff = file_frame(out, w.backend, label, args[0] == 'clean', dbf0, dbf1, documented_removal)
        if ff:
            self.violation(ff[1], ff[0], dict(cmd=label, db_files_before=sorted(dbf0), db_files_after=sorted(dbf1)))
        if args[0] in ('list', 'info') and any(r.get('ignore:') and r.get('checker:') and r.get('checker:') != CK_NAME[w.ck] for r in recs0.values()):
            out.count('query-with-ignored-record-of-other-checker:' + args[0])
        if not self.with_model:
            return rc, txt, None, recs0, tasks
        # --- correspondence
        parsed = None
        if args[0] == 'list':
            o = parse_list_args(args)
            obs, with_db = parse_list_output(w, o, rc, txt)
            if with_db:
                obs = obs + [-7] + w.db_ints(recs1)
            idx = next_idx()
            self.cases.append(dict(defs=st.defs.replace('#', str(idx)), model=list_model(st, idx, o), expected=obs,
                                   desc=self.case_desc(dict(cmd=label))))
            parsed = obs
        elif args[0] == 'info':
            hide = '--no-status' in args
            pos = [a for a in args[1:] if a != '--no-status']
            obs, with_db, parsed = parse_info_output(w, rc, txt)
            if with_db:
                obs = obs + [-7] + w.db_ints(recs1)
            idx = next_idx()
            self.cases.append(dict(defs=st.defs.replace('#', str(idx)), model=info_model(st, idx, pos, hide), expected=obs,
                                   desc=self.case_desc(dict(cmd=label))))
            # the attribute listing printed after the status: the Task object as merge_calc_dep left it
            self.last_attrs = None
            lt = {t.name: t for t in tasks}.get(pos[0]) if len(pos) == 1 else None
            if parsed is not None and lt is not None:
                self.last_attrs = parse_info_attrs(w, txt)
                if lt.calc_dep or self.ncmd % 8 == 0:
                    idx = next_idx()
                    expr = ('enc_mtask (match lookup tb_# %d%%N with Some t => Some (info_attrs icurrent cv_# tb_# %s db_# t) | None => None end)'
                            % (NAME_ID[pos[0]], b2c(hide))).replace('#', str(idx))
                    self.cases.append(dict(defs=st.defs.replace('#', str(idx)), model=expr, expected=self.last_attrs,
                                           desc=self.case_desc(dict(cmd=label + ' [attribute listing]'))))
                    out.count('info-attribute-listing-compared' + (':with-calc_dep' if lt.calc_dep else ''))
        else:
            idx = next_idx()
            self.cases.append(dict(defs='Definition db_%d : db := %s.\n' % (idx, coq_db(w, recs0)),
                                   model='db_z %s FILES (noop_cmd db_%d)' % (w.tasks_coq, idx), expected=w.db_ints(recs1),
                                   desc=self.case_desc(dict(cmd=label))))
            if rc not in (0, None) and not (args[0] == 'dumpdb'):
                out.count('cmd-nonzero:' + args[0])
        return rc, txt, parsed, recs0, tasks

    # ---- the probe
    def variants(self):
        w, rng = self.w, self.ctx.rng
        present = [t.name for t in w.loaded()]
        some = lambda: rng.choice([n for n in present if n != 'X'])
        v = [['list'], ['list', '-s'], ['list', '--all', '--deps'], ['list', '-q', '-s', '--sort', 'definition', '--all', '-p', '--deps'],
             ['list', '-s', some(), some()], ['list', '-s', 'zz'], ['list', '--all', '-s', '-p', some()],
             ['info', '--no-status', some()], ['info', 'zz'], ['info'], ['info', some(), some()],
             ['help'], ['help', some()], ['help', 'list'], ['help', 'task'],
             ['tabcompletion', '-s', 'bash'], ['tabcompletion', '-s', 'zsh'], ['tabcompletion', '-s', 'bash', '--hardcode-tasks'],
             ['tabcompletion', '-s', 'zsh', '--hardcode-tasks']]
        self.must = []
        if 'A' in present:
            # tasks whose dependencies come from chains of calc_dep tasks: --deps prints the Task object after the merge
            self.must = [['list', '-s', '--deps', 'A'] + (['B'] if 'B' in present else []), ['list', '--deps', '-s', '--all', '-p', '--sort', 'definition'],
                         ['info', '--no-status', 'A']]
        if 'G' in present:
            v.append(['list', '--all', '-s', 'G'])
        if 'X' in present:
            v.append(['list', '--all', 'X'])
        else:
            v += [['clean', '-n'], ['clean', '--dry-run', '-c', some()], ['clean', '-n', '-a'], ['clean', '-n', '--forget', '-a'],
                  ['clean', '-n', some()]]
        if w.backend == 'dbm':
            v.append(['dumpdb', '--db-file', w.dbpath])
        return v

    def probe(self, full):
        w, out, rng = self.w, self.out, self.ctx.rng
        vs = self.variants()
        if full == 'lite':
            vs = rng.sample(vs, min(len(vs), 2)) + rng.sample(self.must, min(len(self.must), 2))
        elif not full:
            vs = rng.sample(vs, min(len(vs), 7)) + self.must
        else:
            vs = vs + self.must
        rng.shuffle(vs)
        for args in vs:
            self.readonly(args)
        if self.shape.get('dangling'):
            return                    # `run` rejects this dodo file (dangling task_dep): nothing to compare with
        # verdicts and reasons of `info` for every task, then the letters, then -- immediately -- the run
        tasks = w.loaded()
        got = dict(infos={}, truths={}, info_recs={}, attrs={})
        for t in tasks:
            self.ask_info(tasks, t, got)
        rc, txt, lst, _, _ = self.readonly(['list', '-s', '--all', '-p'])
        return self.run_and_compare(tasks, got, self.letters_of(lst), None)

    def frame(self):
        """step Frame: EVERY kind of read-only command, a fixed list (no random choice: the replay executes the same commands), each
        between the two snapshots of `readonly` -- logical DB, file tree, and the FILES of the DB (set, bytes, mtimes); no model"""
        w = self.w
        present = [t.name for t in w.loaded()]
        v = [['list'], ['list', '-s'], ['list', '--all'], ['list', '--deps'], ['list', '-s', '--all', '-p', '--deps'], ['list', '-s', 'T0'],
             ['info', 'T0'], ['info', 'T1'], ['info', '--no-status', 'T2'],
             ['clean', '-n'], ['clean', '--dry-run', '-c', 'T0'], ['clean', '-n', '--forget', '-a'],
             ['help', 'T0'], ['tabcompletion', '-s', 'zsh', '--hardcode-tasks']]
        if not self.ctx.quick:
            v += [['clean', '-n', '-a'], ['help'], ['help', 'list'], ['tabcompletion', '-s', 'bash']]
        if 'G' in present:
            v += [['list', '-s', '--all', 'G'], ['info', 'G:a']]
        if w.backend == 'dbm':
            v.append(['dumpdb', '--db-file', w.dbpath])
        self.with_model = False
        try:
            self.nframe = getattr(self, 'nframe', 0) + 1
            for args in v:
                self.readonly(args)
                self.out.count('frame-step-command:%s' % w.backend)
                self.out.nontrivial.add(('frame', w.backend, self.nframe, ' '.join(args[:1] + [a for a in args[1:] if not a.startswith(w.dir)])))
        finally:
            self.with_model = True

    def ask_info(self, tasks, t, got, extra=()):
        """`info T` with its verdict, its reasons, the facts at that moment and the records the verdict depends on"""
        w, n = self.w, t.name
        rc, txt, parsed, recs0, _ = self.readonly(['info'] + list(extra) + [n])
        got['infos'][n] = parsed
        got['attrs'][n] = self.last_attrs
        # what the dispatcher merges into the task before get_status: what its (up-to-date) calc_dep tasks saved, and
        # the calc_dep tasks these values name, and so on
        merged, calc_all, _ = calc_closure(w, recs0, tasks, t)
        got['info_recs'][n] = {x: recs0.get(x) for x in [n] + sorted(calc_all)}
        got['truths'][n] = true_reasons(w, t, recs0.get(n), merged)     # the facts at the moment `info` was asked

    @staticmethod
    def letters_of(lst):
        """task name -> letter code, from the encoded output of a `list -s` command"""
        letters = {}
        if lst and lst[0] == 0:
            body = lst[1:lst.index(-7)]
            i = 0
            while i < len(body):
                if body[i] == 1:
                    letters[ID_NAME.get(body[i + 1])] = body[i + 2]
                    i += 3
                elif body[i] == 2:
                    i += 2
                else:
                    i += 1
        return letters

    def ask(self, args):
        """ONE status query -- `list -s ...` or `info T` -- between two snapshots, and immediately the run: every letter /
        the verdict shown against what the run does with that task (no other read-only command in between)"""
        w = self.w
        tasks = w.loaded()
        bytask = {t.name: t for t in tasks}
        got = dict(infos={}, truths={}, info_recs={}, attrs={})
        letters = {}
        self.out.count('ask:' + ' '.join(a for a in args if a.startswith('-') or a in ('list', 'info')))
        if args[0] == 'info':
            self.ask_info(tasks, bytask[args[-1]], got, extra=args[1:-1])
        else:
            rc, txt, lst, _, _ = self.readonly(list(args))
            letters = self.letters_of(lst)
        return self.run_and_compare(tasks, got, letters, set(letters))

    def run_and_compare(self, tasks, got, letters, shown):
        """`doit run --continue` right now, and what it does with each task against the letters / verdicts / reasons / attribute
        listings obtained just before.  `shown`: the tasks `list` was asked about (None: all of them)"""
        w, out = self.w, self.out
        infos, truths, info_recs, attrs = got['infos'], got['truths'], got['info_recs'], got['attrs']
        names = [t.name for t in tasks]
        bytask = {t.name: t for t in tasks}
        # state for the model's run_decision
        recs_run = w.db_records()
        st = State(w, recs_run, tasks)
        del RAN[:]
        rc, txt, log = w.doit(['run', '--continue'])
        self.ncmd += 1
        out.count('cmd:run')
        outcome = {}
        rtasks = RecReporter.tasks or {}      # the Task objects of this run, with everything the dispatcher merged into them
        for n in names:
            ev = [(e, x) for e, nm, x in log if nm == n]
            kinds = [e for e, _ in ev]
            if 'ignore' in kinds:
                outcome[n] = 1
            elif 'uptodate' in kinds:
                outcome[n] = 2
            elif 'execute' in kinds:
                outcome[n] = 3
            elif ('failure', 'DependencyError') in ev:
                outcome[n] = 4
            elif 'failure' in kinds:
                outcome[n] = 5            # UnmetDependency: a dependency failed
            else:
                outcome[n] = 6            # not reached
        # the reasons `info` printed against the facts (no use of the run)
        for n in names:
            inf, truth = infos.get(n), truths.get(n)
            has_calc = bool(bytask[n].calc_dep)
            if inf is None or inf['status'] in (None, 'ignored') or truth is None:
                continue
            if inf['status'] != 'up-to-date':
                got = dict(nodeps=inf['nodeps'], utd_false=inf['utd_false'], checker=inf['checker'],
                           sets={k: sorted(v_) for k, v_ in inf['sets'].items()})
                want = dict(truth, sets={k: sorted(v_) for k, v_ in truth['sets'].items()})
                if got != want:
                    self.violation('`info %s` prints reasons that are not the true ones: printed %s, true %s' % (n, got, want),
                                   'list-info-calc-dep-not-merged' if has_calc else 'info-false-reasons', dict(task=n))
                else:
                    out.count('info-reasons-verified')
            elif truth['nodeps'] or truth['utd_false'] or truth['checker'] or any(truth['sets'].values()):
                self.violation('`info %s` says up-to-date although %s' % (n, truth),
                               'list-info-calc-dep-not-merged' if has_calc else 'info-false-reasons', dict(task=n))
            else:
                out.count('info-uptodate-verified')
        # letters and verdicts against what the run did
        did = ['skipped it (ignored)', 'skipped it (up-to-date)', 'executed it', 'reported a dependency error']
        comp, comp_calc = [], []
        for n in names:
            t = bytask[n]
            rt = rtasks.get(n, t)         # dependencies as the run ended up seeing them (calc_dep results merged, to any depth)
            deps = list(rt.task_dep) + list(rt.setup_tasks) + list(rt.calc_dep)
            if outcome[n] not in (1, 2, 3, 4) or any(outcome.get(d) != 2 for d in deps):
                out.count('run-compare:skipped-deps-not-uptodate')
                continue
            out.count('run-compare:%s' % 'IURE'[outcome[n] - 1])
            comp.append(n)
            has_calc = bool(t.calc_dep)
            if has_calc:
                depth = calc_depth(w, recs_run, tasks, t)
                out.count('run-compare:calc-chain-depth-%d' % depth)
            same_moment = n in info_recs and info_recs[n] == {x: recs_run.get(x) for x in info_recs[n]}
            if has_calc and outcome[n] != 1 and n in rtasks:
                # the Task object of the run against (a) the saved values, read from the raw records, (b) what `info` listed
                used = task_ints([w.fileno(p) for p in rt.file_dep], rt.calc_dep, rt.task_dep)
                fd_, cd_, td_ = calc_closure(w, recs_run, tasks, t)
                if used != task_ints(fd_, cd_, td_):
                    self.violation('run merged %s into task %s, the values saved by its (up-to-date) calc_dep tasks give %s' % (used, n, task_ints(fd_, cd_, td_)),
                                   'run-calc-dep-merge-differs-from-saved-values', dict(task=n))
                comp_calc.append((n, used))
                if same_moment and attrs.get(n) is not None and infos.get(n) is not None and infos[n]['status'] not in (None, 'ignored'):
                    if attrs[n] != used:
                        self.violation('`info %s` lists dependencies %s (file_dep -1 calc_dep -1 task_dep), the immediately following run checked the task with %s' % (
                            n, attrs[n][1:], used[1:]), 'list-info-calc-dep-not-merged', dict(task=n))
                    else:
                        out.count('info-attributes-equal-run-task:depth-%d' % depth)
            if (shown is None or n in shown) and letters.get(n) != outcome[n]:
                self.violation('`list --status` shows %s for task %s, the immediately following run %s' % (
                    'IURE?'[(letters.get(n) or 5) - 1], n, did[outcome[n] - 1]),
                    'list-info-calc-dep-not-merged' if has_calc else 'list-status-differs-from-run', dict(task=n))
            inf = infos.get(n)
            if inf is None or inf['status'] is None:
                continue
            if not same_moment:
                # a command in between dropped a record this verdict depends on (the documented invalidation): not the same moment
                out.count('run-compare:info-skipped-record-invalidated-in-between')
                continue
            iz = {'ignored': 1, 'up-to-date': 2, 'run': 3, 'error': 4}.get(inf['status'], 0)
            if iz != outcome[n]:
                if outcome[n] == 1:
                    shape = 'info-does-not-show-ignored'
                elif inf['sets'][2]:
                    shape = 'info-status-differs-missing-file-dep'
                else:
                    shape = 'list-info-calc-dep-not-merged' if has_calc else 'info-status-differs-from-run'
                self.violation('`info %s` says status %s, the immediately following run %s' % (n, inf['status'], did[outcome[n] - 1]),
                               shape, dict(task=n))
        if comp:
            idx = next_idx()
            expr = '[' + '; '.join(
                'decision_z (match lookup tb_# %d%%N with Some t => run_decision md5o current %s fs_# db_# %d%%N '
                '(run_def tb_# (saved_cv cv_# db_#) t) | None => DCrash end)' % (NAME_ID[n], st.ck, NAME_ID[n]) for n in comp) + ']'
            self.cases.append(dict(defs=st.defs.replace('#', str(idx)), model=expr.replace('#', str(idx)),
                                   expected=[outcome[n] for n in comp], desc=self.case_desc(dict(cmd='run', tasks=comp))))
        if comp_calc:
            # the Task objects the run checked: [merged] on the values saved at that moment
            idx = next_idx()
            expr = '(' + ' ++ [-9] ++ '.join(
                'enc_mtask (match lookup tb_# %d%%N with Some t => merged tb_# (saved_cv cv_# db_#) t | None => None end)' % NAME_ID[n] for n, _ in comp_calc) + ')'
            exp = []
            for i, (n, used) in enumerate(comp_calc):
                exp += ([-9] if i else []) + used
            self.cases.append(dict(defs=st.defs.replace('#', str(idx)), model=expr.replace('#', str(idx)), expected=exp,
                                   desc=self.case_desc(dict(cmd='run [merged Task objects]', tasks=[n for n, _ in comp_calc]))))
        return letters, outcome

    # ---- the history
    def run(self):
        w = self.w
        for step in self.history:
            k = step[0]
            if k == 'Write':
                w.write(step[1], step[2])
            elif k == 'Touch':
                w.touch(step[1])
            elif k == 'Delete':
                w.delete(step[1])
            elif k == 'SetDef':
                w.defs[step[1]] = step[2]
            elif k == 'SetChecker':
                w.ck = step[1]
            elif k == 'SetVals':
                w.kvals[step[1]] = {a: list(b) for a, b in step[2].items()}
            elif k == 'Run':
                w.fails = set(step[2])
                w.doit(['run', '--continue'] + list(step[1]))
                w.fails = set()
            elif k == 'Forget':
                w.doit(['forget', step[1]])
            elif k == 'ForgetAll':
                w.doit(['forget', '--all'])
            elif k == 'Ignore':
                w.doit(['ignore', step[1]])
            elif k == 'ResetDep':
                w.doit(['reset-dep', step[1]])
            elif k == 'Probe':
                self.probe(step[1])
            elif k == 'Ask':
                self.ask(list(step[1]))
            elif k == 'Frame':
                self.frame()
            else:
                raise ValueError(step)
        return self.cases


# ------------------------------------------------------------------ clean --dry-run over clean lists
CFILES = list(range(15))
CLEAN_NAMES = ['T0', 'T1', 'T2', 'G:a', 'G:b', '_P', 'C', 'D']     # the tasks that can carry a clean attribute
RX_ANNOUNCE = re.compile(r"^(\S+) - executing '")
RX_REMOVING = re.compile(r"^(\S+) - removing file '(.*)'$")
D_SIGS = ['(dryrun)', '(task, dryrun)', '(dryrun=False)', '(*, dryrun)']
P_SIGS = ['()', '(task)', '(**kw)']


def act_kind(a):
    return a[0]


def coq_ops(ops):
    return '[' + '; '.join('%s %d%%N' % ('FRemove' if o == 'rm' else 'FCreate', f) for o, f in ops) + ']'


def coq_act(a):
    k = a[0]
    if k == 'T':
        return 'CTargets'
    return '%s %s' % ({'D': 'DRY', 'P': 'CPyPlain', 'S': 'CCmd'}[k], coq_ops(a[2]))


class CleanWorld(World):
    """tasks with clean lists; files f0..f4 (file_dep), g0..g9 (5..9 targets, 10..14 other files the clean actions touch)"""
    def __init__(self, ctx, backend, spec):
        World.__init__(self, ctx, backend, {})
        self.spec = spec

    def apply_ops(self, ops):
        for o, f in ops:
            p = self.path(f)
            if o == 'rm':
                if os.path.exists(p):
                    os.remove(p)
            else:
                open(p, 'a').close()

    def make_clean(self, name, idx, a):
        """the clean action `a` of task `name` as it is written in a dodo file"""
        w, k = self, a[0]
        if k == 'T':
            from doit.task import clean_targets
            return clean_targets
        variant, ops = a[1], a[2]
        fail = len(a) > 3 and a[3]
        if k == 'D':
            def body(dryrun):
                TRACE.append(('got', name, idx, dryrun))
                CLEANED.append((name, 'takes-dryrun', dryrun))
                if not dryrun:                     # the callable honours the flag
                    w.apply_ops(ops)
            if variant == 0:
                def c(dryrun):
                    body(dryrun)
            elif variant == 1:
                def c(task, dryrun):
                    body(dryrun)
            elif variant == 2:
                def c(dryrun=False):
                    body(dryrun)
            else:
                def c(*, dryrun):
                    body(dryrun)
            return c
        if k == 'P':
            def body():
                TRACE.append(('got', name, idx, None))
                CLEANED.append((name, 'plain', None))
                w.apply_ops(ops)
                return False if fail else None
            if variant == 0:
                def c():
                    return body()
            elif variant == 1:
                def c(task):
                    return body()
            else:
                def c(**kw):
                    return body()
            return c
        if k == 'S':
            words = [(['rm', '-f'] if o == 'rm' else ['touch']) + [w.path(f)] for o, f in ops]
            if variant == 1 and len(words) == 1 and not fail:
                return list(words[0])              # argument list: no shell
            text = ' && '.join(' '.join(x) for x in words) + (' ; false' if fail else '')
            if variant == 2:
                from doit.action import CmdAction
                return CmdAction(text)
            return text
        raise ValueError(a)

    def task_dict(self, name, sub=None):
        w, t = self, self.spec['tasks'][name]

        def act():
            RAN.append(name)
            for g in t['targets']:
                w.write(g, 2)
        d = {'actions': [act], 'file_dep': [w.path(f) for f in t['file_dep']], 'targets': [w.path(g) for g in t['targets']],
             'task_dep': list(t['task_dep']), 'setup': list(t['setup'])}
        if sub is not None:
            d['name'] = sub
        cl = t['clean']
        if cl is True:
            d['clean'] = True
        elif cl is not None:
            d['clean'] = [w.make_clean(name, i, a) for i, a in enumerate(cl)]
        return d

    def namespace(self):
        w = self
        cfg = {'dep_file': w.dbpath, 'backend': BACKEND_OPT[w.backend], 'check_file_uptodate': CK_OPT[w.ck],
               'reporter': RecReporter, 'verbosity': 0, 'continue': True}
        if self.spec.get('default') is not None:
            cfg['default_tasks'] = list(self.spec['default'])
        ns = {'DOIT_CONFIG': cfg}

        def plain(n):
            def creator():
                return w.task_dict(n)
            return creator
        for n in self.spec['order']:
            if n == 'G':
                def task_G():
                    for sub in ('a', 'b'):
                        if 'G:' + sub in w.spec['tasks']:
                            yield w.task_dict('G:' + sub, sub)
                ns['task_G'] = task_G
            else:
                ns['task_' + n] = plain(n)
        return ns

    def table(self):
        """the model's table: rows in the loader's order, dependencies as the real TaskControl leaves them"""
        from doit.control import TaskControl
        task_list = self.loaded()
        tc = TaskControl(task_list)
        rows = []
        for t in task_list:
            tt = tc.tasks[t.name]
            sp = self.spec['tasks'].get(t.name)
            cl = None if sp is None else sp['clean']
            rows.append(dict(name=t.name, task_dep=list(tt.task_dep), setup=list(tt.setup_tasks), sub=tt.subtask_of,
                             clean=([] if cl is None else cl), targets=[] if sp is None else list(sp['targets'])))
        return rows

    def existing(self):
        return [f for f in CFILES if os.path.isfile(self.path(f))]


def coq_ctable(rows):
    out = []
    for r in rows:
        cl = 'None' if r['clean'] is True else '(Some [%s])' % '; '.join(coq_act(a) for a in r['clean'])
        out.append('CT %d%%N %s %s %s %s %s' % (NAME_ID[r['name']], nlist(NAME_ID[x] for x in r['task_dep']), nlist(NAME_ID[x] for x in r['setup']),
                                            'None' if r['sub'] is None else '(Some %d%%N)' % NAME_ID[r['sub']], cl, nlist(r['targets'])))
    return '[' + '; '.join(out) + ']'


def parse_clean_args(args):
    o = dict(dry=False, cleandep=False, cleanall=False, forget=False, pos=[])
    for a in args[1:]:
        if a in ('-n', '--dry-run'):
            o['dry'] = True
        elif a in ('-c', '--clean-dep'):
            o['cleandep'] = True
        elif a in ('-a', '--clean-all'):
            o['cleanall'] = True
        elif a == '--forget':
            o['forget'] = True
        else:
            o['pos'].append(a)
    return o


def coq_sel(items, names, pats):
    """names -> SN id; anything with '*' -> SP k, the k-th row of the fnmatch table (real fnmatch on the real names)"""
    import fnmatch
    out = []
    for x in items:
        if '*' in x:
            pats.append([NAME_ID[n] for n in names if fnmatch.fnmatch(n, x)])
            out.append('SP %d%%N' % (len(pats) - 1))
        else:
            out.append('SN %d%%N' % NAME_ID.get(x, 20))
    return '[' + '; '.join(out) + ']'


def clean_observation(w, rc, txt, trace):
    """the command as one sequence of events (layout of enc_cres up to the first -1 -1); None, code on an error"""
    if rc not in (0, None):
        if 'is not a task' in txt:
            return [96]
        if 'KeyError' in txt:
            return [97]
        return [98, rc if isinstance(rc, int) else 99]
    # printed lines with their offsets
    lines, off = [], 0
    for ln in txt.split('\n'):
        lines.append((off, ln))
        off += len(ln) + 1
    items = [(r[-1], 0, i, r) for i, r in enumerate(trace) if r[0] in ('clean', 'exec')]
    items += [(o, 1, i, ('line', ln)) for i, (o, ln) in enumerate(lines) if ln.strip()]
    items.sort(key=lambda x: (x[0], x[1], x[2]))
    # the flag a python-action's callable received: the 'got' / 'targets' record that follows its 'exec' record
    flag_of = {}
    for i, r in enumerate(trace):
        if r[0] == 'exec' and r[3] == 'py':
            fl = 9
            for r2 in trace[i + 1:]:
                if r2[0] in ('exec', 'clean'):
                    break
                if r2[0] == 'got':
                    fl = 2 if r2[3] is None else (1 if r2[3] is True else 0 if r2[3] is False else 8)
                    break
                if r2[0] == 'targets':
                    fl = 1 if r2[2] is True else 0 if r2[2] is False else 8
                    break
            flag_of[i] = fl
    cleaned, ev, nann = [], [], {}
    for pos, _, i, r in items:
        if r[0] == 'clean':
            cleaned.append(NAME_ID.get(r[1], 77))
            ev += [1, NAME_ID.get(r[1], 77), 1 if r[2] is True else 0 if r[2] is False else 8]
        elif r[0] == 'exec':
            ev += [3, NAME_ID.get(r[1], 77), 77 if r[2] is None else r[2], 2 if r[3] == 'cmd' else flag_of[i]]
        else:
            ln = r[1]
            m = RX_ANNOUNCE.match(ln)
            if m:
                k = nann.get(m.group(1), 0)
                nann[m.group(1)] = k + 1
                ev += [2, NAME_ID.get(m.group(1), 77), k]
                continue
            m = RX_REMOVING.match(ln)
            if m:
                try:
                    f = w.fileno(m.group(2))
                except ValueError:
                    f = 76
                ev += [4, NAME_ID.get(m.group(1), 77), f]
            elif ' - removing dir ' in ln or ' - cannot remove ' in ln:
                ev += [5]
            # anything else (what a failing clean action writes to stderr) is not an event of the model
    return [0] + cleaned + [-1] + ev + [-1]


class CleanRunner:
    def __init__(self, ctx, out, backend, spec):
        self.ctx, self.out, self.backend, self.spec = ctx, out, backend, spec
        self.w = CleanWorld(ctx, backend, spec)
        self.cases, self.ncmd = [], 0

    def case_desc(self, extra):
        return dict(kind='clean-lists', backend=self.backend, spec=self.spec, **extra)

    def violation(self, what, shape, extra):
        # the replay runs the set-up and this one command (the dry-runs before it changed nothing, or were reported themselves)
        case = self.case_desc(extra)
        case['spec'] = dict(self.spec, cmds=[extra['cmd'].split(' ')])
        self.out.violations.append(dict(what=what, shape=shape, case=case))

    def setup(self):
        w, sp = self.w, self.spec
        for f in CFILES:
            w.write(f, f % 5)
        tops = [n for n in sp['order']]
        rc, txt, log = w.doit(['run'] + tops)
        if rc != 0:
            raise RuntimeError('initial run failed: rc=%s %s' % (rc, txt[-300:]))
        for n in sp.get('forget', []):
            w.doit(['forget', n])
        for f in sp.get('missing', []):
            w.delete(f)
        self.rows = w.table()
        self.names = [r['name'] for r in self.rows]
        self.kinds = {(r['name'], i): a[0] for r in self.rows if r['clean'] is not True for i, a in enumerate(r['clean'])}

    def command(self, args):
        w, out = self.w, self.out
        o = parse_clean_args(args)
        recs0, fs0, ex0 = w.db_records(), w.fs_snapshot(), w.existing()
        del RAN[:]
        del CLEANED[:]
        dbf0 = w.age_dbfiles()
        rc, txt, _ = w.doit(args, trace=True)
        dbf1 = w.dbfiles()
        trace = list(TRACE)
        self.ncmd += 1
        out.count('cmd:clean-lists:' + ('dry-run' if o['dry'] else 'real'))
        recs1, fs1, ex1 = w.db_records(), w.fs_snapshot(), w.existing()
        label = ' '.join(args)
        # ---- oracle: a dry-run invokes nothing but dryrun-aware python actions (with True) and alters nothing
        if o['dry']:
            for r in trace:
                if r[0] == 'exec':
                    kind = self.kinds.get((r[1], r[2]))
                    if r[3] == 'cmd' or kind not in ('T', 'D'):
                        self.violation('`%s` executed clean action #%s of task %s, a %s without a `dryrun` parameter (clean list of the task: %s)' % (
                            label, r[2], r[1], {'S': 'shell command', 'P': 'python callable'}.get(kind, 'n action'),
                            ''.join(a[0] for a in self.spec['tasks'].get(r[1], {}).get('clean') or []) if self.spec['tasks'].get(r[1], {}).get('clean') is not True else 'True'),
                            'cleanlist-dryrun-executed-action', dict(cmd=label, task=r[1], index=r[2]))
                elif r[0] == 'got' and r[3] is not True:
                    if r[3] is not None:          # (a plain callable that ran is reported through its 'exec' record)
                        self.violation('`%s`: clean action #%s of task %s received dryrun=%r' % (label, r[2], r[1], r[3]),
                                       'cleanlist-dryrun-flag-not-passed', dict(cmd=label, task=r[1], index=r[2]))
                elif r[0] in ('targets', 'clean') and r[2] is not True:
                    self.violation('`%s`: %s of task %s was called with dryrun=%r' % (label, 'clean_targets' if r[0] == 'targets' else 'Task.clean', r[1], r[2]),
                                   'cleanlist-dryrun-flag-not-passed', dict(cmd=label, task=r[1]))
            if RAN:
                self.violation('`%s` executed task actions %s' % (label, RAN), 'cleanlist-dryrun-executed-task-action', dict(cmd=label))
            if fs1 != fs0:
                diff = sorted(set(k for k in set(fs0) | set(fs1) if fs0.get(k) != fs1.get(k)))
                self.violation('`%s` altered the file system: %s' % (label, [('removed ' if k not in fs1 else 'created ' if k not in fs0 else 'modified ') + k for k in diff][:6]),
                               'cleanlist-dryrun-altered-fs', dict(cmd=label))
            if recs1 != recs0:
                self.violation('`%s` altered the dependency DB' % label, 'cleanlist-dryrun-altered-db', dict(cmd=label, before=sorted(recs0), after=sorted(recs1)))
            ff = file_frame(out, w.backend, label, True, dbf0, dbf1, False)
            if ff:
                self.violation(ff[1], ff[0], dict(cmd=label, db_files_before=sorted(dbf0), db_files_after=sorted(dbf1)))
        return self.correspond(o, label, rc, txt, trace, recs0, recs1, ex0, ex1)

    def correspond(self, o, label, rc, txt, trace, recs0, recs1, ex0, ex1):
        """the command against the model (DirRunner of c20_dirs.py: Model/Clean.v's command, targets that are directories)"""
        w = self.w
        obs = clean_observation(w, rc, txt, trace)
        if obs[0] == 0:
            obs = obs + [1 if f in ex1 else 0 for f in CFILES] + [-7] + w.db_ints(recs1)
        idx = next_idx()
        pats = []
        pos = coq_sel(o['pos'], self.names, pats)
        selv = o['pos'] or self.spec.get('default')
        sel = 'None' if selv is None else '(Some %s)' % coq_sel(selv, self.names, pats)
        tab = '[' + '; '.join(nlist(x) for x in pats) + ']'
        defs = ('Definition db_# : db := %s.\nDefinition cfs_# : cfs := %s.\nDefinition ctb_# : ctable := %s.\n' % (
            coq_db(w, recs0), nlist(ex0), coq_ctable(self.rows))).replace('#', str(idx))
        model = ('enc_cres TASKS FILES CFILES (cclean_cmd N (fm %s) ctb_# (CO %s %s %s %s %s %s) (CW cfs_# db_#))' % (
            tab, b2c(o['dry']), b2c(o['cleandep']), b2c(o['cleanall']), b2c(o['forget']), pos, sel)).replace('#', str(idx))
        self.cases.append(dict(defs=defs, model=model, expected=obs, desc=self.case_desc(dict(cmd=label))))
        return obs

    def run(self):
        self.setup()
        for args in self.spec['cmds']:
            self.command(list(args))
        return self.cases


def gen_ops(rng, present, absent, own_targets):
    """1-2 file operations that are visible when executed: remove something that exists / create something that does not"""
    ops = []
    for _ in range(rng.choice([1, 1, 2])):
        r = rng.random()
        if r < 0.25 and absent:
            ops.append(['mk', rng.choice(absent)])
        elif r < 0.45 and own_targets:
            ops.append(['rm', rng.choice(own_targets)])
        elif r < 0.9:
            ops.append(['rm', rng.choice([f for f in present if f >= 10] or present)])
        else:
            ops.append(['rm', rng.choice(present)])          # possibly a file_dep or another task's target
    return ops


def gen_act(rng, k, present, absent, own_targets):
    if k == 'T':
        return ['T']
    if k == 'D':
        return ['D', rng.randrange(4), gen_ops(rng, present, absent, own_targets)]
    if k == 'P':
        return ['P', rng.randrange(3), gen_ops(rng, present, absent, own_targets), rng.random() < 0.2]
    return ['S', rng.randrange(3), gen_ops(rng, present, absent, own_targets), rng.random() < 0.2]


def gen_clean_world(rng, lists, rich=True):
    """a world whose tasks carry the given clean lists (strings over TDPS), plus `clean: True` / no clean on the others"""
    n_lists = len(lists)
    pool = list(CLEAN_NAMES)
    rng.shuffle(pool)
    carriers = pool[:n_lists]
    others = [n for n in pool[n_lists:] if rng.random() < 0.8]
    used = carriers + others
    has_group = any(n.startswith('G:') for n in used)
    tops = [n for n in ['T0', 'T1', 'T2', '_P', 'C', 'D'] if n in used] + (['G'] if has_group else [])
    rng.shuffle(tops)
    missing = sorted(rng.sample(range(10, 15), rng.choice([1, 2])))
    present = [f for f in CFILES if f not in missing]
    targets_pool = list(range(5, 10))
    rng.shuffle(targets_pool)
    rank = {n: i for i, n in enumerate(rng.sample(used, len(used)))}
    tasks = {}
    for n in used:
        ntg = rng.choice([0, 1, 1, 2]) if targets_pool else 0
        tg = sorted(targets_pool.pop() for _ in range(min(ntg, len(targets_pool))))
        lower = [m for m in used if rank[m] < rank[n]]
        if has_group:
            lower_g = lower + (['G'] if all(rank[m] < rank[n] for m in used if m.startswith('G:')) and not n.startswith('G:') else [])
        else:
            lower_g = lower
        td = rng.sample(lower_g, min(len(lower_g), rng.choice([0, 0, 1, 1, 2])))
        su = rng.sample(lower, min(len(lower), rng.choice([0, 0, 0, 1])))
        tasks[n] = dict(file_dep=sorted(rng.sample(range(5), rng.choice([0, 1, 1, 2]))), targets=tg, task_dep=td, setup=su, clean=None)
    for n, ks in zip(carriers, lists):
        tasks[n]['clean'] = [gen_act(rng, k, present, missing, tasks[n]['targets']) for k in ks]
    for n in others:
        tasks[n]['clean'] = True if rng.random() < 0.7 else None
    default = None
    if rng.random() < 0.3:
        default = rng.sample(tops, min(len(tops), rng.choice([1, 2])))
    # commands: every combination of -c / -a / --forget with some selection, all dry; then a real one and a dry one after it
    sels = [[], [rng.choice(used)], rng.sample(used, min(2, len(used))), ['T*'], ['*'], ['zz']]
    if has_group:
        sels += [['G'], ['G:*']]
    cmds = []
    for bits in range(8):
        fl = (['-c'] if bits & 1 else []) + (['-a'] if bits & 2 else []) + (['--forget'] if bits & 4 else [])
        if rich:
            chosen = [[]] + rng.sample(sels[1:], 1 if bits else 3)
        else:
            chosen = rng.sample(sels[1:], 2) if not bits else [rng.choice(sels)]
        for sel in chosen:
            cmds.append(['clean', rng.choice(['-n', '--dry-run'])] + fl + sel)
    rng.shuffle(cmds)
    cmds.insert(0, ['clean', '-n', '-a'])
    real = ['clean'] + [x for x in ['-c', '-a', '--forget'] if rng.random() < 0.4] + rng.choice([[], [rng.choice(used)], rng.sample(used, min(3, len(used)))])
    cmds += [real, ['clean', '-n', '-a', '--forget']]
    return dict(order=tops, tasks=tasks, default=default, forget=[n for n in used if rng.random() < 0.15], missing=missing, cmds=cmds)


def all_lists(maxlen):
    res = []
    def go(prefix):
        if prefix:
            res.append(prefix)
        if len(prefix) < maxlen:
            for k in 'TDPS':
                go(prefix + k)
    go('')
    return res


def clean_worlds(ctx):
    """specs covering every sequence over {T,D,P,S} up to length 3 (thorough: 4) + random longer lists"""
    rng = ctx.rng
    lists = all_lists(ctx.n(3, 4))
    rng.shuffle(lists)
    # the documented idiom and its permutations first, one world
    worlds = [['TSP', 'DS', 'TP', 'SPT', 'PD', 'DTSP']]
    per = 6
    for i in range(0, len(lists), per):
        worlds.append(lists[i:i + per])
    for _ in range(ctx.n(2, 12)):
        worlds.append([''.join(rng.choice('TDPS') for _ in range(rng.choice([4, 5, 6]))) for _ in range(rng.choice([3, 5, 6]))])
    return [gen_clean_world(rng, ls, rich=(not ctx.quick or i == 0)) for i, ls in enumerate(worlds)]


# ------------------------------------------------------------------ generators
def D(fd=(), target=False, utd=(), values=(), result=None):
    return dict(file_dep=list(fd), target=target, uptodate=list(utd), values=list(values), result=result)


def gen_utd(rng, t):
    r = rng.random()
    if r < 0.35:
        return ('bool', rng.random() < 0.7)
    if r < 0.43:
        return ('none',)
    if r < 0.60:
        return ('call', rng.choice([True, True, False, None]))
    if r < 0.75:
        return ('run_once',)
    if r < 0.90:
        return ('config', rng.randrange(3))
    return ('result_dep', rng.choice([x for x in range(3) if x != t]))


def gen_def(rng, t, allow_result_dep=True):
    fd = rng.sample(range(4), rng.choice([0, 1, 1, 2, 2, 3]))
    nu = rng.choice([0, 0, 1, 1, 2]) if fd else rng.choice([0, 1, 1, 2])
    utd = [gen_utd(rng, t) for _ in range(nu)]
    if not allow_result_dep:
        utd = [u for u in utd if u[0] != 'result_dep']
    # result_dep chains would make every task wait for another one: at most towards a lower-numbered task
    utd = [u for u in utd if u[0] != 'result_dep' or u[1] < t]
    return D(fd, rng.random() < 0.4, utd, [(k, rng.choice([None, 0, 1, 5])) for k in rng.sample(range(3), rng.choice([0, 0, 1]))],
             rng.choice([None, None, 0, 1, 2]))


def gen_history(rng, n_ops, n_probes):
    shape = dict(group=rng.random() < 0.5, private=rng.random() < 0.5, calc=rng.random() < 0.4,
                 d_own=rng.choice([[], [0], [1, 2]]))
    h = [('SetChecker', rng.choice(['md5', 'md5', 'ts']))]
    tail = rng.random() < 0.4           # ends with: ignore a task, switch the checker, ONE status query, the run
    for f in range(5):
        if rng.random() < 0.9 or f == 4:
            h.append(('Write', f, rng.randrange(5)))
    names = ['T0', 'T1', 'T2'] + (['G:a', 'G:b', 'G'] if shape['group'] else []) + (['_P'] if shape['private'] else []) + (['C', 'D'] if shape['calc'] else [])
    for t in range(3):
        h.append(('SetDef', t, gen_def(rng, t)))
    h.append(('Run', [], [n for n in names if rng.random() < 0.1]))
    probes_at = set(rng.sample(range(n_ops), min(n_probes - 1, n_ops)))
    for i in range(n_ops):
        r = rng.random()
        f = rng.randrange(5)
        t = rng.randrange(3)
        n = rng.choice(names)
        if r < 0.18:
            h.append(('Write', f, rng.randrange(5)))
        elif r < 0.25:
            h.append(('Touch', f))
        elif r < 0.35:
            h.append(('Delete', rng.randrange(8)))
        elif r < 0.50:
            h.append(('SetDef', t, gen_def(rng, t)))
        elif r < 0.58:
            h.append(('SetChecker', rng.choice(['md5', 'ts'])))
        elif r < 0.75:
            h.append(('Run', rng.sample(names, rng.choice([1, 2, 3])) if rng.random() < 0.5 else [], [x for x in names if rng.random() < 0.15 and x != 'C']))
        elif r < 0.82:
            h.append(('Forget', n))
        elif r < 0.88:
            h.append(('Ignore', n))
        elif r < 0.95:
            h.append(('ResetDep', n))
        else:
            h.append(('ForgetAll',))
        if i in probes_at:
            h.append(('Probe', False))
    if tail:
        ck = [s_[1] for s_ in h if s_[0] == 'SetChecker'][-1]
        h += ignore_switch_tail(rng, names, ck, shape['group'])
    h.append(('Probe', False))
    return shape, h


def scripted():
    T, F = ('bool', True), ('bool', False)
    W = [('Write', f, f) for f in range(5)]
    hs = []
    full = dict(group=True, private=True, calc=True, d_own=[])
    # calc_dep: after two runs D is up-to-date for `run`; list / info must merge what C saved (repaired a4fdc5e)
    hs.append((full, W + [('SetDef', 0, D([0])), ('SetDef', 1, D([1], True)), ('SetDef', 2, D([], utd=[T])), ('Run', [], []), ('Run', [], []), ('Probe', True)]))
    hs.append((dict(calc=True, d_own=[0]), W + [('SetDef', 0, D([0])), ('Run', [], []), ('Probe', False), ('Write', 3, 1), ('Probe', False)]))
    # a missing file_dep together with a changed one / with an uptodate item that is false / with a missing target
    hs.append((dict(), W + [('SetDef', 0, D([0, 1])), ('SetDef', 1, D([0, 1], utd=[F])), ('SetDef', 2, D([0, 1], True)), ('Run', [], []),
                            ('Write', 0, 3), ('Delete', 1), ('Delete', 7), ('Probe', False)]))
    hs.append((dict(), W + [('SetDef', 0, D([0, 1])), ('SetDef', 1, D([1], utd=[F])), ('SetDef', 2, D([1], True)), ('Run', [], []),
                            ('Delete', 1), ('Delete', 7), ('Probe', False)]))
    # a missing file_dep together with a changed SET of file_dep (the missing one is the added one; `info` logs added / removed
    # without deciding anything: still an error), the same with a modified dependency besides; then a changed checker and the
    # only file_dep missing (`run` executes the task: the checker test comes first)
    hs.append((dict(), W + [('SetDef', 0, D([0, 1])), ('SetDef', 1, D([1])), ('SetDef', 2, D([1, 2])), ('Run', [], []),
                            ('SetDef', 0, D([0, 3])), ('SetDef', 2, D([2, 3])), ('Write', 2, 0), ('Delete', 3), ('Probe', False),
                            ('SetChecker', 'ts'), ('Delete', 1), ('Probe', False)]))
    # checker changed: the documented invalidation (written through by dbm only), then back
    hs.append((dict(group=True, private=True), W + [('SetDef', 0, D([0, 1], True)), ('SetDef', 1, D([2], utd=[('run_once',)])), ('SetDef', 2, D([], utd=[('config', 1)])),
                                                    ('Run', [], []), ('SetChecker', 'ts'), ('Probe', True), ('SetChecker', 'md5'), ('Probe', False),
                                                    ('SetChecker', 'ts'), ('Run', ['T0'], []), ('SetChecker', 'md5'), ('Probe', False)]))
    # ignore, forget, failed run, deleted target, dep set changed, result_dep
    hs.append((dict(group=True, private=True), W + [('SetDef', 0, D([0], True, result=1)), ('SetDef', 1, D([1, 2], utd=[('result_dep', 0)])), ('SetDef', 2, D([3], values=[(0, 5)])),
                                                    ('Run', [], []), ('Ignore', 'T2'), ('Ignore', 'G:a'), ('Forget', '_P'), ('Delete', 5), ('Probe', False),
                                                    ('Run', [], ['T0']), ('SetDef', 1, D([1], utd=[('result_dep', 0)])), ('Touch', 3), ('Probe', False),
                                                    ('ResetDep', 'T1'), ('ForgetAll',), ('Probe', False)]))
    # a file dependency that left file_dep and is back, untouched (its state saved two executions ago is still in the record):
    # `info` lists it as added AND as changed; then the other one leaves and comes back after being modified
    hs.append((dict(), W + [('SetDef', 0, D([0, 1])), ('SetDef', 1, D([2, 3], utd=[T])), ('SetDef', 2, D([0])), ('Run', [], []),
                            ('SetDef', 0, D([0])), ('SetDef', 1, D([3], utd=[T])), ('Run', [], []), ('Probe', False),
                            ('SetDef', 0, D([0, 1])), ('SetDef', 1, D([2, 3], utd=[T])), ('SetDef', 2, D([0, 1])), ('Probe', False),
                            ('Run', [], []), ('Probe', False),
                            ('SetDef', 0, D([1])), ('Run', [], []), ('Write', 0, 3), ('SetDef', 0, D([0, 1])), ('Probe', False)]))
    # nothing ever ran (no DB at all), and a dangling task_dep for `list --all X`
    hs.append((dict(group=True), [('SetDef', 0, D([0])), ('Probe', True)]))
    hs.append((dict(group=True, dangling=True), W + [('SetDef', 0, D([0])), ('Probe', False)]))
    return hs


def ignore_switch_scripted():
    """an ignore mark AND a changed file-checker setting before ONE status query, then the run (step Ask).  `run` looks at the
    ignore mark before anything else (Runner.select_task): the task is skipped as ignored and its record -- saved by the other
    checker, carrying the mark -- stays as it is; so `list -s` must show I, `info` must say ignored, and neither may touch the
    record (the only write of get_status, the removal of a record saved by another checker, is written through at once by the
    dbm backend).  Both directions (md5 -> timestamp, timestamp -> md5); the query is about the ignored task, about ANOTHER
    task (whose own record may go: the documented invalidation), about everything, about the sub-tasks of an ignored group
    and about one ignored sub-task.  After the first run of an Ask the other tasks are saved by the new checker while the ignored
    one still carries the old one: the later queries of the same history see exactly one foreign record, the ignored one."""
    T = ('bool', True)
    W = [('Write', f, f) for f in range(3)]
    hs = []
    for a, b in (('md5', 'ts'), ('ts', 'md5')):
        base = [('SetChecker', a)] + W + [('SetDef', 0, D([0])), ('SetDef', 1, D([1])), ('SetDef', 2, D([0, 1], utd=[T])), ('Run', [], [])]
        # run; ignore T0; switch; list -s T0; run  (then info T0, everything, after one more switch back: the record is native again)
        hs.append((dict(), base + [('Ignore', 'T0'), ('SetChecker', b), ('Ask', ['list', '-s', 'T0']), ('Ask', ['info', 'T0']),
                                   ('Ask', ['list', '-s', '--all', '-p'])]))
        # the same with `info` first, and `list -s` of ANOTHER task than the ignored one before that
        hs.append((dict(), base + [('Ignore', 'T0'), ('SetChecker', b), ('Ask', ['list', '-s', 'T1', 'T2']), ('Ask', ['info', 'T0']),
                                   ('Ask', ['list', '-s', 'T0', 'T1'])]))
        # an ignored group: `doit ignore G` marks G and its sub-tasks; one ignored sub-task
        hs.append((dict(group=True), base + [('Ignore', 'G'), ('SetChecker', b), ('Ask', ['list', '-s', '--all', 'G']), ('Ask', ['info', 'G:a']),
                                             ('Ask', ['list', '-s', '--all', '-p'])]))
        hs.append((dict(group=True), base + [('Ignore', 'G:b'), ('Ignore', 'T2'), ('SetChecker', b), ('Ask', ['info', 'G:b']),
                                             ('Ask', ['list', '-s', '--all', 'G', 'T2'])]))
    return hs


def ignore_switch_tail(rng, names, ck, group):
    """random histories: ... [Run]; Ignore n; SetChecker <the other one>; Ask <a status query>"""
    n = rng.choice(names)
    other = [x for x in names if x != n] or [n]
    q = rng.choice([['list', '-s', n], ['info', n], ['list', '-s', '--all', '-p'], ['list', '-s', rng.choice(other)], ['list', '-s', n, rng.choice(other)],
                    ['info', rng.choice(other)]])
    if group and q[0] == 'list' and n == 'G':
        q = ['list', '-s', '--all', 'G']
    return ([('Run', [], [])] if rng.random() < 0.7 else []) + [('Ignore', n), ('SetChecker', 'ts' if ck == 'md5' else 'md5'), ('Ask', q)]


def file_frame_scripted():
    """the file-level frame, every seed, the three backends: every kind of read-only command (step Frame) when there is no DB
    at all, after a run (some tasks up-to-date, some not), and after a checker switch with an ignore mark (the documented
    invalidation: written through by dbm only)"""
    T = ('bool', True)
    W = [('Write', f, f) for f in range(5)]
    h = W + [('SetDef', 0, D([0, 1], True)), ('SetDef', 1, D([2], utd=[('run_once',)])), ('SetDef', 2, D([0], utd=[T])),
             ('Frame',), ('Run', [], []), ('Write', 2, 0), ('Frame',),
             ('Ignore', 'T2'), ('SetChecker', 'ts'), ('Frame',)]
    return [(dict(group=True, private=True), h)]


# ------------------------------------------------------------------ a run of another process while a read-only command is in progress
OTHER_DODO = """import os
DOIT_CONFIG = {'backend': %(backend)r, 'dep_file': %(db)r, 'verbosity': 0, 'check_file_uptodate': 'md5'}

def _executed(name):
    with open(%(log)r, 'a') as fh:
        fh.write(name + '\\n')

def task_V():
    return {'actions': [(_executed, ['V'])], 'file_dep': [%(dv)r]}

def task_W():
    return {'actions': [(_executed, ['W'])], 'file_dep': [%(dw)r]}
"""


class Interleave:
    """json backend (the whole file is read when the command starts): tasks V and W, one file dependency each.  While the
    read-only command `cmd` is in progress -- after it opened the DB: task-creators are called after that -- a COMPLETE
    `doit run W` of another process (a sub-process: python -m doit run -f other_dodo.py W, same DB file) takes place,
    started either by the task-creator of W when it is first called (trigger 'creator') or by an uptodate callable of V that
    `list -s` / `info V` evaluates (trigger 'uptodate').  When the command has returned, what that run saved must still be in
    the DB file (byte for byte what the sub-process left) and the next `doit run W` must find W up-to-date.
        prior: 'nodb' no DB file at all | 'other' V saved by an earlier run, W never ran | 'stale' both saved, then the
        dependency of W modified (the concurrent run executes W again and saves the new state)"""
    def __init__(self, ctx, out, sc):
        self.ctx, self.out, self.sc = ctx, out, sc
        self.backend = sc.get('backend', 'json')
        d = self.dir = ctx.subdir('c20il')
        for f in os.listdir(d):
            p = os.path.join(d, f)
            shutil.rmtree(p) if os.path.isdir(p) else os.remove(p)
        self.dbdir = os.path.join(d, '_db')
        os.makedirs(self.dbdir)
        self.dbpath = os.path.join(self.dbdir, 'deps.' + self.backend)
        self.log, self.dv, self.dw = os.path.join(d, 'log'), os.path.join(d, 'dv'), os.path.join(d, 'dw')
        self.dodo = os.path.join(d, 'other_dodo.py')
        self.armed = False
        self.sub = None                    # (return code, output, DB file bytes right after the sub-process)
        self.ncmd = 0

    def executed(self):
        if not os.path.exists(self.log):
            return []
        with open(self.log) as fh:
            return fh.read().split()

    def other_process(self):
        """a complete `doit run W` of another process"""
        import subprocess, doit
        self.armed = False
        repo = os.path.dirname(os.path.dirname(os.path.abspath(doit.__file__)))
        env = dict(os.environ, PYTHONPATH=repo, PYTHONHASHSEED='0', PYTHONDONTWRITEBYTECODE='1')
        p = subprocess.run([sys.executable, '-m', 'doit', 'run', '-f', self.dodo, 'W'], cwd=self.dir, env=env,
                           stdout=subprocess.PIPE, stderr=subprocess.STDOUT, universal_newlines=True, timeout=120)
        self.sub = (p.returncode, p.stdout[-400:], self.dbbytes())

    def dbbytes(self):
        if not os.path.exists(self.dbpath):
            return None
        with open(self.dbpath, 'rb') as fh:
            return fh.read()

    def namespace(self):
        s = self

        def act(name):
            def a():
                with open(s.log, 'a') as fh:
                    fh.write(name + '\n')
            return a

        def utd():
            if s.armed and s.sc['trigger'] == 'uptodate':
                s.other_process()
            return True

        def task_V():
            return {'actions': [act('V')], 'file_dep': [s.dv], 'uptodate': [utd]}

        def task_W():
            if s.armed and s.sc['trigger'] == 'creator':
                s.other_process()
            return {'actions': [act('W')], 'file_dep': [s.dw], 'clean': True}
        return {'DOIT_CONFIG': {'dep_file': s.dbpath, 'backend': BACKEND_OPT[s.backend], 'check_file_uptodate': 'md5',
                                'reporter': RecReporter, 'verbosity': 0},
                'task_V': task_V, 'task_W': task_W}

    def doit(self, args):
        from doit.doit_cmd import DoitMain
        from doit.cmd_base import ModuleTaskLoader
        from doit.globals import Globals
        RecReporter.log = []
        buf = io.StringIO()
        real = (sys.stdout, sys.stderr)
        cwd = os.getcwd()
        os.chdir(self.dir)
        try:
            with contextlib.redirect_stdout(buf), contextlib.redirect_stderr(buf):
                try:
                    rc = DoitMain(ModuleTaskLoader(self.namespace())).run(args)
                except SystemExit:
                    rc = 90
                except BaseException as e:  # noqa
                    rc = 91
                    buf.write('ESCAPED %s' % type(e).__name__)
        finally:
            os.chdir(cwd)
            sys.stdout, sys.stderr = real
            Globals.dep_manager = None
            end_of_process(self.backend)
        self.ncmd += 1
        return rc, buf.getvalue(), list(RecReporter.log)

    def run(self):
        sc, out = self.sc, self.out
        label = ' '.join(sc['cmd'])
        for p, c in ((self.dv, b'v1'), (self.dw, b'w1')):
            with open(p, 'wb') as fh:
                fh.write(c)
        with open(self.dodo, 'w') as fh:
            fh.write(OTHER_DODO % dict(backend=BACKEND_OPT[self.backend], db=self.dbpath, log=self.log, dv=self.dv, dw=self.dw))
        if sc['prior'] == 'other':
            self.doit(['run', 'V'])
        elif sc['prior'] == 'stale':
            self.doit(['run'])
            with open(self.dw, 'wb') as fh:
                fh.write(b'w2 modified')
        n0 = self.executed().count('W')
        self.armed = True
        rc, txt, _ = self.doit(list(sc['cmd']))
        out.count('interleave:%s:%s:%s' % (sc['trigger'], sc['prior'], sc['cmd'][0]))
        after = self.dbbytes()
        if self.sub is None or self.sub[0] != 0 or self.executed().count('W') != n0 + 1 or self.sub[2] is None or b'"W"' not in self.sub[2]:
            # the scenario did not take place (the command never called the trigger, or the other process failed): a harness problem
            raise RuntimeError('interleaving scenario %s did not take place: rc=%s sub=%r out=%r' % (sc, rc, self.sub and self.sub[:2], txt[-300:]))
        rc2, txt2, log2 = self.doit(['run', 'W'])
        again = self.executed().count('W') - (n0 + 1)
        kept = after == self.sub[2]
        if not kept or again or ('uptodate', 'W', None) not in log2:
            try:
                names = sorted(json.loads(after.decode())) if after is not None else None
            except ValueError:
                names = 'not json'
            what = ('`%s` was in progress (json backend, %s) while a complete `doit run W` of another process executed W and saved it in the DB file; when `%s` '
                    'had returned the DB file %s (task ids in it: %s) and the next `doit run W` %s: the read-only command wrote its stale picture of the DB over '
                    'the state saved by the run' % (
                        label, {'nodb': 'no DB file before', 'other': 'only V saved before', 'stale': 'W saved before, its file_dep modified since'}[sc['prior']], label,
                        'was what the run had left' if kept else ('was gone' if after is None else 'was NOT what the run had left'), names,
                        'executed W AGAIN' if again else 'found W up-to-date'))
            shape = KNOWN_DRYRUN_CLOSE if sc['cmd'][0] == 'clean' else 'readonly-overwrote-concurrent-run'
            out.violations.append(dict(what=what, shape=shape, case=dict(kind='interleave', backend=self.backend, scenario=sc)))
        else:
            out.count('interleave-state-of-concurrent-run-kept')


def interleave_scenarios(quick):
    """systematic, every seed: each read-only command that loads the tasks x the trigger it can reach x the three prior states
    (quick tier: the three prior states for the first two, one of them -- in rotation -- for the others)"""
    scs = []
    for i, (cmd, trig) in enumerate(((['list', '-s'], 'creator'), (['list', '-s'], 'uptodate'), (['list', '-s', '--all', '-p', '--deps'], 'uptodate'),
                      (['info', 'V'], 'uptodate'), (['info', 'W'], 'creator'), (['list'], 'creator'), (['list', '--deps', '--all'], 'creator'),
                      (['info', '--no-status', 'W'], 'creator'), (['help', 'W'], 'creator'), (['tabcompletion', '-s', 'bash', '--hardcode-tasks'], 'creator'),
                      (['clean', '-n'], 'creator'), (['clean', '--dry-run', '-a', 'W'], 'creator'))):
        priors = ('nodb', 'other', 'stale')
        if quick and i in (6, 11):
            continue
        for prior in (priors if (i < 2 or not quick) else (priors[i % 3],)):
            scs.append(dict(cmd=cmd, trigger=trig, prior=prior, backend='json'))
    return scs


# ------------------------------------------------------------------ chains / trees of calc_dep tasks
def KT(vals, fd=(4,), calc=()):
    """a calc task: its action returns `vals` (file numbers under 'file_dep', task names under 'calc_dep' / 'task_dep')"""
    d = dict(fd=list(fd), vals={k: list(x) for k, x in vals.items()})
    if calc:
        d['calc'] = list(calc)
    return d


def chain_scripted():
    W = [('Write', f, f) for f in range(5)]
    hs = []
    # depth 2: A -> K1 -> K2 -> f1; B -> K2 is the control (depth 1).  Nothing modified / f1 modified / the calc tasks stale
    c2 = dict(A=dict(calc=['K1']), B=dict(calc=['K2'], fd=[0]), K1=KT({'calc_dep': ['K2']}), K2=KT({'file_dep': [1]}))
    hs.append((dict(chain=c2), W + [('Run', [], []), ('Probe', False), ('Write', 1, 3), ('Probe', 'lite'), ('Write', 4, 0), ('Probe', 'lite')]))
    # depth 3, file_dep at every level, task_dep contributed at depth 2 and 3 (one of them twice); a missing file; a forgotten link
    c3 = dict(A=dict(calc=['K1'], fd=[3]), K1=KT({'calc_dep': ['K2'], 'file_dep': [0]}), K2=KT({'calc_dep': ['K3'], 'task_dep': ['S1']}),
              K3=KT({'file_dep': [1, 2], 'task_dep': ['S2', 'S1']}), S1=dict(fd=[4]), S2=dict(fd=[4]))
    hs.append((dict(chain=c3), W + [('Run', [], []), ('Probe', 'lite'), ('Delete', 2), ('Probe', 'lite'), ('Write', 2, 2), ('Run', [], []),
                                    ('Forget', 'K2'), ('Probe', 'lite'), ('Probe', 'lite')]))
    # diamond with sharing, a back reference, a self reference and a repeat; B enters the same calc tasks elsewhere
    dm = dict(A=dict(calc=['K1', 'K2']), B=dict(calc=['K3']), K1=KT({'calc_dep': ['K3'], 'file_dep': [0]}),
              K2=KT({'calc_dep': ['K3', 'K3', 'K2'], 'file_dep': [0, 1]}), K3=KT({'file_dep': [2], 'calc_dep': ['K1']}))
    hs.append((dict(chain=dm), W + [('Run', [], []), ('Probe', 'lite'), ('Touch', 2), ('Write', 0, 4), ('Probe', 'lite')]))
    # tree: the calc task K1 has a calc_dep of its own (K4 tells K1's file_dep); what K1 returns changes between two executions
    tr = dict(A=dict(calc=['K1']), K1=KT({'calc_dep': ['K2']}, calc=['K4']), K2=KT({'file_dep': [1]}), K3=KT({'file_dep': [2]}), K4=KT({'file_dep': [3]}))
    hs.append((dict(chain=tr), W + [('Run', [], []), ('Probe', 'lite'), ('SetVals', 'K1', {'calc_dep': ['K3']}), ('Probe', 'lite'), ('Write', 3, 0), ('Run', [], []),
                                    ('Probe', 'lite'), ('Ignore', 'K3'), ('Probe', 'lite')]))
    # a saved name that is not a task: list / info skip it; `run` stops with a KeyError, so there is nothing to compare the letters with
    un = dict(A=dict(calc=['K1']), K1=KT({'calc_dep': ['nope', 'K2']}), K2=KT({'file_dep': [1]}))
    hs.append((dict(chain=un), W + [('Run', ['K1', 'K2'], []), ('Probe', 'lite')]))
    return hs


def gen_kvals(rng, ks, i, plain, back):
    vals, later = {}, ks[i + 1:]
    if later and rng.random() < 0.8:
        cd = rng.sample(later, rng.choice([1, 1, 2]) if len(later) > 1 else 1)
        if back and rng.random() < 0.25:
            cd.append(rng.choice(ks))              # back or self reference
        if rng.random() < 0.15:
            cd.append(cd[0])                       # repeat
        vals['calc_dep'] = cd
    if not later or rng.random() < 0.5:
        vals['file_dep'] = sorted(rng.sample(range(4), rng.choice([1, 1, 2])))
    if plain and rng.random() < 0.3:
        vals['task_dep'] = rng.sample(plain, rng.choice([1, len(plain)]))
    return vals


def gen_chain_history(rng, n_ops):
    """2-4 calc tasks K1..Kn whose saved values name later ones (chains of depth 1-3, diamonds, sharing; sometimes back / self
    references and repeats), consumers A (and B), plain tasks S* contributed as task_dep; sometimes K1 has a calc_dep itself"""
    nk = rng.choice([2, 3, 3, 4])
    ks = ['K%d' % i for i in range(1, nk + 1)]
    plain = sorted(rng.sample(['S1', 'S2'], rng.choice([0, 1, 2])))
    tree = nk >= 3 and rng.random() < 0.3
    back = not tree                                # a back reference into a calc task that declares calc_dep would be a real cycle
    ch = {}
    ch['A'] = dict(calc=sorted(rng.sample(ks[:2], rng.choice([1, 1, 2]))), fd=sorted(rng.sample(range(4), rng.choice([0, 0, 1]))))
    if rng.random() < 0.6:
        ch['B'] = dict(calc=[rng.choice(ks)], fd=[], td=(['A'] if rng.random() < 0.3 else []))
    for i, k in enumerate(ks):
        ch[k] = KT(gen_kvals(rng, ks, i, plain, back))
    if tree:
        ch[ks[0]]['calc'] = [ks[-1]]
    for p_ in plain:
        ch[p_] = dict(fd=[4])
    names = list(ch)
    h = [('SetChecker', rng.choice(['md5', 'md5', 'ts']))] + [('Write', f, rng.randrange(5)) for f in range(5)] + [('Run', [], [])]
    if rng.random() < 0.5:
        h.append(('Probe', 'lite'))
    for _ in range(n_ops):
        r = rng.random()
        if r < 0.22:
            h.append(('Write', rng.randrange(4), rng.randrange(5)))
        elif r < 0.28:
            h.append(('Touch', rng.randrange(4)))
        elif r < 0.36:
            h.append(('Delete', rng.randrange(4)))
        elif r < 0.46:
            h.append(('Write', 4, rng.randrange(5)))                     # the calc tasks are stale
        elif r < 0.60:
            i = rng.randrange(nk)
            h.append(('SetVals', ks[i], gen_kvals(rng, ks, i, plain, back)))
        elif r < 0.80:
            h.append(('Run', rng.sample(names, rng.choice([1, 2])) if rng.random() < 0.3 else [], [x for x in names if rng.random() < 0.1]))
        elif r < 0.88:
            h.append(('Forget', rng.choice(names)))
        elif r < 0.92:
            h.append(('Ignore', rng.choice(names)))
        elif r < 0.96:
            h.append(('SetChecker', rng.choice(['md5', 'ts'])))
        else:
            h.append(('ResetDep', rng.choice(names)))
        if rng.random() < 0.25:
            h.append(('Probe', 'lite'))
    # everything up-to-date (unless something is missing / ignored), then one modification of a file the consumers depend on
    h += [('Run', [], []), ('Probe', 'lite'), rng.choice([('Write', rng.randrange(4), rng.randrange(5)), ('Touch', rng.randrange(4)), ('Delete', rng.randrange(4))]),
          ('Probe', 'lite')]
    if rng.random() < 0.3:
        ck = [s_[1] for s_ in h if s_[0] == 'SetChecker'][-1]
        h += ignore_switch_tail(rng, names, ck, False)
    return dict(chain=ch), h


RULE = ('scripted histories (calc_dep, missing file_dep with changed dep / false uptodate / missing target, checker switch, ignore, forget, failed run, '
        'result_dep, a file dependency that left file_dep and is back (info: added AND changed), empty DB, dangling task_dep) + ignore mark and checker switch before ONE status query and the run (run; ignore t; switch md5 <-> timestamp; '
        'list -s / info of the ignored task, of another task, of everything, of the sub-tasks of an ignored group, of one ignored sub-task; the three backends, every seed; '
        'the same as a tail of random histories) + calc_dep chains / trees (calc tasks whose saved values name file_dep, task_dep and further calc_dep: '
        'depth 1-3, diamonds, sharing, back / self references, repeats, a name that is not a task, a calc task with a calc_dep of its own, values '
        'that change between executions; scripted on the three backends + random worlds) + random histories (3 configurable tasks + optional group with 2 sub-tasks, private task, '
        'calc_dep pair; 5 dependency files, 3 targets; both checkers), backends in rotation; at each probe a sample (or all) of the read-only '
        'command variants, then list -s --all -p, info of every task and a run.  non-trivial = distinct (history, command) executed after at '
        'least one successful run of the history.  clean --dry-run: worlds of up to 9 tasks whose clean lists enumerate every sequence over '
        '{clean_targets, python callable with dryrun, python callable without, shell command} up to length 3 (thorough 4) plus random longer ones, '
        'with task_dep / setup edges, a group, default_tasks; after a real run, `clean -n` with every combination of -c -a --forget and '
        'positional selections, then one real clean and a dry-run after it; every command is a non-trivial case.  File-level frame around every read-only command '
        '(DB files: same set, bytes, mtimes) + step Frame (fixed list of every kind of read-only command; no DB / after a run / after ignore + checker switch; three backends, every seed) '
        '+ interleaving scenarios (json: a complete `doit run W` of a sub-process started by a task-creator / an uptodate callable while list / info / help / tabcompletion / clean -n is in progress; '
        'three prior states; every scenario is a non-trivial case) '
        '+ clean --dry-run over targets that are DIRECTORIES (c20_dirs.py): random trees of depth <= 3 whose nodes (directories, files) are targets of up to 8 tasks '
        '(parent and child of one task or of two; foreign content; targets never created) with clean: True / clean_targets inside a list / lists of python callables / no clean; '
        'history = run (creates the tree), then files deleted / directories emptied, removed or given foreign content, then `clean -n` with every combination of -c -a --forget and selections, '
        'one real clean, dry-runs after it (thorough: a second run + changes + batch); two scripted worlds every seed; every command is a non-trivial case')


def run(ctx):
    out = Outcome()
    out.rule = RULE
    # the model is evaluated from its .vo: bring it up to date with what it imports before anything else
    ok, log = common.coq_build(['Model/Introspect.vo'])
    if not ok:
        raise RuntimeError('cannot build Model/Introspect.vo: ' + log[-1500:])
    rng = ctx.rng
    cache_entry_points()
    hs = [('scripted', s, h) for s, h in scripted()]
    hs += [('ignore-switch', s, h) for s, h in ignore_switch_scripted()]      # (before the random ones: the shortest history is the replay)
    for i in range(ctx.n(7, 80)):
        s, h = gen_history(rng, rng.randrange(3, ctx.n(7, 12)), ctx.n(2, 3))
        hs.append(('random', s, h))
    n_chain0 = len(hs)
    hs += [('chain-scripted', s, h) for s, h in chain_scripted()]
    for i in range(ctx.n(4, 60)):
        s, h = gen_chain_history(rng, rng.randrange(2, ctx.n(5, 9)))
        hs.append(('chain-random', s, h))
    hs += [('file-frame', s, h) for s, h in file_frame_scripted()]      # (last: the backends of the histories above stay what they were)
    cases = []
    backends = ('json', 'dbm', 'sqlite')
    t0 = time.time()
    for hi, (kind, shape, h) in enumerate(hs):
        todo = backends if (kind == 'scripted' and hi < 5 and not ctx.quick) else (backends[hi % 3],)
        if kind == 'scripted' and hi in (0, 2, 4) and ctx.quick:
            todo = ('dbm', backends[hi % 3]) if backends[hi % 3] != 'dbm' else ('dbm', 'json')
        if kind == 'chain-scripted' and (hi - n_chain0 < 3 or not ctx.quick):
            todo = backends                  # the chain / diamond shapes on every backend
        if kind in ('ignore-switch', 'file-frame'):
            todo = backends                  # ignore mark + checker switch + one status query: every backend, every seed
        for b in todo:
            r = Runner(ctx, out, b, h, shape, kind)
            t_h = time.time()
            try:
                cs = r.run()
            except Exception as e:  # noqa -- a harness/implementation failure becomes a disagreement, not a crash
                import traceback
                cs = r.cases + [dict(model='[0]', expected=[97, len(type(e).__name__)], desc=dict(error=traceback.format_exc()[-600:], history=h, backend=b))]
            out.count('history:%s:%s' % (kind, b))
            secs = out.extra.setdefault('seconds_by_history_kind', {})
            secs[kind] = round(secs.get(kind, 0) + time.time() - t_h, 1)
            ncs = out.extra.setdefault('cases_by_history_kind', {})
            ncs[kind] = ncs.get(kind, 0) + len(cs)
            for c in cs:
                ran_before = any(s_[0] == 'Run' for s_ in h)
                if ran_before:
                    out.nontrivial.add((hi, b, c['desc'].get('cmd'), len(cases)))
                cases.append(c)
            out.evaluations += r.ncmd
    # a complete run of another process while a read-only command is in progress (json backend)
    t_il = time.time()
    for sc in interleave_scenarios(ctx.quick):
        il = Interleave(ctx, out, sc)
        try:
            il.run()
        except Exception as e:  # noqa
            import traceback
            cases.append(dict(model='[0]', expected=[97, len(type(e).__name__)], desc=dict(error=traceback.format_exc()[-900:], kind='interleave', scenario=sc)))
        out.nontrivial.add(('interleave', json.dumps(sc, sort_keys=True)))
        out.evaluations += il.ncmd
    out.extra['interleave_scenarios'] = len(interleave_scenarios(ctx.quick))
    out.extra['interleave_seconds'] = round(time.time() - t_il, 1)
    # clean --dry-run over clean lists
    t1 = time.time()
    specs = clean_worlds(ctx)
    n_before = len(cases)
    for wi, spec in enumerate(specs):
        b = backends[wi % 3]
        r = CleanRunner(ctx, out, b, spec)
        try:
            cs = r.run()
        except Exception as e:  # noqa
            import traceback
            cs = r.cases + [dict(model='[0]', expected=[97, len(type(e).__name__)], desc=dict(error=traceback.format_exc()[-900:], kind='clean-lists', spec=spec, backend=b))]
        out.count('clean-world:%s' % b)
        for t_ in spec['tasks'].values():
            if isinstance(t_['clean'], list):
                out.count('clean-list-length:%d' % len(t_['clean']))
                out.extra.setdefault('_lists', set()).add(''.join(a[0] for a in t_['clean']))
        for c in cs:
            out.nontrivial.add(('clean', wi, b, c['desc'].get('cmd'), len(cases)))
            cases.append(c)
        out.evaluations += r.ncmd
    out.extra['clean_lists_distinct_kind_sequences'] = len(out.extra.pop('_lists', set()))
    out.extra['clean_worlds'] = len(specs)
    out.extra['clean_commands'] = len(cases) - n_before
    out.extra['clean_seconds'] = round(time.time() - t1, 1)
    # clean --dry-run over targets that are directories (emptied / filled / removed after the run): c20_dirs.py
    import c20_dirs
    c20_dirs.run_part(ctx, out, cases, backends)
    out.extra['command_runs'] = out.evaluations
    out.extra['impl_seconds'] = round(time.time() - t0, 1)
    if cases:
        for c in (cases[0], cases[n_before // 2], cases[n_before], cases[-2]):
            out.samples.append(dict(cmd=c['desc'].get('cmd'), backend=c['desc'].get('backend'), observed=c['expected'][:60]))
    bad = common.compare_with_model(ctx, PRE, cases, tag='c20')
    out.traces_validated = len(cases)
    for i, m in bad:
        out.mismatches.append(dict(case=cases[i]['desc'], impl=cases[i]['expected'], model=m))
    out.assumptions = ['calc_dep: the values a calc task saved contribute file_dep, calc_dep (to any depth) and task_dep; an `uptodate` key in such values, `*` patterns in a contributed '
                       'task_dep and the implicit task_dep `run` adds when a contributed file_dep is the target of another task are not modelled and not generated; the letters / verdicts '
                       'are compared with the run only for tasks whose dependencies (as the run ended up seeing them) were all skipped up-to-date',
                       'file-level frame (set of DB files, bytes, mtimes; state of a concurrent run kept) is implementation-side only: the model and the frame theorems speak about the logical DB in memory and on disk '
                       '([persisted]: dbm writes the documented invalidation through, json / sqlite3 do not), not about files.  DbmDB / SqliteDB create their empty DB files when the DB is opened -- the harness opens it for its '
                       'own snapshot before the command, so creation by the command is observed on the json backend only (DESIGN C20: an empty DB file where none existed is not an alteration of the logical DB); '
                       'the dbm backend is dbm.dumb in this environment (no gdbm / ndbm module)',
                       'callables in uptodate are oracles (Some true / Some false / None); tools.run_once, config_changed (string form) and result_dep on a plain task are modelled',
                       'help, dumpdb and tabcompletion are tied by snapshots only (model: no transition); so are the clean --dry-run variants inside the list/info histories',
                       'clean lists: what a user-written clean action does to files is an oracle carried by the action; the instrumented callables with a `dryrun` parameter honour it (hypothesis `honest` of C20_clean_cmd_dryrun_frame); targets are regular files there; directories as targets: the clean-dirs part (c20_dirs.py) against Model/Clean.v, where a user-written clean action has no effect on files (the instrumented ones have none) and '
                       'clean_targets INSIDE a list is judged by the oracles only; symbolic links, permission failures and mount points are neither generated nor modelled',
                       'layout of the printed lines (--quiet, --template, column width, the attribute listing of info) is not modelled']
    out.extra['trusted_base'] = ['harness/c20.py: World (real commands in-process), snapshots, parsers of the printed text, State (Coq literals of the state read back), true_reasons (oracle)',
                                 'harness/c20.py: CleanTrace (sys.setprofile record of Task.clean / action.execute / clean_targets calls), CleanWorld (instrumented clean callables, shell commands), clean_observation',
                                 'harness/c20_dirs.py: DirWorld (tree of directories and files built by the task actions and by the `after` operations), dir_observation, World.fs_snapshot (os.walk: directories included)',
                                 'harness/c20.py: file_frame / World.dbfiles (os.stat + sha1 of the DB directory), end_of_process (drops the sqlite3 converter closure that keeps the previous connection open), Interleave (sub-process `python -m doit run`), '
                                 'cache_entry_points (importlib.metadata.entry_points memoised per group for the duration of the check)',
                                 'md5 oracle = identity on content ids (the 5 byte strings used have distinct digests); name order oracle = Python sorted() on the task names']
    return out


def replay_verdict(out, payload):
    """exit code 1 iff the recorded violation (its shape) shows up again; violations of other shapes -- the KNOWN findings are
    met by many histories -- are printed too, marked, and do not decide the exit code"""
    want = payload.get('shape')
    hit = [v for v in out.violations if want is None or v['shape'] == want]
    for v in hit:
        print('VIOLATION', v['shape'], v['what'])
    for v in out.violations:
        if v not in hit:
            print('(other shape, does not count)', v['shape'], v['what'])
    return 1 if hit else 0


def replay(ctx, payload):
    out = Outcome()
    case = payload.get('case', {})
    if case.get('kind') == 'clean-lists':
        r = CleanRunner(ctx, out, case.get('backend', 'json'), case['spec'])
        r.run()
        return replay_verdict(out, payload)
    if case.get('kind') == 'clean-dirs':
        import c20_dirs
        c20_dirs.replay(ctx, out, case)
        return replay_verdict(out, payload)
    if case.get('kind') == 'interleave':
        Interleave(ctx, out, case['scenario']).run()
        return replay_verdict(out, payload)
    h = [tuple(s) if not isinstance(s, tuple) else s for s in case.get('history', [])]
    h = [tuple(list(s[:2]) + [dict(s[2])] if s[0] == 'SetDef' else s) for s in h]
    r = Runner(ctx, out, case.get('backend', 'json'), h, case.get('shape', {}), 'replay')
    r.run()
    return replay_verdict(out, payload)
