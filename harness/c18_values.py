"""C18, the VALUE a task-creator gives (helper of harness/c18.py).

"Whatever dicts, generators, nested generators or Task objects the task-creators return ... missing actions or
name ... are always rejected -- never silently accepted and never as an internal traceback."  The other parts of
the check build creator results out of task dictionaries; this part varies the result VALUE itself:

  value      every top-level Python type, in its FALSY and its truthy form:  {} [] () '' 0 0.0 False b'' set()
             frozenset() range(0) bytearray() 0j Decimal(0) Fraction(0) deque() OrderedDict() defaultdict() an object
             whose __bool__ is False, one whose __len__ is 0  /  'text' [1] [task dict] (task dict,) 1 42 True 1.5
             {'a'} b'x' range(3) iter([]) map() dict.keys() Ellipsis NotImplemented a function, a class, a builtin,
             object(); dicts WITHOUT `actions` (each attribute alone, random subsets, mis-spelt keys, non-str keys),
             yielded dicts without name and basename / with an empty basename;  None
  position   returned | yielded alone | yielded after / before valid sub-tasks | yielded from a nested generator
             (depth 1-3), also after valid sub-tasks
  creator    static | @create_after(executed=<task>) | @create_after() | @create_after(executed=.., creates=[..])
             (the last three run generate_tasks at RUN time, from TaskDispatcher._add_task, for `doit run`)
  namespace  the subject creator before / after a valid creator `good` (and other valid creators)
  driven by  loader.generate_tasks directly; loader.load_tasks (allow_delayed False / True) + TaskControl;
             DoitMain(ModuleTaskLoader(ns)).run(): list / list --all / clean -n / info / forget, run (all tasks or the
             subject selected); and, for a sample, the real command line on a dodo.py written as source text:
             `doit list`, `doit run`, `doit run -n 2 -P thread`
  valid      None (no task), a task dict, a Task object, empty (nested) generators (the group task), sub-tasks,
             a group definition, plain tasks with a basename: must be ACCEPTED with exactly the declared names

Oracle (from the property text, computed from the declared input only -- `oracle_invalid`, `oracle_names`):
  a result that is not None / a dict / a generator / a Task, a returned dict without 'actions', a yielded value that
  is not a dict / Task / generator (None included), a yielded dict without 'actions' (unless `name: None`) or without
  both 'name' and a non-empty 'basename' is NOT a task definition.  Whenever the creator is called:
    generate_tasks / load_tasks raise InvalidTask;  every command that loads it exits 3 with `ERROR: ...` on stderr,
    no traceback, and (run) without executing any task;  at run time (create_after) the run ends with a non-zero exit
    code and a diagnostic naming the creator, no traceback, and none of the tasks the creator yielded is executed.
  A valid result is accepted: the task names are the declared ones in definition / yield order, `run` exits 0 and
  executes exactly the declared tasks (after the task named by `executed`).
Model: Loader.v [pyres] / [classify] / generate_tasks_py / load_py on every case whose values the model has
  (everything but the ('py', ..) values): generate_tasks, load_tasks(+TaskControl), `list`, `run`.

Input language:  value = the one of harness/c18.py plus ('py', <python expression>) (evaluated in PRELUDE's names);
  result = ('val', value) | ('task', name, [(attr, value)]) | ('gen', [result..]);
  creator = dict(name=, result=, delayed=None | (executed | None, [creates..]))
"""
import io, os, subprocess, sys, tempfile
import common
import c18 as B

S, Ls, Tp, Dc, TRUE, FALSE, NONE, I, F = B.S, B.Ls, B.Tp, B.Dc, B.TRUE, B.FALSE, B.NONE, B.I, B.F
MARK = ('fun', 7)                    # the function `mark` (records the execution of a task)
FUN, CLASS, BUILTIN, OTHER = ('fun', 1), ('class', 1), ('builtin', 1), ('other', 1)

PRELUDE = '''import collections, decimal, fractions, pathlib, types
class Falsy:
    def __bool__(self): return False
class Empty:
    def __len__(self): return 0
def f1(): pass
class K1: pass
OBJ = object()
'''
DODO_HEAD = PRELUDE + '''import os
from doit import create_after
from doit.task import Task
LOG = os.path.join(os.path.dirname(os.path.abspath(__file__)), 'log.txt')
def mark(name):
    with open(LOG, 'a') as fh:
        fh.write(name + '\\n')
'''


def py(src):
    return ('py', src)


# ------------------------------------------------------------------ values -> python objects / source text / Coq
def py_of(v, env):
    t = v[0]
    if t == 'py': return eval(v[1], env)
    if t == 'list': return [py_of(x, env) for x in v[1]]
    if t == 'tuple': return tuple(py_of(x, env) for x in v[1])
    if t == 'dict': return {py_of(k, env): py_of(x, env) for k, x in v[1]}
    if t == 'fun': return env['mark'] if v[1] == 7 else env['f1']
    if t == 'class': return env['K1']
    if t == 'builtin': return len
    if t == 'other': return env['OBJ']
    return B.to_py(v, None)


def src_of(v):
    t = v[0]
    if t == 'py': return v[1]
    if t == 'str': return repr(v[1])
    if t == 'path': return 'pathlib.PurePath(%r)' % v[1]
    if t == 'list': return '[' + ', '.join(src_of(x) for x in v[1]) + ']'
    if t == 'tuple': return '(' + ''.join(src_of(x) + ', ' for x in v[1]) + ')'
    if t == 'dict': return '{' + ', '.join('%s: %s' % (src_of(k), src_of(x)) for k, x in v[1]) + '}'
    if t == 'true': return 'True'
    if t == 'false': return 'False'
    if t == 'none': return 'None'
    if t == 'int': return repr(v[1])
    if t == 'float': return repr(float(v[1]))
    if t == 'fun': return 'mark' if v[1] == 7 else 'f1'
    if t == 'class': return 'K1'
    if t == 'builtin': return 'len'
    if t == 'other': return 'OBJ'
    raise ValueError(v)


def has_py(x):
    """does the input contain a value the model does not have"""
    if isinstance(x, tuple) and x and x[0] == 'py':
        return True
    if isinstance(x, (tuple, list)):
        return any(has_py(e) for e in x)
    if isinstance(x, dict):
        return any(has_py(e) for e in x.values())
    return False


def result_coq(r):
    if r[0] == 'val':
        return '(PVal %s)' % B.to_coq(r[1])
    if r[0] == 'task':
        return '(PTaskObj %s [%s])' % (B.to_coq(S(r[1])), '; '.join('(%s, %s)' % (B.ACOQ[a], B.to_coq(v)) for a, v in r[2]))
    return '(PGen [%s])' % '; '.join(result_coq(x) for x in r[1])


def creators_coq(cs):
    out = []
    for c in cs:
        d = 'None'
        if c.get('delayed') is not None:
            e, cr = c['delayed']
            d = '(Some (%s, [%s]))' % ('None' if e is None else 'Some %s' % B.cstr(e), '; '.join(B.cstr(x) for x in cr))
        out.append('PC %s %s %s' % (B.cstr(c['name']), result_coq(c['result']), d))
    return '[' + '; '.join(out) + ']'


PRE_EXTRA = r'''
Definition PC (name : string) (r : pyres) (d : option (option string * list string)) : pcreator :=
  {| pc_name := name; pc_result := r; pc_delayed := d |}.
Definition GT (func : string) (r : pyres) : list Z := enc (generate_tasks_py fmt0 L2 func r).
Definition LP (cmds : list string) (allow : bool) (cs : list pcreator) : list Z := enc (load_py fmt0 fnmatch_star L2 cmds allow cs).
Definition LTP (cmds : list string) (allow : bool) (cs : list pcreator) : list Z := enc (load_tasks_py fmt0 L2 cmds allow cs).
(* [class of the exit code; traceback]: 0 = exit 0, 3 = exit 3 (rejected while loading), 1 = any other non-zero code
   (the run was aborted: generate_tasks raised InvalidTask inside the dispatcher).  [loaded] = what the command loads,
   [late] = what generate_tasks gives for the create_after creators when the run calls them (None: there is none) *)
Definition runcli (loaded : list Z) (late : option (list Z)) : list Z :=
  match loaded with
  | 0 :: _ => match late with
              | None | Some (0 :: _) => [0; 0]
              | Some (1 :: _) => [1; 0]
              | Some _ => [1; 1]
              end
  | 1 :: _ => [3; 0]
  | _ => [3; 1]
  end.
'''


# ------------------------------------------------------------------ realising a creator
def realize(r, env):
    """what the creator returns (evaluated at the moment of the call: doit mutates the dicts)"""
    if r[0] == 'val':
        return py_of(r[1], env)
    if r[0] == 'task':
        from doit.task import Task
        kw = {a: py_of(v, env) for a, v in r[2]}
        kw.setdefault('actions', None)
        return Task(r[1], **kw)

    def gen():
        for sub in r[1]:
            yield realize(sub, env)
    return gen()


def new_env():
    env = {}
    exec(PRELUDE, env)
    env['__marks'] = marks = []

    def mark(name):
        marks.append(name)
    env['mark'] = mark
    return env


def namespace(cs, env):
    from doit.loader import create_after
    ns = {}
    for c in cs:
        def creator(c=c):
            return realize(c['result'], env)
        creator.__name__ = 'task_' + c['name']
        if c.get('delayed') is not None:
            e, cr = c['delayed']
            creator = create_after(executed=e, creates=list(cr) if cr else None)(creator)
        ns['task_' + c['name']] = creator
    return ns


def dodo_text(cs):
    lines = [DODO_HEAD]
    helpers = [0]

    def body(r, ind):
        """lines of a function body giving result r"""
        if r[0] == 'val':
            return [ind + 'return ' + src_of(r[1])]
        if r[0] == 'task':
            kw = dict(r[2])
            act = src_of(kw.pop('actions', NONE))
            return [ind + 'return Task(%r, %s%s)' % (r[1], act, ''.join(', %s=%s' % (a, src_of(v)) for a, v in kw.items()))]
        out = []
        for sub in r[1]:
            out.append(ind + 'yield ' + expr(sub))
        return out or [ind + 'yield from ()']

    def expr(r):
        if r[0] == 'val':
            return src_of(r[1])
        if r[0] == 'task':
            return body(r, '')[0][len('return '):]
        helpers[0] += 1
        name = '_gen%d' % helpers[0]
        sub = body(r, '    ')              # may define helpers of its own first
        lines.append('def %s():\n%s\n' % (name, '\n'.join(sub)))
        return name + '()'

    for c in cs:
        b = body(c['result'], '    ')
        dec = ''
        if c.get('delayed') is not None:
            e, cr = c['delayed']
            args = ([] if e is None else ['executed=%r' % e]) + (['creates=%r' % list(cr)] if cr else [])
            dec = '@create_after(%s)\n' % ', '.join(args)
        lines.append('%sdef task_%s():\n%s\n' % (dec, c['name'], '\n'.join(b)))
    return '\n'.join(lines)


# ------------------------------------------------------------------ the oracle (property text, declared input only)
def vtag(v):
    return src_of(v)


def is_dict_value(v):
    return v[0] == 'dict' or (v[0] == 'py' and v[1] in PY_DICTS)


def dict_keys(v):
    return [k for k, _ in v[1]] if v[0] == 'dict' else []


def dict_get(v, key):
    for k, x in (v[1] if v[0] == 'dict' else []):
        if k == S(key):
            return x
    return None


def falsy(v):
    return v in (S(''), Ls(), Tp(), Dc(), FALSE, NONE, I(0), F(0))


def flat(r):
    if r[0] == 'gen':
        return [y for x in r[1] for y in flat(x)]
    return [r]


def oracle_invalid(r):
    """why the result is not a task definition (None = it is one)"""
    if r[0] == 'task':
        return None
    if r[0] == 'val':
        v = r[1]
        if v == NONE:
            return None
        if not is_dict_value(v):
            return 'returns %s: not a dict, a generator, a Task or None' % vtag(v)
        if S('actions') not in dict_keys(v):
            return 'returns the dict %s: no actions' % vtag(v)
        return None
    for y in flat(r):
        if y[0] == 'task':
            continue
        v = y[1]
        if not is_dict_value(v):
            return 'yields %s: not a dict, a generator or a Task' % vtag(v)
        keys = dict_keys(v)
        if S('actions') not in keys and not (S('name') in keys and dict_get(v, 'name') == NONE):
            return 'yields the dict %s: no actions' % vtag(v)
        b = dict_get(v, 'basename')
        if S('name') not in keys and (b is None or falsy(b)):
            return 'yields the dict %s: neither name nor basename' % vtag(v)
    return None


def oracle_names(r, to_load):
    """names of the tasks a VALID result defines, in order (group task before its first sub-task)"""
    if r[0] == 'task':
        return [r[1]]
    if r[0] == 'val':
        if r[1] == NONE:
            return []
        b = dict_get(r[1], 'basename')
        return [b[1] if b is not None else to_load]
    names = []
    for y in flat(r):
        if y[0] == 'task':
            names.append(y[1])
            continue
        v = y[1]
        b = dict_get(v, 'basename')
        base = b[1] if (b is not None and not falsy(b)) else to_load
        nm = dict_get(v, 'name')
        if nm is None:
            names.append(base)
        else:
            if base not in names:
                names.append(base)
            if nm != NONE:
                names.append('%s:%s' % (base, nm[1]))
    return names or [to_load]


def markers(r):
    """what the actions of the task definitions inside a result record when they are executed"""
    out = []
    for y in flat(r):
        acts = dict(y[2]).get('actions') if y[0] == 'task' else (dict_get(y[1], 'actions') if y[1][0] == 'dict' else None)
        if acts is not None and acts[0] in ('list', 'tuple'):
            out += [a[1][1][1][0][1] for a in acts[1] if a[0] == 'tuple' and a[1] and a[1][0] == MARK]
    return out


def depends_on_good(r):
    return any(y[0] == 'val' and y[1][0] == 'dict' and S('good') in (dict_get(y[1], 'task_dep') or ('list', []))[1] for y in flat(r))


# ------------------------------------------------------------------ generators of cases
PY_DICTS = ('collections.OrderedDict()', 'collections.defaultdict(list)')
FALSY = [
    ('dict-empty', Dc()), ('list-empty', Ls()), ('tuple-empty', Tp()), ('str-empty', S('')), ('int0', I(0)), ('float0', F(0)),
    ('false', FALSE),
    ('bytes-empty', py("b''")), ('set-empty', py('set()')), ('frozenset-empty', py('frozenset()')), ('range-empty', py('range(0)')),
    ('bytearray-empty', py('bytearray()')), ('complex0', py('0j')), ('decimal0', py('decimal.Decimal(0)')),
    ('fraction0', py('fractions.Fraction(0)')), ('deque-empty', py('collections.deque()')),
    ('ordereddict-empty', py(PY_DICTS[0])), ('defaultdict-empty', py(PY_DICTS[1])),
    ('bool-false-object', py('Falsy()')), ('len0-object', py('Empty()')), ('mappingproxy-empty', py('types.MappingProxyType({})')),
]
ACT = (S('actions'), Ls(Tp(MARK, Ls(S('never')))))      # a task that must never come to exist
TRUTHY = [
    ('str', S('text')), ('path', ('path', 't')), ('list', Ls(I(1))), ('list-of-task-dict', Ls(Dc(ACT))), ('tuple-of-task-dict', Tp(Dc(ACT))),
    ('tuple', Tp(S('t'))), ('int1', I(1)), ('int42', I(42)), ('true', TRUE), ('float', F(1)), ('fun', FUN), ('class', CLASS),
    ('builtin', BUILTIN), ('object', OTHER),
    ('set', py("{'a'}")), ('bytes', py("b'x'")), ('range', py('range(3)')), ('iterator-empty', py('iter([])')),
    ('iterator-of-task-dict', py("iter([{'actions': [(mark, ['never'])]}])")), ('map', py('map(str, [])')),
    ('dict-keys', py("{'actions': None}.keys()")), ('dict-items', py("{'actions': None}.items()")), ('ellipsis', py('...')),
    ('notimplemented', py('NotImplemented')), ('namedtuple', py("collections.namedtuple('T', 'actions')(None)")),
    ('mappingproxy-of-task-dict', py("types.MappingProxyType({'actions': None})")),
    ('userdict-like', py("collections.UserDict({'actions': None})")), ('module', py('collections')),
]
# valid values of the attributes other than actions (a dict made of these alone lacks `actions`)
OTHER_ATTRS = [('doc', S('text')), ('verbosity', I(2)), ('file_dep', Ls()), ('task_dep', Ls(S('good'))), ('targets', Ls()),
               ('uptodate', Ls(TRUE)), ('calc_dep', Ls()), ('setup', Ls()), ('clean', TRUE), ('teardown', Ls()), ('params', Ls()),
               ('pos_arg', NONE), ('io', Dc((S('capture'), FALSE))), ('getargs', Dc()), ('title', NONE), ('watch', Ls()),
               ('meta', Dc((S('m'), I(1))))]
MISSPELT = [S('Actions'), S('action'), S('actions '), S('ACTIONS'), S('act'), I(0), TRUE, NONE, Tp(S('actions')), py("b'actions'")]


def no_action_dicts(rng, n_random):
    out = [('no-actions:%s' % a, Dc((S(a), v))) for a, v in OTHER_ATTRS]
    out += [('no-actions:key-%s' % vtag(k), Dc((k, Ls(Tp(MARK, Ls(S('never'))))))) for k in MISSPELT]
    for i in range(n_random):
        kv = [(S(a), v) for a, v in rng.sample(OTHER_ATTRS, rng.randrange(2, 6))]
        if rng.random() < 0.3:
            kv.insert(rng.randrange(len(kv) + 1), (rng.choice(MISSPELT), Ls()))
        out.append(('no-actions:random%d' % i, Dc(*kv)))
    return out


def act(marker, *more):
    """a valid task dict: actions [(mark, [marker])]"""
    return Dc((S('actions'), Ls(Tp(MARK, Ls(S(marker))))), *more)


def sub(to_load, n, *more):
    return ('val', act('%s:%s' % (to_load, n), (S('name'), S(n)), *more))


POSITIONS = ['return', 'yield', 'yield-after', 'yield-before', 'nested1', 'nested2', 'nested3', 'nested-after']


def place(pos, bad, to_load):
    """the creator result with the bad value in that position"""
    b = ('val', bad)
    if pos == 'return': return b
    if pos == 'yield': return ('gen', [b])
    if pos == 'yield-after': return ('gen', [sub(to_load, 'x'), sub(to_load, 'y'), b])
    if pos == 'yield-before': return ('gen', [b, sub(to_load, 'x')])
    if pos == 'nested1': return ('gen', [('gen', [b])])
    if pos == 'nested2': return ('gen', [('gen', []), ('gen', [('gen', [b])])])
    if pos == 'nested3': return ('gen', [('gen', [('gen', [('gen', [b]), sub(to_load, 'z')])])])
    if pos == 'nested-after': return ('gen', [sub(to_load, 'x'), ('gen', [sub(to_load, 'y'), ('gen', [b])])])
    raise KeyError(pos)


KINDS = ['static', 'delayed-executed', 'delayed', 'delayed-creates']


def subject(kind, result_of):
    """-> (creator, to_load): result_of(to_load) builds the result"""
    if kind == 'delayed-creates':
        return dict(name='sub', result=result_of('made'), delayed=('good', ['made'])), 'made'
    delayed = {'static': None, 'delayed-executed': ('good', []), 'delayed': (None, [])}[kind]
    return dict(name='sub', result=result_of('sub'), delayed=delayed), 'sub'


def mk(rng, label, kind, result_of, extra=0):
    """a case: the subject creator in a namespace with the valid creator `good` (and `extra` more valid ones)"""
    c, to_load = subject(kind, result_of)
    good = dict(name='good', result=('val', act('good')), delayed=None)
    others = [dict(name='w%d' % i, result=rng.choice([('val', act('w%d' % i)), ('val', NONE), ('gen', []),
                                                      ('gen', [sub('w%d' % i, 'k')])]), delayed=None) for i in range(extra)]
    cs = [good] + others
    cs.insert(rng.randrange(len(cs) + 1), c)
    select = rng.choice(['all', 'all', 'subject'])
    if kind == 'static' and not oracle_invalid(c['result']) and to_load not in oracle_names(c['result'], to_load):
        select = 'all'                  # `doit run sub` needs a task of that name (a placeholder, for the create_after kinds)
    return dict(label=label, kind=kind, creators=cs, to_load=to_load, select=select, cmd=rng.choice(READONLY_CMDS))


READONLY_CMDS = [['list'], ['list', '--all'], ['clean', '--dry-run'], ['info', 'good'], ['forget']]


def yield_bads(rng, n_random):
    """values that are invalid when YIELDED"""
    out = [(t, v) for t, v in FALSY + TRUTHY] + [('none', NONE)]
    out += [(t, Dc(*(list(v[1]) + [(S('name'), S('q'))]))) for t, v in no_action_dicts(rng, n_random)]     # sub-task without actions
    out += [('no-name:actions-only', act('never')), ('no-name:basename-empty', act('never', (S('basename'), S('')))),
            ('no-name:basename-none', act('never', (S('basename'), NONE))), ('no-name:doc', act('never', (S('doc'), S('d'))))]
    return out


def valid_results(rng):
    """(tag, result_of, static_only)"""
    def gsub(*names):
        return lambda t: ('gen', [sub(t, n) for n in names])
    out = [
        ('none', lambda t: ('val', NONE), False),
        ('dict', lambda t: ('val', act(t)), False),
        ('dict-attrs', lambda t: ('val', act(t, (S('doc'), S('d')), (S('verbosity'), I(2)), (S('task_dep'), Ls(S('good'))),
                                             (S('meta'), Dc((S('m'), I(1)))), (S('params'), Ls()))), False),
        ('dict-actions-none', lambda t: ('val', Dc((S('actions'), NONE))), False),
        ('dict-actions-empty', lambda t: ('val', Dc((S('actions'), Ls()))), False),
        ('dict-actions-empty-tuple', lambda t: ('val', Dc((S('actions'), Tp()))), False),
        ('task-object', lambda t: ('task', t, [('actions', Ls(Tp(MARK, Ls(S(t)))))]), False),
        ('task-object-no-actions', lambda t: ('task', t, []), False),
        ('gen-empty', lambda t: ('gen', []), False),
        ('gen-empty-nested', lambda t: ('gen', [('gen', []), ('gen', [('gen', [])])]), False),
        ('gen-sub1', gsub('x'), False),
        ('gen-sub3', gsub('x', 'y', 'z'), False),
        ('gen-sub-nested', lambda t: ('gen', [sub(t, 'x'), ('gen', [('gen', [sub(t, 'y')]), sub(t, 'z')])]), False),
        ('gen-group-definition', lambda t: ('gen', [('val', Dc((S('name'), NONE), (S('doc'), S('d')))), sub(t, 'x')]), False),
        ('gen-group-definition-only', lambda t: ('gen', [('val', Dc((S('name'), NONE)))]), False),
        ('gen-group-definition-late', lambda t: ('gen', [sub(t, 'x'), ('val', Dc((S('name'), NONE), (S('verbosity'), I(1)))), sub(t, 'y')]), False),
        ('dict-basename', lambda t: ('val', act('bn', (S('basename'), S('bn')))), True),
        ('gen-plain', lambda t: ('gen', [('val', act('p1', (S('basename'), S('p1')))), ('gen', [('val', act('p2', (S('basename'), S('p2'))))])]), True),
        ('gen-other-group', lambda t: ('gen', [('val', act('og:x', (S('basename'), S('og')), (S('name'), S('x')))), sub(t, 'y')]), True),
        ('gen-task-objects', lambda t: ('gen', [('task', 'o1', [('actions', Ls(Tp(MARK, Ls(S('o1')))))]), ('gen', [('task', 'o2', [])])]), True),
    ]
    return out


def gen_cases(ctx):
    rng = ctx.rng
    cases = []
    ret_bads = FALSY + TRUTHY + no_action_dicts(rng, ctx.n(6, 60))
    ybads = yield_bads(rng, ctx.n(4, 40))
    # returned: every value x every kind of creator
    for tag, v in ret_bads:
        # quick: the load-time path and one of the three run-time (create_after) forms; thorough: all four
        for kind in (KINDS if not ctx.quick else [KINDS[0], rng.choice(KINDS[1:])]):
            cases.append(mk(rng, ('return', tag, kind), kind, lambda t, v=v: place('return', v, t), extra=rng.choice([0, 0, 1])))
    # yielded: every value x every position (quick: two positions and two kinds per value, all of them in the thorough tier)
    for tag, v in ybads:
        combos = [(p, k) for p in POSITIONS[1:] for k in KINDS]
        if ctx.quick:
            combos = rng.sample(combos, 2)
        for pos, kind in combos:
            cases.append(mk(rng, (pos, tag, kind), kind, lambda t, v=v, pos=pos: place(pos, v, t), extra=rng.choice([0, 0, 1])))
    # valid results
    for tag, rf, static_only in valid_results(rng):
        for kind in (KINDS[:1] if static_only else KINDS):
            cases.append(mk(rng, ('valid', tag, kind), kind, rf, extra=rng.choice([0, 1, 2])))
    # random: several values in one generator, bad and valid mixed over the namespace
    for i in range(ctx.n(100, 3000)):
        kind = rng.choice(KINDS)
        def rf(t, rng=rng):
            items, used = [], []
            for _ in range(rng.randrange(0, 5)):
                r = rng.random()
                if r < 0.55:
                    n = rng.choice([x for x in 'abcdefgh' if x not in used]); used.append(n)
                    items.append(sub(t, n))
                elif r < 0.75:
                    items.append(('gen', [('gen', [])] if rng.random() < 0.5 else []))
                else:
                    items.append(('val', rng.choice(ybads)[1]))
            rng.shuffle(items)
            if items and rng.random() < 0.4:
                k = rng.randrange(len(items))
                items[k:] = [('gen', items[k:])]
            return ('gen', items)
        cases.append(mk(rng, ('random', i, kind), kind, rf, extra=rng.choice([0, 1, 2])))
    return cases


# ------------------------------------------------------------------ observing the implementation
def enc_outcome(fn, objs):
    from doit.exceptions import InvalidTask, InvalidDodoFile, InvalidCommand
    try:
        tasks = list(fn())
        return B.enc_tasks(tasks, objs), tasks, None
    except InvalidTask as e:
        return [1, 1], None, str(e)
    except InvalidDodoFile as e:
        return [1, 2], None, str(e)
    except InvalidCommand as e:
        return [1, 3], None, str(e)
    except Exception as e:  # noqa
        code = {TypeError: 1, IndexError: 2, KeyError: 3, AttributeError: 4}.get(type(e), 99)
        return [2, code], None, '%s:%s' % (type(e).__name__, B.crash_site(e.__traceback__))


def close_db():
    """a command that fails while loading does not get to close the DB it opened"""
    try:
        from doit.globals import Globals
        if Globals.dep_manager is not None:
            Globals.dep_manager.close()
            Globals.dep_manager = None
    except Exception:  # noqa
        pass


def run_cli(ctx, ns, argv, tag):
    """DoitMain(ModuleTaskLoader(ns)).run(argv) in-process -> (exit code, stdout, stderr)"""
    from doit.doit_cmd import DoitMain
    from doit.cmd_base import ModuleTaskLoader
    d = tempfile.mkdtemp(prefix='c18v_', dir=ctx.subdir('values'))
    real = (sys.stdout, sys.stderr)
    cwd = os.getcwd()
    out, err = io.StringIO(), io.StringIO()
    try:
        os.chdir(d)
        sys.stdout, sys.stderr = out, err
        # `run` writes its report to the sys.stdout of import time unless it is given a file
        more = ['-o', os.path.join(d, 'report.txt')] if argv[0] == 'run' else []
        try:
            rc = DoitMain(ModuleTaskLoader(ns), config_filenames=()).run(argv[:1] + ['--db-file', os.path.join(d, 'db')] + more + argv[1:])
            rc = 0 if rc is None else rc
        except BaseException as e:  # noqa
            rc = 98
            err.write('Traceback (harness): %r' % (e,))
    finally:
        sys.stdout, sys.stderr = real
        os.chdir(cwd)
        close_db()
    so = out.getvalue()
    if os.path.exists(os.path.join(d, 'report.txt')):
        so += open(os.path.join(d, 'report.txt')).read()
    return rc, so, err.getvalue()


def run_subprocess(ctx, text, argv):
    d = tempfile.mkdtemp(prefix='c18vs_', dir=ctx.subdir('values'))
    with open(os.path.join(d, 'dodo.py'), 'w') as fh:
        fh.write(text)
    try:
        p = subprocess.run([sys.executable, '-m', 'doit'] + argv, cwd=d, env=common.impl_env(), capture_output=True, text=True, timeout=60)
        rc, so, se = p.returncode, p.stdout, p.stderr
    except subprocess.TimeoutExpired:
        rc, so, se = 98, '', 'timeout'
    marks = []
    if os.path.exists(os.path.join(d, 'log.txt')):
        marks = open(os.path.join(d, 'log.txt')).read().split('\n')[:-1]
    return rc, so, se, marks


# ------------------------------------------------------------------ judging
def expectations(case):
    """from the declared input: per creator (invalid reason | None, names, executed names)"""
    exp = []
    for c in case['creators']:
        to_load = c['delayed'][1][0] if (c.get('delayed') and c['delayed'][1]) else c['name']
        why = oracle_invalid(c['result'])
        names = [] if why else oracle_names(c['result'], to_load)
        exp.append(dict(c=c, to_load=to_load, why=why, names=names, execd=[] if why else markers(c['result']),
                        called_load=c.get('delayed') is None,                                   # by every command
                        called_list=c.get('delayed') is None or not c['delayed'][1]))           # by the commands that do not run tasks
    return exp


def public(case):
    return dict(part='result-value', label=list(case['label']), dodo=dodo_text(case['creators']).split('\n')[len(DODO_HEAD.split('\n')) - 1:],
                creators=case['creators'], to_load=case['to_load'], select=case['select'], cmd=case['cmd'])


def judge_cmd(viol, case, exp, where, argv, rc, so, se, marks, runs):
    """one command (in-process or real command line) against the oracle.  runs: it is `doit run`"""
    desc = dict(public(case), where=where, argv=argv, exit=rc, stdout=so[-400:], stderr=se[-600:], executed=marks)
    txt = so + se
    if 'Traceback' in txt or rc == 98:
        viol.append(dict(what='%s `doit %s`: internal traceback / crash (exit %s) on a creator result' % (where, ' '.join(argv), rc),
                         shape='c18:result-value-traceback', case=desc))
        return
    bad_load = [e for e in exp if e['why'] and (e['called_load'] if runs else e['called_list'])]
    bad_late = [e for e in exp if e['why'] and runs and not e['called_load']]
    if bad_load:
        e = bad_load[0]
        if not (rc == 3 and se.startswith('ERROR:')) or marks:
            viol.append(dict(what='%s `doit %s`: creator task_%s %s -- expected `ERROR: ...` and exit code 3 without executing anything, got exit %s, executed %s'
                                  % (where, ' '.join(argv), e['c']['name'], e['why'], rc, marks),
                             shape='c18:result-not-a-task-accepted:load', case=desc))
        return
    if rc == 3:
        viol.append(dict(what='%s `doit %s`: every creator called while loading gives a valid result, got exit 3: %s' % (where, ' '.join(argv), se[:200]),
                         shape='c18:result-valid-rejected', case=desc))
        return
    if not runs:
        if rc != 0 and not (argv[0] == 'info' and rc == 1):              # info: 1 = the task is not up-to-date
            viol.append(dict(what='%s `doit %s`: valid task set, exit %s' % (where, ' '.join(argv), rc), shape='c18:result-valid-rejected', case=desc))
        elif argv[:1] == ['list'] and '--all' in argv:
            want = []
            for e in exp:
                want += e['names'] if e['called_list'] else list(e['c']['delayed'][1])
            got = [l.split()[0] for l in so.split('\n') if l.strip()]
            if sorted(got) != sorted(want):
                viol.append(dict(what='%s `doit list --all` printed %s, the creators define %s' % (where, sorted(got), sorted(want)),
                                 shape='c18:result-valid-wrong-tasks', case=desc))
        return
    # `doit run`
    sel_subject = case['select'] == 'subject'
    subj = [e for e in exp if e['c']['name'] == 'sub'][0]
    reached = [e for e in exp if not sel_subject or e is subj
               or (e['c']['name'] == 'good' and subj['c'].get('delayed') and subj['c']['delayed'][0] == 'good')
               or (e['c']['name'] == 'good' and not subj['why'] and depends_on_good(subj['c']['result']))]
    late_bad = [e for e in bad_late if e in reached]
    if late_bad:
        e = late_bad[0]
        from_bad = [m for m in marks if m in markers(e['c']['result']) or m == 'never']
        if rc == 0 or from_bad or e['to_load'] not in txt:
            viol.append(dict(what='%s `doit %s`: create_after creator task_%s %s when the run calls it -- expected a non-zero exit code and a diagnostic naming %r, none of its tasks executed; got exit %s, executed %s'
                                  % (where, ' '.join(argv), e['c']['name'], e['why'], e['to_load'], rc, marks),
                             shape='c18:result-not-a-task-accepted:run-time', case=desc))
        return
    # `doit run sub` selects the task / group called sub: a sub-task the creator yields under ANOTHER basename (og:x) belongs
    # to that other group and is not part of the selection (markers are the task names).  False alarm at quick seed 4.
    def selected_marks(e):
        if sel_subject and e is subj:
            w = argv[-1]
            return [m for m in e['execd'] if m == w or m.startswith(w + ':')]
        return e['execd']
    want = sorted(m for e in reached for m in selected_marks(e))
    if rc != 0 or sorted(marks) != want:
        viol.append(dict(what='%s `doit %s`: valid creator results, expected exit 0 and the execution of %s; got exit %s, executed %s: %s'
                              % (where, ' '.join(argv), want, rc, sorted(marks), (se or so)[-200:]),
                         shape='c18:result-valid-wrong-tasks' if rc == 0 else 'c18:result-valid-rejected', case=desc))
    elif subj['c'].get('delayed') and subj['c']['delayed'][0] == 'good' and subj['execd']:
        first = min(marks.index(m) for m in subj['execd'])
        if 'good' not in marks or marks.index('good') > first:
            viol.append(dict(what='%s `doit run`: tasks of a create_after(executed=good) creator ran before good: %s' % (where, marks),
                             shape='c18:result-valid-wrong-tasks', case=desc))


def run_argv(case, extra=()):
    return ['run'] + list(extra) + ([case['to_load']] if case['select'] == 'subject' else [])


def check_case(ctx, out, case, model_cases, subprocess_too=False):
    """all observations of one case; returns the violations found"""
    from doit.loader import generate_tasks, load_tasks
    from doit.control import TaskControl
    viol = []
    exp = expectations(case)
    env = new_env()
    ns = namespace(case['creators'], env)
    objs = B.Objects()
    cmds = B.cmd_names()
    modelled = not has_py(case['creators'])
    subj = [e for e in exp if e['c']['name'] == 'sub'][0]
    desc = public(case)

    # generate_tasks on the subject's value (what load_tasks and TaskDispatcher._add_task call)
    o_gt, tasks, info = enc_outcome(lambda: generate_tasks(subj['to_load'], realize(subj['c']['result'], env)), objs)
    if o_gt[0] == 2:
        viol.append(dict(what='generate_tasks(%r, <result>) raised %s: creator %s' % (subj['to_load'], info, subj['why'] or 'gives a valid result'),
                         shape='c18:result-value-traceback', case=dict(desc, where='generate_tasks')))
    elif subj['why'] and o_gt[0] == 0:
        viol.append(dict(what='generate_tasks(%r, <result>) accepted a creator that %s: it gave the tasks %s instead of raising InvalidTask'
                              % (subj['to_load'], subj['why'], [t.name for t in tasks]),
                         shape='c18:result-not-a-task-accepted:generate_tasks', case=dict(desc, where='generate_tasks')))
    elif not subj['why'] and (o_gt[0] != 0 or [t.name for t in tasks] != subj['names']):
        viol.append(dict(what='generate_tasks(%r, <valid result>): expected the tasks %s, got %s' % (subj['to_load'], subj['names'], info or [t.name for t in tasks]),
                         shape='c18:result-valid-rejected' if o_gt[0] else 'c18:result-valid-wrong-tasks', case=dict(desc, where='generate_tasks')))
    if modelled:
        model_cases.append(dict(model='GT %s %s' % (B.cstr(subj['to_load']), result_coq(subj['c']['result'])), expected=o_gt,
                                desc=('value', 'generate_tasks', case['label'])))

    # load_tasks (+ TaskControl) as the commands that do not run tasks load it, and as `run` loads it
    for allow in (False, True):
        def load():
            ts = load_tasks(ns, cmds, allow_delayed=allow)
            TaskControl(ts)
            return ts
        o, tasks, info = enc_outcome(load, objs)
        bad = [e for e in exp if e['why'] and (e['called_load'] if allow else e['called_list'])]
        where = 'load_tasks(allow_delayed=%s)' % allow
        if o[0] == 2:
            viol.append(dict(what='%s raised %s' % (where, info), shape='c18:result-value-traceback', case=dict(desc, where=where)))
        elif bad and o[0] == 0:
            viol.append(dict(what='%s accepted the creator task_%s that %s: tasks %s' % (where, bad[0]['c']['name'], bad[0]['why'], [t.name for t in tasks]),
                             shape='c18:result-not-a-task-accepted:load', case=dict(desc, where=where)))
        elif not bad:
            want = []
            for e in exp:
                called = e['called_load'] if allow else e['called_list']
                want += e['names'] if called else (list(e['c']['delayed'][1]) or [e['c']['name']])
            if o[0] != 0 or [t.name for t in tasks] != want:
                viol.append(dict(what='%s on valid creator results: expected the tasks %s, got %s' % (where, want, info or [t.name for t in tasks]),
                                 shape='c18:result-valid-rejected' if o[0] else 'c18:result-valid-wrong-tasks', case=dict(desc, where=where)))
        if modelled:
            model_cases.append(dict(model='LP cmds0 %s %s' % ('true' if allow else 'false', creators_coq(case['creators'])), expected=o,
                                    desc=('value', where, case['label'])))
        out.count('value-load:%s' % ['accepted', 'rejected', 'crashed'][o[0]])

    # commands, in-process
    rc, so, se = run_cli(ctx, ns, case['cmd'], 'ro')
    judge_cmd(viol, case, exp, 'in-process', case['cmd'], rc, so, se, list(env['__marks']), runs=False)
    if modelled:
        model_cases.append(dict(model='runcli (LP cmds0 false %s) None' % creators_coq(case['creators']),
                                expected=[0 if (rc == 0 or (case['cmd'][0] == 'info' and rc == 1)) else (3 if rc == 3 else 1), 1 if 'Traceback' in so + se else 0],
                                desc=('value', 'cli-' + case['cmd'][0], case['label'])))
    out.count('value-cli-%s:exit%d' % (case['cmd'][0], rc))
    del env['__marks'][:]
    argv = run_argv(case)
    rc, so, se = run_cli(ctx, ns, argv, 'run')
    marks = list(env['__marks'])
    judge_cmd(viol, case, exp, 'in-process', argv, rc, so, se, marks, runs=True)
    out.count('value-cli-run:exit%d' % rc)
    if modelled and case['select'] == 'all':
        late = 'None' if subj['c'].get('delayed') is None else '(Some (GT %s %s))' % (B.cstr(subj['to_load']), result_coq(subj['c']['result']))
        model_cases.append(dict(model='runcli (LP cmds0 true %s) %s' % (creators_coq(case['creators']), late),
                                expected=[0 if rc == 0 else (3 if rc == 3 else 1), 1 if 'Traceback' in so + se else 0],
                                desc=('value', 'cli-run', case['label'])))

    # the real command line on a dodo.py written as source text
    if subprocess_too:
        text = dodo_text(case['creators'])
        for argv, runs in subprocess_jobs(case):
            judge_subprocess(out, viol, case, exp, text, argv, runs, run_subprocess(ctx, text, argv))
    return viol


def subprocess_jobs(case):
    """[(argv, is it `doit run`)]: list, run, and -- for the run-time path -- run under the threaded runner"""
    jobs = [(['list', '--all'], False), (run_argv(case), True)]
    if [c for c in case['creators'] if c['name'] == 'sub'][0].get('delayed') is not None:
        jobs.append((run_argv(case, ['-n', '2', '-P', 'thread']), True))
    return jobs


def judge_subprocess(out, viol, case, exp, text, argv, runs, res):
    rc, so, se, marks = res
    judge_cmd(viol, case, exp, 'command line', argv, rc, so, se, marks, runs=runs)
    out.count('value-subprocess-%s:exit%d' % (argv[0], rc))
    out.extra['_value_cmdline_runs'] = out.extra.get('_value_cmdline_runs', 0) + 1


class cached_entry_points:
    """every DoitMain.run() scans the installed distributions for plugins (importlib.metadata.entry_points, ~6 ms each, three
    or four times per command): the installed packages do not change during the check, so the answer is memoised while
    the in-process commands of this part run (the real command line runs are not affected)"""
    def __enter__(self):
        import importlib.metadata as M
        self.M, self.real, memo = M, M.entry_points, {}

        def entry_points(**kw):
            k = tuple(sorted(kw.items()))
            if k not in memo:
                memo[k] = self.real(**kw)
            return memo[k]
        M.entry_points = entry_points

    def __exit__(self, *a):
        self.M.entry_points = self.real


def run_part(ctx, out, model_cases):
    with cached_entry_points():
        return _run_part(ctx, out, model_cases)


def _run_part(ctx, out, model_cases):
    cases = gen_cases(ctx)
    n_sub = 0
    every = ctx.n(24, 6)
    stats = dict(cases=len(cases), invalid=0, valid=0, run_time_path=0, not_modelled=0, command_line=0)
    jobs = []
    for i, c in enumerate(cases):
        viol = check_case(ctx, out, c, model_cases)
        out.violations.extend(viol)
        if i % every == 0:
            n_sub += 1
            text = dodo_text(c['creators'])
            jobs += [(c, text, argv, runs) for argv, runs in subprocess_jobs(c)]
    # the command line runs, several at a time
    from concurrent.futures import ThreadPoolExecutor
    with ThreadPoolExecutor(max_workers=max(2, min(8, common.NCPU // 2))) as ex:
        results = list(ex.map(lambda j: run_subprocess(ctx, j[1], j[2]), jobs))
    for (c, text, argv, runs), res in zip(jobs, results):
        viol = []
        judge_subprocess(out, viol, c, expectations(c), text, argv, runs, res)
        out.violations.extend(viol)
    for c in cases:
        exp = expectations(c)
        subj = [e for e in exp if e['c']['name'] == 'sub'][0]
        stats['invalid' if subj['why'] else 'valid'] += 1
        stats['run_time_path'] += 1 if c['kind'] != 'static' else 0
        stats['not_modelled'] += 1 if has_py(c['creators']) else 0
        out.count('value:%s:%s:%s' % (c['label'][0] if c['label'][0] in ('valid', 'random') else 'bad-' + c['label'][0], c['kind'],
                                      'invalid' if subj['why'] else 'valid'))
        out.nontrivial.add(('value', str(c['label'])))
    stats['command_line'] = n_sub
    stats['command_line_runs'] = out.extra.pop('_value_cmdline_runs', 0)
    out.extra['result_values'] = stats
    for c in cases[:1] + [c for c in cases if c['label'][0] == 'random'][:1]:
        out.samples.append(dict(label=str(c['label']), creators=c['creators'], dodo=dodo_text(c['creators'])))
    return cases


# ------------------------------------------------------------------ replay
def replay(ctx, case):
    c = dict(label=tuple(case['label']), kind=case['label'][-1], to_load=case['to_load'], select=case['select'], cmd=case['cmd'],
             creators=[dict(name=x['name'], result=_tup(x['result']), delayed=_tup_delayed(x.get('delayed'))) for x in case['creators']])
    print('----- dodo.py')
    print(dodo_text(c['creators']))
    for e in expectations(c):
        print('creator task_%s: %s' % (e['c']['name'], ('NOT a task definition: ' + e['why']) if e['why'] else 'valid, defines %s' % e['names']))
    out = common.Outcome()
    viol = check_case(ctx, out, c, [], subprocess_too=True)
    for v in viol:
        print('VIOLATED:', v['what'])
    if not viol:
        print('no violation: the property holds on this input')
    return 1 if viol else 0


def _tup_delayed(d):
    if d is None:
        return None
    return (d[0], list(d[1]))


def _tup(x):
    """json lists back to the tuples of the input language"""
    TAGS = ('str', 'path', 'list', 'tuple', 'dict', 'true', 'false', 'none', 'int', 'float', 'fun', 'class', 'builtin', 'other',
            'py', 'val', 'task', 'gen')
    if isinstance(x, list):
        if x and isinstance(x[0], str) and x[0] in TAGS:
            if x[0] == 'str' or x[0] == 'py' or x[0] == 'path':
                return (x[0], x[1])
            if x[0] == 'val':
                return ('val', _tup(x[1]))
            if x[0] == 'task':
                return ('task', x[1], [(a, _tup(v)) for a, v in x[2]])
            if x[0] == 'dict':
                return ('dict', [(_tup(k), _tup(v)) for k, v in x[1]])
            if x[0] in ('list', 'tuple', 'gen'):
                return (x[0], [_tup(e) for e in x[1]])
            return tuple(x)
        return [_tup(e) for e in x]
    return x
