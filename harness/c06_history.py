"""C06 (1g) -- the HISTORY before (and after) the interrupted run, judged on what every run DOES.

The other parts of harness/c06.py keep the command line fixed through a case and leave the targets alone, so a record found by the
interrupted run was always written under the same `--check_file_uptodate` setting and Dependency.get_status always walked down to
the file_deps.  Here a case is a HISTORY of 3-7 doit invocations (real `DoitMain.run` in a subprocess: c06.child_main) of one task set,
and between two invocations the user

  * switches the file checker (`--check_file_uptodate md5` <-> `timestamp`): records written under ANOTHER setting are met,
  * removes targets (get_status answers "run" at the missing target, BEFORE it looks at the saved checker / file_deps),
  * edits sources / rev files, takes edits back,
  * edits the configuration a `doit.tools.config_changed(<str | dict>)` item watches (get_status answers "run" at the first false
    uptodate item, before everything else),

for tasks that carry uptodate items keeping a value of their own in the saved values of the task -- config_changed ('_config_changed'),
doit.tools.run_once ('run-once'), the values-reading callable of (1b) ('rev'), getargs consumers (doit's implicit result_dep:
'_result:<producer>') -- and the constants False / True / None.  One (thorough: sometimes two) of the invocations is CUT by
KeyboardInterrupt / SystemExit inside an action; serial and thread runner; every backend.

Oracle (own book-keeping, class Ledger; nothing is taken from what doit computed): the ledger holds, per task, the last execution that
was reported saved (save_success seen, no later remove_success) by a run that flushed the DB (Dependency.close seen): the state of its
file_deps / rev file / producer result as logged BY THE ACTION when it completed, the configuration value and the checker of that run.
For EVERY run of the history and every task whose status the run computed:
    must be skipped   iff  the ledger has such an execution made under the SAME checker setting, all targets exist, the logged state
                           equals the state at the selection, the configuration value is the one of that execution, no False item;
    undetermined           when the only execution the ledger knows was recorded under the OTHER checker setting (doit documents that it
                           re-executes; the property text demands neither) -- also once the task was looked at under the other setting and
                           not saved again, and for a getargs consumer whose producer is in that position;
    must be executed       otherwise.
`forgot` = a task that must be skipped was executed (the core of the property when the execution was reported successful by a CUT run:
"every task already reported successful before the interruption is remembered (skipped next time if unchanged)"); `lying` = a task was
skipped that must be executed.  Record rule, after every run, on the DB read by the real backend class: a task saved by the run is recorded
with exactly the values its completed execution returned + the values of its helpers (and its result); a removed one is absent; every other
record is what it was before the run, or absent.  Cut runs: the exception reaches the caller (exit 4), the DB was flushed, the interrupted
task is neither reported nor saved.

Correspondence: Dependency.save_success itself (in this process, real Dependency + real backend, a record pre-populated under the same /
the other / no checker, a Task with values and a result) against Model/SaveRec.v `save_success` evaluated in Coq -- part_save_model.

Blocks: a SYSTEMATIC one that is the same on every seed (fixed 4-task set; why the tasks before the cut run again: targets removed /
configuration + rev edited / sources edited / nothing but the checker; x checker before -> checker of the cut run x backend) and random
histories of generated task sets (c06.gen_value_scenario + helpers).
"""
import concurrent.futures, hashlib, json, os, shutil

CHECKERS = ('md5', 'timestamp')
CHECKER_CLASS = {'md5': 'MD5Checker', 'timestamp': 'TimestampChecker'}
RUNNERS = {'serial': [], 'thread': ['-n', '2', '-P', 'thread']}


def cfg_digest(t):
    """what doit.tools.config_changed keeps for the configuration of t in this run (tools.py: the string itself / md5 of the sorted JSON)"""
    val = t.get('cfg', 'v0')
    if t.get('cfgform') == 'dict':
        return hashlib.md5(json.dumps({'opt': val, 'n': 1}, sort_keys=True).encode('utf-8')).hexdigest()
    return val


def helper_values(t):
    hs = t.get('helpers') or []
    vals = {}
    if 'config' in hs:
        vals['_config_changed'] = cfg_digest(t)
    if 'run_once' in hs:
        vals['run-once'] = True
    return vals


def sc_for(sc, step):
    """the task set as the user has it at this invocation: the configuration values of this run"""
    tasks = json.loads(json.dumps(sc['tasks']))
    for t in tasks:
        if 'config' in (t.get('helpers') or []):
            t['cfg'] = (step.get('cfg') or {}).get(t['name'], 'v0')
    return dict(tasks=tasks, selected=sc['selected'])


def make_ledger():
    import c06

    class Ledger(c06.Book):
        """c06.Book (state / values / result of the last flushed saved execution, getargs enrichment) + the checker setting and the
        configuration value of the run that execution belongs to, the run it was saved by, and the set of tasks whose record was
        looked at under the other checker setting since (doit may have dropped it: undetermined until saved / removed again)"""
        def __init__(self):
            super().__init__()
            self.chk, self.cfg, self.src, self.free = {}, {}, {}, set()

        def apply(self, sc, v, checker, rid=None, cut=False):
            names = [t['name'] for t in sc['tasks']]
            byname = {t['name']: t for t in sc['tasks']}
            pending, pvals, ptok = dict(self.rec), dict(self.vals), dict(self.rtok)
            pchk, pcfg, psrc, free = dict(self.chk), dict(self.cfg), dict(self.src), set(self.free)
            closed = False
            for e in v['events']:
                nm = names[e[1]] if len(e) > 1 and e[0] in (1, 7, 8) else None
                if e[0] == 1 and nm in pending and pchk.get(nm) != checker:
                    free.add(nm)
                elif e[0] == 7:
                    pending[nm], pvals[nm], ptok[nm] = v['done'].get(nm), v['vals'].get(nm, {}), v['rtok'].get(nm)
                    pchk[nm], pcfg[nm], psrc[nm] = checker, cfg_digest(byname[nm]), (rid, bool(cut))
                    free.discard(nm)
                elif e[0] == 8:
                    for m in (pending, pvals, ptok, pchk, pcfg, psrc):
                        m.pop(nm, None)
                    free.discard(nm)
                elif e[0] == 10:
                    closed = True
            if closed:
                self.rec, self.vals, self.rtok, self.chk, self.cfg, self.src, self.free = pending, pvals, ptok, pchk, pcfg, psrc, free
            return closed

        def undetermined_base(self, checker):
            return {nm for nm in self.rec if self.chk.get(nm) != checker} | set(self.free)

        def utd_now(self, name, sel, t):
            if not self.utd(name, sel):
                return False
            hs = t.get('helpers') or []
            if 'false' in hs:
                return False
            if 'config' in hs and self.cfg.get(name) != cfg_digest(t):
                return False
            return True

        def why_runs(self, name, sel, t, checker):
            """label (input distribution only) of the first reason get_status has to answer "run" for the task, from the declared inputs"""
            state, targets_ok = sel
            hs = t.get('helpers') or []
            if name not in self.rec:
                return 'no-record'
            if 'false' in hs or ('config' in hs and self.cfg.get(name) != cfg_digest(t)):
                return 'uptodate-item-false'
            old = dict((x[0], x[1]) for x in (self.rec[name] or []))     # None: saved without a completed execution (a swallowed interrupt)
            new = dict((x[0], x[1]) for x in state)
            if t.get('revfile') and old.get(t['revfile']) != new.get(t['revfile']):
                return 'uptodate-item-false'
            if any(k.startswith('_result:') and (old.get(k) != new.get(k) or new.get(k) is None) for k in new):
                return 'uptodate-item-false'
            if not targets_ok:
                return 'missing-target'
            if self.chk.get(name) != checker:
                return 'checker-changed'
            if old != new:
                return 'file-dep-changed'
            return 'up-to-date'
    return Ledger()


# ------------------------------------------------------------------ one history
def history_case(job):
    """never raises: an exception of the harness's own code becomes a `problem` of the case (reported as a disagreement)"""
    try:
        return history_case_(job)
    except Exception as e:   # noqa
        import traceback
        return dict(job=dict(replay='history', backend=job['backend'], runner=job['runner'], steps=job['steps'], tasks=job['sc']['tasks'],
                             selected=job['sc']['selected'], label=job.get('label')), runs=[], viol=[], counts=[],
                    problems=[('harness', '%s: %s | %s' % (type(e).__name__, e, traceback.format_exc()[-600:]))])


def history_case_(job):
    import c06
    d, sc, backend, runner, steps = (job[x] for x in ('dir', 'sc', 'backend', 'runner', 'steps'))
    names = [t['name'] for t in sc['tasks']]
    res = dict(job=dict(replay='history', backend=backend, runner=runner, steps=steps, tasks=sc['tasks'], selected=sc['selected'],
                        label=job.get('label')), runs=[], problems=[], viol=[], counts=[])
    shutil.rmtree(d, ignore_errors=True)
    os.makedirs(d)
    version = {}
    for s in c06.sources_of(sc):
        version[s] = 0
        c06.write_source(d, s, 0)
    led = make_ledger()
    prev_checker = None
    for rid, step in enumerate(steps):
        scr = sc_for(sc, step)
        byname = {t['name']: t for t in scr['tasks']}
        checker, cut = step['checker'], step.get('cut')
        args = ['--check_file_uptodate', checker] + RUNNERS[runner]
        kinds = {cut[0]: (cut[1], cut[2])} if cut else {}
        rec0 = c06.db_records(d, backend)
        rc, err = c06.run_child(d, scr, backend, rid, kinds=kinds, args=args)
        v = led.enrich(scr, c06.run_view(c06.read_log(d), rid))
        rec1 = c06.db_records(d, backend)
        ev = v['events']
        what_run = 'run %d of %d (%s, --check_file_uptodate %s%s)' % (
            rid, len(steps), 'CUT by %s in action %d of %s' % (cut[2], cut[1], cut[0]) if cut else 'complete', checker,
            '' if prev_checker in (None, checker) else ', the run before used %s' % prev_checker)
        if rc != 0 and runner == 'thread' and 'io.UnsupportedOperation' in err:
            res['skipped_known_c17'] = True     # see c06.interrupt_case: the known C17 thread stream race, not a C06 matter
            break
        reached = bool(cut) and (cut[0], cut[1]) in [tuple(x) for x in v['started']]
        # ---- what the run had to decide, from the ledger (state BEFORE this run) and the states the run logged at each selection
        ubase = led.undetermined_base(checker)
        exp_skip, undet, why = [], [], {}
        for i, e in enumerate(ev):
            if e[0] != 1:
                continue
            nm = names[e[1]]
            if nm not in v['sel']:
                continue
            t = byname[nm]
            und = nm in ubase
            if t.get('getargs'):
                p = t['getargs'][0]
                if p in ubase and [7, names.index(p)] not in ev[:i]:
                    und = True
            why[nm] = led.why_runs(nm, v['sel'][nm], t, checker)
            if und:
                undet.append(nm)
            elif led.utd_now(nm, v['sel'][nm], t):
                exp_skip.append(nm)
        skipped = [names[i] for i in c06.ev_tasks(v, 3)]
        executed = [names[i] for i in c06.ev_tasks(v, 5)]
        succeeded = [names[i] for i in c06.ev_tasks(v, 6)]
        for nm in exp_skip:
            if nm in executed:
                rid0, cut0 = led.src.get(nm, (None, False))
                res['viol'].append(('forgot-after-interrupt' if cut0 else 'forgot',
                                    '%s executed %s again: it was reported successful and saved by %s run %s, the DB was flushed, and nothing it depends on changed since '
                                    '(file_deps / rev file / producer result as at that execution, targets exist, same configuration value, same checker setting %s); '
                                    'record before this run: %s' % (what_run, nm, 'the INTERRUPTED' if cut0 else 'the complete', rid0, checker,
                                                                    c06.canon(rec0.get(nm)))))
        for nm in skipped:
            if nm not in exp_skip and nm not in undet:
                res['viol'].append(('lying', 'LYING DB: %s skipped %s as up-to-date, but no flushed successful execution of it fits the present state '
                                             '(first reason to run, from the declared inputs: %s); record before this run: %s'
                                    % (what_run, nm, why.get(nm), c06.canon(rec0.get(nm)))))
        # ---- the run itself
        closed = [10] in ev
        if cut and reached:
            k = names.index(cut[0])
            bad = []
            if rc != 4:
                bad.append('exit status %s instead of the escaping exception' % rc)
            if [6, k] in ev or [7, k] in ev:
                bad.append('the interrupted task was reported successful / saved')
            if not closed:
                bad.append('the DB was not flushed')
            if bad:
                res['viol'].append(('cut', '%s: %s' % (what_run, '; '.join(bad))))
        elif rc != 0 or not closed:
            res['viol'].append(('rc', '%s exits %s (DB flushed: %s): %s' % (what_run, rc, closed, err.strip().splitlines()[-1:])))
        # ---- record rule on the DB the real backend class reads
        if '<unreadable>' in rec1:
            res['viol'].append(('unreadable', '%s leaves a DB the %s backend cannot read: %s' % (what_run, backend, rec1['<unreadable>'])))
        elif closed and '<unreadable>' not in rec0:
            last = {}
            for e in ev:
                if e[0] in (7, 8):
                    last[names[e[1]]] = e[0]
            for nm in names:
                before, after = rec0.get(nm), rec1.get(nm)
                if last.get(nm) == 7:
                    want = dict(v['vals'].get(nm, {}), **helper_values(byname[nm]))
                    got = None if after is None else after.get('_values_:')
                    if c06.canon(got) != c06.canon(want):
                        res['viol'].append(('saved-values', '%s reported %s successful and saved it; its completed execution returned the values %s; the record '
                                                            'read after the run holds values %s (whole record: %s; record before the run: %s)'
                                            % (what_run, nm, c06.canon(want), c06.canon(got), c06.canon(after), c06.canon(before))))
                    elif v['rtok'].get(nm) is not None and c06.canon(after.get('result:')) != c06.canon(v['rtok'][nm]):
                        res['viol'].append(('saved-result', '%s saved %s whose result is %s; the record holds result %s'
                                            % (what_run, nm, c06.canon(v['rtok'][nm]), c06.canon(after.get('result:')))))
                elif last.get(nm) == 8:
                    if after is not None:
                        res['viol'].append(('removed', '%s: %s failed (remove_success) but is recorded: %s' % (what_run, nm, c06.canon(after))))
                elif after is not None and c06.canon(after) != c06.canon(before):
                    res['viol'].append(('record', 'LYING DB: %s neither saved nor removed %s, but its record changed: before %s, after %s'
                                        % (what_run, nm, c06.canon(before), c06.canon(after))))
        # ---- input distribution
        if cut and reached:
            for nm in succeeded:
                had = 'none' if nm not in led.rec else ('same-checker' if led.chk.get(nm) == checker else 'other-checker')
                res['counts'].append('history:cut-run-success:%s:prior-record-%s' % (why.get(nm), had))
        if prev_checker not in (None, checker):
            res['counts'].append('history:checker-switch-before-%s-run:%s>%s' % ('cut' if cut else 'complete', prev_checker, checker))
        for nm in undet:
            res['counts'].append('history:decision-undetermined(record under the other checker)')
        res['runs'].append(dict(rid=rid, checker=checker, cut=cut, reached=reached, rc=rc, trace=v['trace'], skipped=sorted(skipped),
                                executed=sorted(executed), reported_successful=succeeded, expected_skipped=sorted(exp_skip),
                                undetermined=sorted(undet), why=why, err=err[-300:] if rc not in (0, 4) else ''))
        led.apply(scr, v, checker, rid=rid, cut=bool(cut))
        if rc not in (0, 4) and not closed:
            break       # (an unexpected exit after a flush is reported above; the history goes on: what the next run does is judged too)
        prev_checker = checker
        # ---- what the user does before the next invocation
        for s in step.get('edit') or []:
            if s in version:
                version[s] += 1
                c06.write_source(d, s, version[s])
        for s in step.get('revert') or []:
            if version.get(s, 0) > 0:
                version[s] -= 1
                c06.write_source(d, s, version[s])
        for tg in step.get('rm') or []:
            try:
                os.remove(os.path.join(d, tg))
            except OSError:
                pass
    shutil.rmtree(d, ignore_errors=True)
    return res


# ------------------------------------------------------------------ inputs
def fixed_history_scenario():
    """the task set of the systematic block.  Serial order: t1, t2, t3 (t1 again only as its setup-task), t0.  The cut is in t0."""
    ok = lambda ret: dict(kind='ok', ret=ret)
    tasks = [
        dict(name='t0', file_dep=['src0'], targets=['out0'], task_dep=['t1', 't2', 't3'], actions=[ok('true')], teardown=False, pad=0,
             revfile=None, getargs=None),
        dict(name='t1', file_dep=['src1'], targets=['out1'], task_dep=[], actions=[ok('dict'), ok('str')], teardown=False, pad=0,
             revfile=None, getargs=None, helpers=['config']),
        dict(name='t2', file_dep=['src2'], targets=['out2'], task_dep=[], actions=[ok('dict'), ok('true')], teardown=True, pad=7,
             revfile='rev2', getargs=None, helpers=['run_once']),
        dict(name='t3', file_dep=['src3', 'out2'], targets=['out3'], task_dep=[], actions=[ok('str'), ok('dict')], teardown=False, pad=0,
             revfile=None, getargs=['t1', 'rev'], helpers=['config', 'none'], cfgform='dict'),
    ]
    return dict(tasks=tasks, selected=['t0'])


WHY_FIXED = ('targets-removed', 'config-and-rev-edited', 'sources-edited', 'nothing-but-t0')


def fixed_steps(why, chk_a, chk_b, kind, long_tail):
    cfg0 = {'t1': 'v0', 't3': 'v0'}
    first = dict(checker=chk_a, cfg=cfg0, edit=['src0'], rm=[], revert=[])
    cfg1 = dict(cfg0)
    if why == 'targets-removed':
        first['rm'] = ['out1', 'out2', 'out3']
    elif why == 'config-and-rev-edited':
        cfg1 = {'t1': 'v1', 't3': 'v1'}
        first['edit'] = ['src0', 'rev2']
    elif why == 'sources-edited':
        first['edit'] = ['src0', 'src1', 'src2', 'src3']
    steps = [first,
             dict(checker=chk_b, cfg=cfg1, cut=['t0', 0, kind], edit=[], rm=[], revert=[]),
             dict(checker=chk_b, cfg=cfg1, edit=[], rm=[], revert=[]),      # nothing changed: t1-t3 of the cut run are skipped, t0 runs
             dict(checker=chk_b, cfg=cfg1, edit=[], rm=[], revert=[])]      # everything is skipped
    if long_tail:
        steps[-1]['rm'] = ['out2']
        steps += [dict(checker=chk_a, cfg=cfg1, cut=['t0', 0, kind], edit=[], rm=[], revert=[]),
                  dict(checker=chk_a, cfg=cfg1, edit=[], rm=[], revert=[])]
    return steps


def gen_history_scenario(rng, n):
    import c06
    sc = c06.gen_value_scenario(rng, n)
    for t in sc['tasks']:
        r = rng.random()
        hs = []
        if r < 0.45:
            hs.append('config')
            if rng.random() < 0.4:
                t['cfgform'] = 'dict'
        if rng.random() < 0.3:
            hs.append('run_once')
        r = rng.random()
        if r < 0.08:
            hs.append('false')
        elif r < 0.2:
            hs.append('true')
        elif r < 0.3:
            hs.append('none')
        rng.shuffle(hs)
        if hs:
            t['helpers'] = hs
    if not any('config' in (t.get('helpers') or []) for t in sc['tasks']):
        t = rng.choice(sc['tasks'])
        t['helpers'] = (t.get('helpers') or []) + ['config']
    return sc


def gen_steps(rng, sc, deep):
    import c06
    names = [t['name'] for t in sc['tasks']]
    byname = {t['name']: t for t in sc['tasks']}
    srcs = c06.sources_of(sc)
    targets = [tg for t in sc['tasks'] for tg in t['targets']]
    cfg_tasks = [t['name'] for t in sc['tasks'] if 'config' in (t.get('helpers') or [])]
    ver = {nm: 0 for nm in cfg_tasks}

    def edits(p_edit, p_rm):
        e = dict(edit=[], rm=[], revert=[])
        if rng.random() < p_edit:
            e['edit'] = sorted(rng.sample(srcs, rng.randrange(1, len(srcs) + 1)))
        elif rng.random() < 0.15:
            e['revert'] = sorted(rng.sample(srcs, rng.randrange(1, len(srcs) + 1)))
        if rng.random() < p_rm:
            e['rm'] = sorted(rng.sample(targets, rng.randrange(1, len(targets) + 1)))
        return e

    def cfg_now(p_change):
        for nm in cfg_tasks:
            if rng.random() < p_change:
                ver[nm] = rng.choice([ver[nm] + 1, max(0, ver[nm] - 1)])
        return {nm: 'v%d' % ver[nm] for nm in cfg_tasks}

    def other(c):
        return CHECKERS[1 - CHECKERS.index(c)]
    chk = rng.choice(CHECKERS)
    steps = []
    for _ in range(rng.choice([1, 1, 2])):
        steps.append(dict(checker=chk, cfg=cfg_now(0.0 if not steps else 0.3), **edits(0.6, 0.5)))
        if rng.random() < 0.25:
            chk = other(chk)
    for ci in range(2 if (deep and rng.random() < 0.35) else 1):
        # the cut run: its target must have something to do -- own source edited, own target removed or own configuration edited
        target = rng.choice(names)
        t = byname[target]
        ai = rng.randrange(len(t['actions']))
        prev = steps[-1]
        reason = rng.choice(['edit', 'rm'] + (['cfg'] if target in cfg_tasks else []) + (['rev'] if t.get('revfile') else []))
        if reason == 'edit':
            prev['edit'] = sorted(set(prev['edit']) | {'src' + target[1:]})
            prev['revert'] = [x for x in prev['revert'] if x != 'src' + target[1:]]
        elif reason == 'rev':
            prev['edit'] = sorted(set(prev['edit']) | {t['revfile']})
            prev['revert'] = [x for x in prev['revert'] if x != t['revfile']]
        elif reason == 'rm':
            prev['rm'] = sorted(set(prev['rm']) | set(t['targets']))
        if rng.random() < 0.65:
            chk = other(chk)
        cfg = cfg_now(0.3)
        if reason == 'cfg':
            ver[target] += 1
            cfg = {nm: 'v%d' % ver[nm] for nm in cfg_tasks}
        steps.append(dict(checker=chk, cfg=cfg, cut=[target, ai, rng.choice(['kbd', 'sysexit'])], edit=[], rm=[], revert=[]))
        if rng.random() < 0.25:     # the user does something before running again (same checker)
            steps[-1].update(edits(0.5, 0.5))
        steps.append(dict(checker=chk, cfg=dict(cfg), edit=[], rm=[], revert=[]))
    if rng.random() < 0.6:
        steps[-1].update(edits(0.5, 0.4))
        if rng.random() < 0.5:
            chk = other(chk)
        cfg = cfg_now(0.2)
        steps.append(dict(checker=chk, cfg=cfg, edit=[], rm=[], revert=[]))
        steps.append(dict(checker=chk, cfg=dict(cfg), edit=[], rm=[], revert=[]))
    return steps


# ------------------------------------------------------------------ the part
def judge(out, job, res):
    """violations of one history -> out.violations (one per kind and case); returns the list of (kind, what)"""
    desc = dict(res['job'])
    shape = 'c06:history:%s:%s' % (job['backend'], job['runner'])
    seen = set()
    for kind, what in res['viol']:
        if kind in seen:
            continue
        seen.add(kind)
        out.violations.append(dict(what='history (%s backend, %s runner%s): %s' % (job['backend'], job['runner'],
                                                                                   ', ' + job['label'] if job.get('label') else '', what),
                                   shape=shape + ':' + kind, case=desc))
    return res['viol']


def part_history(ctx, out, cases):
    import c06
    rng = ctx.rng
    base = ctx.subdir('hist')
    jobs = []
    # ---- systematic block (no PRNG draw)
    fsc = fixed_history_scenario()
    for wi, why in enumerate(WHY_FIXED):
        for si, (a, b) in enumerate((('md5', 'timestamp'), ('timestamp', 'md5'), ('md5', 'md5'), ('timestamp', 'timestamp'))):
            for bi, backend in enumerate(c06.BACKENDS):
                if ctx.quick and a == b and bi != (wi + si) % 3:
                    continue       # quick tier: the histories without a switch on one backend each (rotating)
                for runner in (('serial',) if ctx.quick else ('serial', 'thread')):
                    kind = ('kbd', 'sysexit')[(wi + si + bi) % 2]
                    jobs.append(dict(dir=os.path.join(base, 'f%d' % len(jobs)), sc=fsc, backend=backend, runner=runner,
                                     steps=fixed_steps(why, a, b, kind, long_tail=not ctx.quick), label='systematic:%s:%s>%s' % (why, a, b), fixed=True))
    n_fixed = len(jobs)
    # ---- random histories
    sizes = [2, 3, 3] if ctx.quick else [2, 3, 3, 4, 3, 2, 4, 3]
    for n in sizes:
        sc = gen_history_scenario(rng, n)
        for backend in c06.BACKENDS:
            for _ in range(ctx.n(4, 8)):
                runner = 'thread' if rng.random() < 0.25 else 'serial'
                jobs.append(dict(dir=os.path.join(base, 'r%d' % len(jobs)), sc=sc, backend=backend, runner=runner,
                                 steps=gen_steps(rng, sc, deep=not ctx.quick), label='random'))
    with concurrent.futures.ThreadPoolExecutor(max_workers=c06.common.NCPU) as ex:
        results = list(ex.map(history_case, jobs))
    n_runs = 0
    for job, res in zip(jobs, results):
        out.count('history:%s:%s:%s' % (job['backend'], job['runner'], 'systematic' if job.get('fixed') else 'random'))
        if res.get('skipped_known_c17'):
            out.count('history-run-died-of-known-C17-thread-stream-race')
            continue
        out.evaluations += 1
        n_runs += len(res['runs'])
        for c in res['counts']:
            out.count(c)
        for t in job['sc']['tasks']:
            for h in t.get('helpers') or []:
                out.count('history-task-helper:' + h)
        judge(out, job, res)
        for kind_, what in res['problems']:
            out.mismatches.append(dict(case=dict(res['job']), impl=what, model='the harness could judge the history'))
        cuts = [r for r in res['runs'] if r['cut'] and r['reached']]
        if cuts:
            out.nontrivial.add(('history', job['backend'], job['runner'], tuple(r['checker'] for r in res['runs']),
                                tuple(tuple(r['trace']) for r in res['runs'])))
        if cuts and not any(x.get('kind') == 'history' for x in out.samples):
            out.samples.append(dict(kind='history', backend=job['backend'], runner=job['runner'], label=job.get('label'), steps=job['steps'],
                                    runs=[{k: r[k] for k in ('rid', 'checker', 'cut', 'rc', 'reported_successful', 'skipped', 'executed',
                                                             'expected_skipped', 'undetermined', 'why')} for r in res['runs']]))
    out.extra['history_cases'] = len(jobs)
    out.extra['history_cases_systematic'] = n_fixed
    out.extra['history_doit_invocations'] = n_runs
    part_save_model(ctx, out, cases)


# ------------------------------------------------------------------ correspondence: Dependency.save_success against Model/SaveRec.v
KEYS = ['_values_:', 'result:', 'checker:', 'deps:', 'ignore:']      # ids 0..4; file_dep i = 5 + i


def save_case(ctx, rng, idx, spec=None):
    """one call of the real Dependency.save_success on a record pre-populated by a real save under the same / the other checker (or no
    record, or a record without `checker:`); returns the correspondence case (model term, observed record)"""
    import c06
    from doit.dependency import Dependency, JsonDB, DbmDB, SqliteDB, MD5Checker, TimestampChecker
    from doit.task import Task
    if spec is None:
        spec = dict(backend=rng.choice(c06.BACKENDS), prior=rng.choice(['none', 'same', 'other', 'other', 'nochecker']),
                    chk=rng.choice(CHECKERS), ndep0=rng.randrange(0, 3), ndep1=rng.randrange(0, 3),
                    vals0=rng.choice([{}, {'a': 1}, {'a': 1, '_config_changed': 'v0'}]), vals1=rng.choice([{}, {'b': 2}, {'run-once': True, 'a': 3}]),
                    res0=rng.choice([None, 'r0', {'x': 1}]), res1=rng.choice([None, 'r1', {'y': 2}]), flush=rng.random() < 0.5)
    d = os.path.join(ctx.subdir('savem'), 'c%d' % idx)
    shutil.rmtree(d, ignore_errors=True)
    os.makedirs(d)
    files = []
    for i in range(3):
        p = os.path.join(d, 'dep%d' % i)
        with open(p, 'w') as f:
            f.write('dep %d\n' % i)
        os.utime(p, (1500000000 + i, 1500000000 + i))
        files.append(p)
    cls = {'json': JsonDB, 'dbm': DbmDB, 'sqlite3': SqliteDB}[spec['backend']]
    ckcls = {'md5': MD5Checker, 'timestamp': TimestampChecker}
    other = CHECKERS[1 - CHECKERS.index(spec['chk'])]
    dbname = os.path.join(d, 'db')

    def task_of(ndep, vals, result):
        t = Task('t', None, file_dep=files[:ndep])
        t.values, t.result = dict(vals), result
        return t
    observed = 98
    try:
        if spec['prior'] != 'none':
            dm = Dependency(cls, dbname, ckcls[other if spec['prior'] == 'other' else spec['chk']])
            dm.save_success(task_of(spec['ndep0'], spec['vals0'], spec['res0']))
            if spec['prior'] == 'nochecker':
                dm._set('t', 'checker:', None)     # a record of a doit older than the `checker:` key
            if spec['flush']:
                dm.close()
                dm = None
        else:
            dm = None
        if dm is None:
            dm = Dependency(cls, dbname, ckcls[spec['chk']])
        else:
            dm.checker = ckcls[spec['chk']]()      # not flushed in between: the same backend object (the record is in its cache), this run's checker
        rec0 = {k: dm._get('t', k) for k in KEYS + files}
        rec0 = {k: x for k, x in rec0.items() if x is not None}
        sets = []
        o_set = dm._set

        def l_set(task_id, key, value):
            sets.append((key, json.loads(json.dumps(value))))
            return o_set(task_id, key, value)
        dm._set = l_set
        dm.save_success(task_of(spec['ndep1'], spec['vals1'], spec['res1']))
        dm._set = o_set
        dm.close()
        dm2 = Dependency(cls, dbname, ckcls[spec['chk']])
        rec1 = {k: dm2._get('t', k) for k in KEYS + files}
        rec1 = {k: x for k, x in rec1.items() if x is not None}
        dm2.close()
        observed = 0
    except Exception as e:   # noqa
        rec0, rec1, sets = {}, {'<exception>': '%s: %s' % (type(e).__name__, e)}, []
    shutil.rmtree(d, ignore_errors=True)
    allkeys = KEYS + files
    kid = {k: i for i, k in enumerate(allkeys)}
    vals = {}

    def vid(x):
        return vals.setdefault(c06.canon(json.loads(json.dumps(x))), len(vals))
    # value ids: the checker names first, so that the model can compare them
    ck_now, ck_other = vid(CHECKER_CLASS[spec['chk']]), vid(CHECKER_CLASS[other])
    pairs = lambda items: '[' + '; '.join('(%d%%N, %d%%Z)' % (kid[k], vid(x)) for k, x in items) + ']'
    old = 'None' if not rec0 else '(Some (mk_rec %s))' % pairs(sorted(rec0.items(), key=lambda kv: kid[kv[0]]))
    # the pairs save_success hands to backend.set, WITHOUT the checker pair (the model adds it): its own inputs
    body = [(k, x) for k, x in sets if k != 'checker:']
    term = 'enc_rec %s (Some (save_success %d%%Z %s %s))' % (c06.runlib.nl(range(len(allkeys))), ck_now, old, pairs(body))
    if observed == 0:
        exp = [1] + [vid(rec1[k]) if k in rec1 else -1 for k in allkeys]
    else:
        exp = [observed]
    return dict(defs='', model=term, expected=exp, desc=('save_success-record', dict(spec, observed=rec1 if observed else None))), spec


def part_save_model(ctx, out, cases):
    rng = ctx.rng
    n = 0
    # systematic: every (prior record kind, checker, backend), flushed in between or not
    import c06
    for prior in ('none', 'same', 'other', 'nochecker'):
        for chk in CHECKERS:
            for bi, backend in enumerate(c06.BACKENDS):
                spec = dict(backend=backend, prior=prior, chk=chk, ndep0=2, ndep1=1 + bi % 2, vals0={'a': 1, '_config_changed': 'v0'}, vals1={'b': 2},
                            res0='r0', res1=[None, 'r1', {'y': 2}][bi], flush=bool((bi + CHECKERS.index(chk)) % 2))
                case, _ = save_case(ctx, rng, n, spec)
                cases.append(case)
                out.count('save_success-model:prior-%s' % prior)
                n += 1
    for _ in range(ctx.n(30, 200)):
        case, spec = save_case(ctx, rng, n)
        cases.append(case)
        out.count('save_success-model:prior-%s' % spec['prior'])
        out.nontrivial.add(('save-model', json.dumps(spec, sort_keys=True)))
        n += 1
    out.extra['save_success_calls_compared_with_SaveRec_v'] = n


# ------------------------------------------------------------------ replay
def replay_history(ctx, case):
    import c06
    sc = dict(tasks=case['tasks'], selected=case['selected'])
    job = dict(dir=os.path.join(ctx.subdir('replay'), 'h'), sc=sc, backend=case['backend'], runner=case.get('runner', 'serial'),
               steps=case['steps'], label=case.get('label'))
    res = history_case(job)
    print('history of %d doit invocations, %s backend, %s runner; tasks: %s' % (len(case['steps']), case['backend'], job['runner'],
                                                                                [(t['name'], t.get('helpers'), t.get('revfile'), t.get('getargs')) for t in sc['tasks']]))
    for step, r in zip(case['steps'], res['runs']):
        print('run %d: --check_file_uptodate %s cfg=%s %s -> rc=%s trace=%s' % (r['rid'], r['checker'], step.get('cfg'),
                                                                              ('CUT %s' % (r['cut'],) + ('' if r['reached'] else ' (not reached)')) if r['cut'] else 'complete',
                                                                              r['rc'], r['trace']))
        print('   reported successful=%s skipped=%s executed=%s | expected skipped=%s undetermined=%s' % (r['reported_successful'], r['skipped'], r['executed'],
                                                                                                      r['expected_skipped'], r['undetermined']))
        print('   then the user: edits %s, takes back %s, removes %s' % (step.get('edit'), step.get('revert'), step.get('rm')))
    for kind, what in res['viol']:
        print('VIOLATED (%s): %s' % (kind, what))
    return 1 if res['viol'] or res['problems'] else 0
