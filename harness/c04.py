"""C04 -- an unchanged task is never re-executed (minimal rebuild).

Same machinery as C03 (harness/c03.py: the histories, the real Dependency on the three backends, the
model of Model/Status.v + History.v evaluated in Coq); the property oracle reported here is the
CONVERSE one kept by the same Python shadow: whenever every condition holds (file_dep set, each file
unmodified by the checker's rule w.r.t. what the last successful execution saw, targets, uptodate
items, at least one dependency) the verdict must be up-to-date.  Touch / same-content rewrite under
md5 and the immediate re-check after SaveOk are part of the scripted and random histories; the family
utd-flip of c03.py (a run whose uptodate item is false after an edit of a file dep, then nothing / a rewrite the
checker calls unmodified) is the one that needs the state of EVERY file dep recorded by such a run.
"""
import common
from common import Outcome
import c03


def run(ctx):
    out = Outcome()
    out.rule = c03.RULE
    c03.explore(ctx, out)
    c03.explore_e2e(ctx, out)
    c03.shrink_findings(ctx, out, c03=False)
    c03_viol = out.violations
    out.violations = list(out.c04_violations) + [v for v in c03_viol if v['shape'] == 'checker-switch-typeerror']
    out.extra['c03_oracle_findings_seen_here'] = len(c03_viol)
    out.assumptions = ['FS-fresh (see C03)', 'callables / shell commands in uptodate are oracles',
                       'hypothesis of completeness includes: the snapshot was taken under the configured checker '
                       '(a record written by another checker is deleted by get_status: documented)']
    out.extra['trusted_base'] = ['harness/c03.py: World, Shadow, encoders (shared with C03)']
    return out


def replay(ctx, payload):
    return c03.replay(ctx, payload)
