"""C04 -- an unchanged task is never re-executed (minimal rebuild).

Same machinery as C03 (harness/c03.py: the histories, the real Dependency on the three backends, the
model of Model/Status.v + History.v evaluated in Coq); the property oracle reported here is the
CONVERSE one kept by the same Python shadow: whenever every condition holds (file_dep set, each file
unmodified by the checker's rule w.r.t. what the last successful execution saw, targets, uptodate
items, at least one dependency) the verdict must be up-to-date.  Touch / same-content rewrite under
md5 and the immediate re-check after SaveOk are part of the scripted and random histories; the family
utd-flip of c03.py (a run whose uptodate item is false after an edit of a file dep, then nothing / a rewrite the
checker calls unmodified) is the one that needs the state of EVERY file dep recorded by such a run.

Family `getargs` (this file; model: coq/Model/Getargs.v on top of Status.v / History.v).
Values taken from other tasks: `getargs` (one implicit result_dep(provider, setup_dep=True) per provider; the
provider is a SETUP-task: it runs between the consumer's up-to-date check and the consumer's execution) and
explicit `uptodate=[result_dep(provider)]` (the provider is a task_dep: it runs before the consumer's check).
Run-level histories over 3 tasks, through DoitMain in-process (real loader, TaskControl, TaskDispatcher, Runner /
MThreadRunner, Dependency on json | dbm | sqlite3, md5 | timestamp checker, a recording reporter):
    ('SetChecker', ck)  ('Order', [t..]) = order of the task-creators in the dodo file
    ('Write', f, c) ('Touch', f)         = file operations (harness clock; files 0,1 are file deps, 2 a target of T0)
    ('GDef', t, d)                       = the definition of Tt changed; d = file_dep, targets, uptodate (bool / None / callable /
                                           command / run_once / config_changed / result_dep), the values and the result its
                                           actions produce, getargs = [(provider, i)] meaning {'a<n>': ('T<provider>', 'u<i>')}
    ('Run', sel, plain, par, fails)      = doit run --continue [-n 2 -P thread] [T.. of sel]   (plain: no task on the
                                           command line = every task in definition order); the actions of `fails` fail
    ('Forget', t) ('Ignore', t)          = doit forget Tt / doit ignore Tt
Encoding compared with `gobserve (grun ..)` of Getargs.v (serial runs only): per run, for every task in the order of its
final report [t; code] (0 executed+saved, 1 executed+failed, 2 skipped up-to-date, 3 skipped ignored, 4 failed without
being executed), then -8; then -7 and the logical DB content as in c03 (records, file states, values incl. `_result:*`).
Histories with a threaded run are judged by the oracles only (which of two independent tasks a threaded runner reaches
first is not modelled; the check of a getargs consumer is not ordered after a provider that is already running: recorded
as a known finding of C08).
Independent oracles (no use of the model, no use of the real uptodate objects), both on the reporter's event order:
  * shadow: per task what its last successful execution saw -- checker, file_dep, (mtime,size,content) of each, the
    uptodate items, and for every provider the result the provider's record held at that moment; at reporter.get_status(t)
    the conditions of C04 are evaluated on the live state (config_changed: same value as saved; run_once: saved;
    result_dep: the provider's record holds a result and it is the one seen then); if they all hold and the runner
    executes t: `c04-unchanged-rerun-getargs`;
  * repeat: a run repeated immediately (same command line, nothing in between) after a fully successful one (exit 0, every
    task executed+saved or up-to-date) must not execute a task, unless the task can never be up-to-date by definition (no
    file_dep and no evaluated item; an item that is false by definition: False / callable False / failing command /
    result_dep on a provider whose record holds no result; a missing target) or a provider of it was executed in the first run
    AFTER the task's own last success in that run (lazy getargs: the consumer was checked before) or again in the repeated run
    before the task was checked (a chain of such consumers settles one level per run), or the task was not reached by the first run
    at all (a setup-task of a lazily rebuilt consumer): `c04-repeat-run-reexecuted`.

Sub-family `group` of the family getargs (this file, run_grp / explore_gi; item model: coq/Model/GroupRes.v): the source of result_dep /
getargs is a GROUP task that also depends on a plain task which is not one of its sub-tasks; "the result of the group" is the dict of its
SUB-TASKS' results (doc/uptodate.rst) -- see the comment above GRP_CODE for operations and the three oracles.

Family `calcdep` (this file, second half; model: coq/Model/CalcDep.v): dependencies a task gets from the values of other tasks
(`calc_dep`) -- see the comment above C() for operations, encoding and the three oracles.
"""
import contextlib, io, json, os
import common
from common import Outcome
import c03

NT = c03.NT

PRE_G = ('From DoitV Require Import Base Status History Getargs.\nOpen Scope Z_scope.\n'
         'Definition md5o (c : N) : N := c.\n'
         'Definition sizeo (c : N) : Z := match c with 0%N => 4 | 1%N => 4 | 2%N => 2 | 3%N => 4 | 4%N => 0 | _ => 7 end.\n'
         'Definition gobsv (l : list gop) : list Z := gobserve [0;1;2]%N [0;1;2]%N (grun md5o sizeo current l).\n')


def G(fd=(), tg=(), utd=(), values=(), result=None, getargs=()):
    return dict(file_dep=list(fd), targets=list(tg), uptodate=[tuple(u) for u in utd], values=[tuple(x) for x in values],
                result=result, getargs=[tuple(x) for x in getargs])


EMPTY = G()


def norm(h):
    """history from JSON: lists back to tuples"""
    res = []
    for o in h:
        o = tuple(o)
        if o[0] == 'GDef':
            o = ('GDef', o[1], G(o[2]['file_dep'], o[2]['targets'], o[2]['uptodate'], o[2]['values'], o[2]['result'], o[2].get('getargs', ())))
        res.append(o)
    return res


def providers(d):
    """providers of the getargs entries"""
    res = []
    for p, _ in d['getargs']:
        if p not in res:
            res.append(p)
    return res


def res_deps(d):
    """every task an (explicit or implicit) result_dep item of d looks at"""
    res = [u[1] for u in d['uptodate'] if u[0] == 'result_dep']
    return res + [p for p in providers(d) if p not in res]


def getargs_dict(d):
    """the getargs attribute of the real task (run_g) -- the insertion order is part of the input"""
    return {'a%d' % i: ('T%d' % p, 'u%d' % k) for i, (p, k) in enumerate(d['getargs'])}


def model_getargs(d):
    """getargs entries in the order in which the real Task lists the providers in task.setup_tasks
    (Task._init_getargs collects them in a set: the iteration order of that set -- it depends on the
    insertion order too -- is the order of the implicit result_dep items and of the setup-tasks)"""
    if len(set(p for p, _ in d['getargs'])) < 2:
        return list(d['getargs'])
    from doit.task import Task
    order = [int(n[1:]) for n in Task('x', None, getargs=getargs_dict(d)).setup_tasks]
    return sorted(d['getargs'], key=lambda pk: order.index(pk[0]))


def sel_of(o, order):
    return list(order) if o[2] else list(o[1])


def g_coq(h):
    order = list(range(NT))
    out = []
    for o in h:
        k = o[0]
        if k == 'Order':
            order = list(o[1])
        elif k == 'GDef':
            d = o[2]
            out.append('GSetDef %d {| rd_def := %s; rd_getargs := [%s] |}' % (
                o[1], c03.def_coq(d), '; '.join('(%d, %d)' % (p, i) for p, i in model_getargs(d))))
        elif k == 'Run':
            out.append('GRun [%s] [%s]' % ('; '.join(map(str, sel_of(o, order))), '; '.join(map(str, o[4]))))
        elif k == 'Forget':
            out.append('GP (Remove %d)' % o[1])
        else:
            out.append('GP (%s)' % c03.op_coq(o))
    return 'gobsv ([%s]%%N)' % '; '.join(out)


class GReporter:
    """recording reporter: every call the runner makes, in order"""
    log = None
    desc = 'recording'

    def __init__(self, outstream, options):
        pass

    def initialize(self, tasks, selected_tasks):
        pass

    def get_status(self, task):
        GReporter.log.append(('status', task.name))

    def execute_task(self, task):
        GReporter.log.append(('execute', task.name))

    def add_failure(self, task, fail):
        GReporter.log.append(('failure', task.name))

    def add_success(self, task):
        GReporter.log.append(('success', task.name))

    def skip_uptodate(self, task):
        GReporter.log.append(('uptodate', task.name))

    def skip_ignore(self, task):
        GReporter.log.append(('ignore', task.name))

    def cleanup_error(self, exception):
        GReporter.log.append(('cleanup_error', None))

    def runtime_error(self, msg):
        GReporter.log.append(('runtime_error', None))

    def teardown_task(self, task):
        pass

    def complete_run(self):
        pass


NEVER_ITEMS = (('bool', False), ('call', False), ('cmd', False))


class GShadow:
    """what the last successful execution of each task saw; never looks at the DB or at the real uptodate objects"""
    def __init__(self):
        self.last_ok = {}
        self.cur_result = {}         # the result each task's record holds (None: no record / no result)
        self.fresh = True

    def item(self, u, sn):
        k = u[0]
        if k in ('bool', 'call', 'cmd'):
            return u[1]
        if k == 'none':
            return None
        if sn is None:
            return False
        if k == 'run_once':
            return ('run_once',) in sn['items']
        if k == 'config':
            saved = [x[1] for x in sn['items'] if x[0] == 'config']
            return bool(saved) and saved[-1] == u[1]
        if k == 'result_dep':
            then = sn['results'].get(u[1])
            return then is not None and then == self.cur_result.get(u[1])
        raise ValueError(u)

    def complete(self, w, d, t):
        """the hypotheses of C04 hold for t right now"""
        sn = self.last_ok.get(t)
        items = [self.item(u, sn) for u in d['uptodate']] + [self.item(('result_dep', p), sn) for p in providers(d)]
        fd = set(d['file_dep'])
        if not all(x is not False for x in items):
            return False
        if not (fd or any(x is not None for x in items)):
            return False
        if not all(f in w.fsview for f in d['targets']):
            return False
        if sn is None:
            return not fd
        return (sn['ck'] == w.ck and set(sn['file_dep']) == fd and
                all(f in w.fsview and c03.Shadow.unmodified(w.ck, sn['view'][f], w.fsview[f]) for f in fd))

    def success(self, w, d, t):
        self.last_ok[t] = dict(ck=w.ck, file_dep=list(d['file_dep']), view={f: w.fsview[f] for f in d['file_dep']},
                               items=list(d['uptodate']), results={p: self.cur_result.get(p) for p in res_deps(d)})
        if d['result'] is not None:         # a falsy task.result leaves the saved 'result:' alone (dependency.py 541-547)
            self.cur_result[t] = d['result']

    def gone(self, t):
        self.last_ok.pop(t, None)
        self.cur_result.pop(t, None)


def never_uptodate(w, defs, sh, t):
    """t can never be up-to-date by definition (or a documented condition holds whatever was recorded)"""
    d = defs[t]
    items = list(d['uptodate'])
    if not d['file_dep'] and all(u[0] == 'none' or u == ('call', None) for u in items) and not d['getargs']:
        return True
    if any(u in NEVER_ITEMS for u in items):
        return True
    if any(sh.cur_result.get(p) is None for p in res_deps(d)):     # the provider's record holds no result
        return True
    return any(f not in w.fsview for f in d['targets'])


def run_g(ctx, backend, h, out):
    """executes a run-level history of the family `getargs` through DoitMain; returns the ints observed;
    findings of the two oracles are appended to out.c04_violations"""
    from doit.doit_cmd import DoitMain
    from doit.cmd_base import ModuleTaskLoader
    w = c03.World(ctx, backend, 'g')
    w.dep.close()
    sh = GShadow()
    defs = {t: EMPTY for t in range(NT)}
    st = dict(order=list(range(NT)), fails=())
    obs = []
    prev = None          # (index, op, rc, codes, log) of the previous operation when it was a run

    def mk(t):
        d = defs[t]
        acts = []
        if d['values']:
            vals = {('u%d' % k): x for k, x in d['values']}
            acts.append((lambda vals=vals: dict(vals),))

        def final(**kw):
            if t in st['fails']:
                return False
            return True if d['result'] is None else 'res%d' % d['result']
        acts.append((final,))
        res = {'actions': acts, 'file_dep': [w.path(f) for f in sorted(d['file_dep'])],
               'targets': [w.path(f) for f in d['targets']], 'uptodate': [w.make_utd(tuple(u)) for u in d['uptodate']]}
        if d['getargs']:
            res['getargs'] = getargs_dict(d)
        return res

    def namespace():
        cfg = {'dep_file': w.dbpath, 'backend': {'json': 'json', 'dbm': 'dbm', 'sqlite': 'sqlite3'}[backend],
               'check_file_uptodate': 'md5' if w.ck == 'md5' else 'timestamp',
               'reporter': GReporter, 'verbosity': 0, 'continue': True}
        # real task-creators at distinct source lines: the loader orders them by line number
        # (loader.py sorts by inspect.getsourcelines: the source is a real file, one per definition order)
        src = ''.join('def task_T%d():\n    return _mk(%d)\n' % (t, t) for t in st['order'])
        path = os.path.join(ctx.subdir('gdodo'), 'dodo_%s.py' % ''.join(map(str, st['order'])))
        if not os.path.exists(path):
            with open(path, 'w') as fh:
                fh.write(src)
        ns = {'_mk': mk}
        exec(compile(src, path, 'exec'), ns)
        ns['DOIT_CONFIG'] = cfg
        return {k: v for k, v in ns.items() if k.startswith('task_') or k == 'DOIT_CONFIG'}

    def doit(args):
        GReporter.log = []
        buf = io.StringIO()
        with contextlib.redirect_stdout(buf), contextlib.redirect_stderr(buf):
            try:
                rc = DoitMain(ModuleTaskLoader(namespace())).run(args)
            except SystemExit:
                rc = 90
        return rc, list(GReporter.log), buf.getvalue()

    try:
        for idx, o in enumerate(h):
            k = o[0]
            this = None
            if k in ('Write', 'Touch'):
                w.apply(o)
                if w.not_fresh:
                    sh.fresh = False
            elif k == 'SetChecker':
                w.ck = o[1]
            elif k == 'Order':
                if sorted(o[1]) == list(range(NT)):
                    st['order'] = list(o[1])
            elif k == 'GDef':
                defs[o[1]] = o[2]
            elif k == 'Forget':
                doit(['forget', 'T%d' % o[1]])
                sh.gone(o[1])
            elif k == 'Ignore':
                doit(['ignore', 'T%d' % o[1]])
            elif k == 'Run':
                sel, plain, par, fails = sel_of(o, st['order']), o[2], o[3], tuple(o[4])
                st['fails'] = fails
                args = ['run', '--continue'] + (['-n', '2', '-P', 'thread'] if par else []) + ([] if plain else ['T%d' % t for t in sel])
                rc, log, txt = doit(args)
                if rc not in (0, 1, 2):
                    obs += [97, rc, -8]
                    prev = None
                    continue
                # ---- what the runner did, per task, in the order of the final reports
                executed, verdict, pairs, pos_ok, pos_status, pos = set(), {}, [], {}, {}, 0
                for ev, n in log:
                    pos += 1
                    if n is None:
                        continue
                    t = int(n[1:])
                    if ev == 'status':
                        verdict.setdefault(t, sh.fresh and sh.complete(w, defs[t], t))
                        pos_status.setdefault(t, pos)
                    elif ev == 'execute':
                        executed.add(t)
                        if verdict.get(t):
                            out.c04_violations.append(dict(
                                what='runner executed a task although nothing changed since its last successful execution '
                                     '(file deps, targets, uptodate items and the results of the tasks it takes values from are as they were)',
                                shape='c04-unchanged-rerun-getargs', case=dict(history=h, backend=backend, task=t, run=idx)))
                    elif ev == 'success':
                        pairs.append((t, 0 if t in executed else 96))
                        pos_ok[t] = pos
                        sh.success(w, defs[t], t)
                    elif ev == 'failure':
                        pairs.append((t, 1 if t in executed else 4))
                        sh.gone(t)
                    elif ev == 'uptodate':
                        pairs.append((t, 2))
                    elif ev == 'ignore':
                        pairs.append((t, 3))
                if par:
                    pairs.sort()
                for t, c in pairs:
                    obs += [t, c]
                    out.count('g-decision:%d' % c)
                obs.append(-8)
                # ---- the run repeated immediately after a fully successful one
                if (prev is not None and prev[0] == idx - 1 and tuple(prev[1][1:]) == tuple(o[1:]) and not fails
                        and prev[2] == 0 and all(c in (0, 2) for _, c in prev[3]) and sh.fresh):
                    out.count('g-repeat-judged')
                    for t in sorted(executed):
                        if never_uptodate(w, defs, sh, t):
                            out.count('g-repeat-exec:never-up-to-date')
                            continue
                        if t not in dict(prev[3]):       # not reached by the first run (a second provider brought in as a setup-task of a
                            out.count('g-repeat-exec:not-reached-by-the-first-run')      # lazily rebuilt consumer): judged by the shadow only
                            continue
                        mine = prev[4].get(t, 0)
                        if any(prev[4].get(p, 0) > mine for p in res_deps(defs[t])):
                            out.count('g-repeat-exec:provider-ran-after-consumer')
                            continue
                        if any(pos_ok.get(p, pos + 1) < pos_status.get(t, 0) for p in res_deps(defs[t])):
                            out.count('g-repeat-exec:provider-ran-again-before-consumer')      # a chain of lazy consumers settles one level per run
                            continue
                        out.c04_violations.append(dict(
                            what='a run repeated immediately after a fully successful one executed a task that has a file_dep / '
                                 'uptodate item and can be up-to-date',
                            shape='c04-repeat-run-reexecuted', case=dict(history=h, backend=backend, task=t, run=idx)))
                    if not executed:
                        out.count('g-repeat:no-op')
                this = (idx, o, rc, pairs, pos_ok)
            else:
                raise ValueError(o)
            prev = this
        w.open()
        try:
            dump = w.dump()
        except Exception as e:  # noqa
            dump = [97, len(type(e).__name__)]
    finally:
        w.finish()
    return obs + [-7] + dump


# ------------------------------------------------------------------ histories of the family
def scripted_g():
    hs = []
    for ck in ('md5', 'ts'):
        S = [('SetChecker', ck), ('Write', 0, 0), ('Write', 1, 1)]
        C = G([0], getargs=[(1, 0)])
        P = G([1], values=[(0, 5)], result=1)
        P2 = G([1], values=[(0, 1)], result=2)
        P3 = G([1], values=[(0, 0)], result=3)
        allr = ('Run', [], True, False, [])
        only = ('Run', [0], False, False, [])
        # consumer defined first, plain `doit`, three times
        hs.append(S + [('Order', [0, 1, 2]), ('GDef', 0, C), ('GDef', 1, P), allr, allr, allr])
        # provider defined first, only the consumer selected
        hs.append(S + [('Order', [1, 0, 2]), ('GDef', 0, C), ('GDef', 1, P), only, only, only])
        # the provider's result changes (its file too): consumer only (up-to-date: the provider is not even looked at),
        # then everything (provider first: executed, consumer rebuilt), then again
        hs.append(S + [('Order', [1, 0, 2]), ('GDef', 0, C), ('GDef', 1, P), only, only, ('Write', 1, 3), ('GDef', 1, P2), only, only,
                       allr, allr, allr])
        # the consumer must run (its file changed) and the provider re-executes as its setup-task with ANOTHER result
        hs.append(S + [('Order', [1, 0, 2]), ('GDef', 0, C), ('GDef', 1, P), only, only, ('Write', 0, 3), ('Write', 1, 3), ('GDef', 1, P2),
                       only, only, ('Touch', 0), ('Write', 1, 0), ('GDef', 1, P3), only, only, allr, allr])
        # consumer first in the file, everything selected, provider changes while the consumer is up-to-date: lazily rebuilt by the next run
        hs.append(S + [('Order', [0, 1, 2]), ('GDef', 0, C), ('GDef', 1, P), allr, allr, ('Write', 1, 3), ('GDef', 1, P2), allr, allr, allr])
        # explicit result_dep: the provider is a task_dep
        E = G([0], utd=[('result_dep', 1)])
        hs.append(S + [('Order', [0, 1, 2]), ('GDef', 0, E), ('GDef', 1, P), only, only, ('Write', 1, 3), ('GDef', 1, P2), only, only, allr, allr])
        hs.append(S + [('Order', [1, 0, 2]), ('GDef', 0, G([], utd=[('result_dep', 1)])), ('GDef', 1, P), allr, allr, ('Write', 1, 3), ('GDef', 1, P3),
                       allr, allr])
        # both at once, and a chain T2 <- T0 <- T1
        hs.append(S + [('Order', [2, 0, 1]), ('GDef', 1, P), ('GDef', 0, G([0], utd=[('run_once',)], values=[(1, 1)], result=0, getargs=[(1, 0)])),
                       ('GDef', 2, G([], utd=[('result_dep', 1), ('config', 1)], getargs=[(0, 1), (1, 0)])),
                       ('Run', [2], False, False, []), ('Run', [2], False, False, []), ('Write', 1, 3), ('GDef', 1, P2),
                       ('Run', [2], False, False, []), ('Run', [2], False, False, []), allr, allr])
        # a provider without result / a key the provider does not produce / forget and ignore of the provider / a failing provider
        hs.append(S + [('Order', [0, 1, 2]), ('GDef', 0, C), ('GDef', 1, G([1], values=[(0, 5)])), allr, allr, ('GDef', 1, P), allr, allr])
        hs.append(S + [('Order', [0, 1, 2]), ('GDef', 0, G([0], getargs=[(1, 2)])), ('GDef', 1, P), allr, allr, ('GDef', 1, G([1], values=[(2, None)], result=1)),
                       allr, ('Write', 1, 3), allr, allr])
        hs.append(S + [('Order', [1, 0, 2]), ('GDef', 0, C), ('GDef', 1, P), only, ('Forget', 1), only, only, ('Ignore', 1), only, ('Forget', 0), only,
                       ('Forget', 1), only, only])
        hs.append(S + [('Order', [0, 1, 2]), ('GDef', 0, C), ('GDef', 1, P), ('Run', [], True, False, [1]), allr, allr, ('Write', 1, 3),
                       ('Run', [], True, False, [1]), allr, allr])
    return hs


ITEM_W = [('bool', True)] * 7 + [('call', True)] * 2 + [('call', None), ('none',), ('cmd', True)] + [('run_once',)] * 3 + [('bool', False)]


def gen_gdef(rng, t, lower, defs, force=None):
    fd = rng.sample([0, 1], rng.choice([0, 1, 1, 1, 2]))
    items = []
    for _ in range(rng.choice([0, 0, 1, 1, 2])):
        if rng.random() < 0.15 and not any(u[0] == 'config' for u in items):
            items.append(('config', rng.randrange(3)))
        else:
            items.append(rng.choice(ITEM_W))
    getargs = []
    kind = force if (force and lower) else None
    if lower and (kind == 'result_dep' or (kind is None and rng.random() < 0.25)):
        items.insert(rng.randrange(len(items) + 1), ('result_dep', rng.choice(lower)))
    if lower and (kind == 'getargs' or (kind is None and rng.random() < 0.4)):
        for _ in range(rng.choice([1, 1, 1, 2])):
            p = rng.choice(lower)
            keys = [k for k, _ in defs[p]['values']]
            getargs.append((p, rng.choice(keys) if (keys and rng.random() < 0.93) else rng.randrange(3)))
    values = [(k, rng.choice([0, 1, 5, None])) for k in sorted(rng.sample(range(3), rng.choice([0, 1, 1, 2])))]
    tg = [2] if (t == 0 and rng.random() < 0.15) else []
    return G(fd, tg, items, values, rng.choice([None, 0, 1, 2, 3, 0, 1, 2, 3]), getargs)


def gen_g(rng, ck, par, out):
    order = rng.sample(range(NT), NT)
    rank = rng.sample(range(NT), NT)              # rank[i] may take values only from rank[j], j < i: no cycles
    h = [('SetChecker', ck), ('Order', order)]
    content = {}
    for f in (0, 1):
        content[f] = rng.randrange(5)
        h.append(('Write', f, content[f]))
    defs = {}
    consumer = rank[-1] if rng.random() < 0.7 else rank[1]
    for i, t in enumerate(rank):
        force = rng.choice(['getargs', 'getargs', 'result_dep']) if t == consumer else None
        defs[t] = gen_gdef(rng, t, rank[:i], defs, force)
        if i == 0 and not defs[t]['values']:
            defs[t]['values'] = [(rng.randrange(3), rng.choice([0, 1, 5]))]
    for t in sorted(defs, key=lambda x: rng.random()):
        h.append(('GDef', t, defs[t]))
    if defs[0]['targets'] and rng.random() < 0.7:
        h.append(('Write', 2, 2))

    def a_run(fail_ok):
        r = rng.random()
        if r < 0.35:
            sel, plain = [], True
        elif r < 0.65:
            sel, plain = [consumer], False
        else:
            sel, plain = rng.sample(range(NT), rng.choice([1, 2, 2, 3])), False
        fails = [rng.randrange(NT)] if (fail_ok and rng.random() < 0.08) else []
        out.count('g-run:%s%s%s' % ('plain' if plain else 'consumer-only' if sel == [consumer] else 'subset', ':threads' if par else '', ':failing' if fails else ''))
        return ('Run', sel, plain, par, fails)

    def repeat(r):
        h.append(r)
        if not r[4] and rng.random() < 0.65:
            h.append(r)

    def redef(t, **kw):
        defs[t] = dict(defs[t], **kw)
        h.append(('GDef', t, defs[t]))

    repeat(a_run(True))
    for _ in range(rng.choice([1, 2, 2, 3])):
        for _ in range(rng.choice([1, 1, 2])):
            provs = sorted(set(p for t in defs for p in res_deps(defs[t]))) or [rank[0]]
            p = rng.choice(provs)
            r = rng.random()
            if r < 0.30:            # the provider's file dep and result change: it re-executes with another result
                kind = 'provider-file+result'
                for f in defs[p]['file_dep'][:1] or [rng.randrange(2)]:
                    content[f] = rng.choice([c for c in range(5) if c != content[f]])
                    h.append(('Write', f, content[f]))
                redef(p, result=rng.choice([x for x in range(4) if x != defs[p]['result']]))
            elif r < 0.40:
                kind = 'provider-result-only'
                redef(p, result=rng.choice([None, 0, 1, 2, 3]))
            elif r < 0.50:
                kind = 'provider-values'
                redef(p, values=[(k, rng.choice([0, 1, 5, None])) for k in sorted(rng.sample(range(3), rng.choice([1, 2])))])
            elif r < 0.62:
                kind = 'write'
                f = rng.randrange(2)
                content[f] = rng.choice([c for c in range(5) if c != content[f]])
                h.append(('Write', f, content[f]))
            elif r < 0.70:
                kind = 'touch-or-same-content'
                f = rng.randrange(2)
                h.append(('Touch', f) if rng.random() < 0.5 else ('Write', f, content[f]))
            elif r < 0.80:
                kind = 'redefine'
                t = rng.choice(rank)
                i = rank.index(t)
                defs[t] = gen_gdef(rng, t, rank[:i], defs, None)
                h.append(('GDef', t, defs[t]))
            elif r < 0.88:
                kind = 'forget'
                h.append(('Forget', rng.randrange(NT)))
            elif r < 0.91:
                kind = 'ignore'
                h.append(('Ignore', rng.randrange(NT)))
            elif r < 0.95:
                kind = 'order'
                order = rng.sample(range(NT), NT)
                h.append(('Order', order))
            else:
                kind = 'nothing'
            out.count('g-edit:' + kind)
        repeat(a_run(True))
    last = a_run(False)
    h += [last, last]
    return h


def g_key(h):
    return 'g:' + json.dumps(h, sort_keys=True, default=str)


def explore_g(ctx, out):
    rng = ctx.rng
    hs = [('scripted', h, False) for h in scripted_g()]
    n, npar = ctx.n(66, 600), ctx.n(18, 150)
    for i in range(n):
        hs.append(('random', gen_g(rng, ('md5', 'md5', 'ts')[i % 3], False, out), False))
    for i in range(npar):
        hs.append(('threads', gen_g(rng, ('md5', 'ts')[i % 2], True, out), True))
    cases = []
    for i, (kind, h, par) in enumerate(hs):
        for b in (('json', 'dbm', 'sqlite') if kind == 'scripted' else (('json', 'dbm', 'sqlite')[i % 3],)):
            try:
                obs = run_g(ctx, b, h, out)
            except Exception as e:  # noqa
                obs = [97, len(type(e).__name__)]
            out.count('g:' + kind + ':' + b)
            if not par:
                cases.append(dict(model=g_coq(h), expected=obs, desc=(kind, h, b)))
        out.nontrivial.add(g_key(h))
        for o in h:
            out.count('g-op:' + o[0])
    bad = common.compare_with_model(ctx, PRE_G, cases, tag='c04g')
    for i, m in bad:
        out.mismatches.append(dict(case=g_coq(cases[i]['desc'][1]), history=cases[i]['desc'][1], backend=cases[i]['desc'][2],
                                   impl=cases[i]['expected'], model=m))
    out.evaluations += len(cases) + npar
    out.traces_validated += len(cases)
    out.extra['getargs_histories_through_DoitMain'] = dict(scripted_x3_backends=len(scripted_g()), random_serial=n, random_threads_oracle_only=npar)
    if cases:
        out.samples.append(dict(getargs=g_coq(cases[0]['desc'][1]), observed=cases[0]['expected']))


def shrink_g(ctx, out):
    done = set()
    for v in out.c04_violations:
        case = v.get('case', {})
        if v['shape'] in done or not any(o[0] == 'GDef' for o in case.get('history', [])) or 'unshrunk_history' in case:
            continue
        done.add(v['shape'])
        try:
            small = c03.shrink(ctx, case['backend'], case['history'], v['shape'], True, run_g, 150)
        except Exception:
            continue
        case['unshrunk_history'] = case['history']
        case['run_in_unshrunk_history'] = case.pop('run', None)
        case['history'] = small
        case['history_coq'] = g_coq(small)


# ------------------------------------------------------------------ sub-family `group` of the family getargs
# A consumer that looks at the result of a GROUP task: `uptodate=[result_dep('G')]` and / or `getargs` from 'G' (one key of every
# sub-task, or the whole dict of every sub-task).  doc/uptodate.rst: "result_dep also supports group-tasks. In this case it will
# check that the result of all subtasks did not change. And also the existing sub-tasks are the same" -- the result of a group is
# the dict {sub-task: its saved result} over its SUB-TASKS; a task_dep of the group that is not one of its sub-tasks (a group-level
# `task_dep: ['X']`, an implicit one through a file_dep on a target of X or through a group-level result_dep('X')) is not part of it.
# Real dodo sources through DoitMain in-process, as run_g: creators task_X (plain task, own file_dep 0), task_G (a generator: the
# group-level dict with basename / name None yielded before or after the sub-tasks G:a, G:b, G:c -- or not at all) and task_C (the
# consumer), at source lines in the order of spec['order'].  Operations:
#     ('SetChecker', ck) ('Write', f, c) ('Touch', f)      files: 0 = file_dep of X, 1 / 2 = file deps of the sub-tasks, 3 = file_dep of C,
#                                                          4 = target of X and file_dep of the group-level dict (link 'target')
#     ('Grp', spec)      the dodo file: spec = dict(x = S(..), subs = [(name, S(..))..] in yield order, link = how G depends on X
#                        ('task_dep' | 'target' | 'result_dep' | 'none' = no group-level dict), group_first, order = creators,
#                        consumer = dict(file_dep, uptodate = items, among them ('result_dep', 'G') / ('result_dep', 'X'),
#                                        getargs = [(source, key | None)], result))
#     ('Run', [names], plain, par, [failing names])   ('Forget', name)
# No run-level Coq model of these histories (Getargs.v has single-task sources only); the item itself -- result_dep._result_group,
# __call__ and the value saver -- is modelled by coq/Model/GroupRes.v and compared on generated DBs (explore_gi below).  Oracles,
# on the reporter's event order, no use of the DB or of the real uptodate objects:
#   * shadow  : as GShadow, where what a task saw of a group source is the dict of the results its SUB-TASKS' records held; if every
#               condition of C04 holds at reporter.get_status(t) and the runner executes t: `c04-unchanged-rerun-getargs`;
#   * repeat  : as for run_g (`c04-repeat-run-reexecuted`); the providers behind a group source are its sub-tasks;
#   * changed : a task skipped as up-to-date although a result_dep item of it is false by that reading (a sub-task's record holds another
#               result than the one seen, the set of sub-tasks differs): `c04-group-result-changed-not-rebuilt`.
GRP_CODE = {'X': 0, 'G': 1, 'C': 2, 'G:a': 10, 'G:b': 11, 'G:c': 12}
GRP_LINKS = ('task_dep', 'target', 'result_dep', 'none')


def S(fd=(), result=None, values=(), utd=(), getargs=()):
    return dict(file_dep=list(fd), result=result, values=[tuple(x) for x in values], uptodate=[tuple(u) for u in utd],
                getargs=[tuple(x) for x in getargs])


def grp_spec(x, subs, consumer, link='task_dep', group_first=True, order=('X', 'G', 'C')):
    return dict(x=S(x['file_dep'], x['result'], x['values'], x['uptodate']),
                subs=[(n, S(d['file_dep'], d['result'], d['values'], d['uptodate'])) for n, d in subs],
                consumer=S(consumer['file_dep'], consumer['result'], consumer['values'], consumer['uptodate'], consumer['getargs']),
                link=link, group_first=bool(group_first), order=list(order))


def norm_grp(h):
    res = []
    for o in h:
        o = tuple(o)
        if o[0] == 'Grp':
            s = o[1]
            o = ('Grp', grp_spec(s['x'], s['subs'], s['consumer'], s['link'], s['group_first'], s['order']))
        res.append(o)
    return res


def grp_table(spec):
    """name -> definition of every task of the dodo file (uniform fields; the group has `subs`)"""
    link = spec['link']
    none = dict(file_dep=[], targets=[], uptodate=[], values=[], result=None, getargs=[], task_dep=[])
    tb = {'X': dict(none, **spec['x'], targets=[4] if link == 'target' else [])}
    subs = ['G:' + n for n, _ in spec['subs']]
    tb['G'] = dict(none, subs=subs, file_dep=[4] if link == 'target' else [], task_dep=['X'] if link == 'task_dep' else [],
                   uptodate=[('result_dep', 'X')] if link == 'result_dep' else [])
    for n, d in spec['subs']:
        tb['G:' + n] = dict(none, **d)
    tb['C'] = dict(none, **spec['consumer'])
    return tb


def grp_sources(d):
    """every task an (explicit or implicit) result_dep item of d looks at"""
    res = [u[1] for u in d['uptodate'] if u[0] == 'result_dep']
    for p, _ in d['getargs']:
        if p not in res:
            res.append(p)
    return res


def grp_providers(tb, d):
    """the tasks whose saved results the items of d compare: a group source stands for its sub-tasks"""
    res = []
    for p in grp_sources(d):
        res += tb[p]['subs'] if 'subs' in tb.get(p, {}) else [p]
    return res


class PShadow:
    """GShadow for the group histories: never looks at the DB or at the real uptodate objects"""
    def __init__(self):
        self.last_ok = {}
        self.cur_result = {}
        self.fresh = True

    def src_result(self, tb, src):
        d = tb.get(src)
        if d is not None and 'subs' in d:      # the result of a group = the dict of its SUB-TASKS' results (doc/uptodate.rst)
            return tuple(sorted((s, self.cur_result.get(s)) for s in d['subs']))
        return self.cur_result.get(src)

    def item(self, tb, u, sn):
        k = u[0]
        if k in ('bool', 'call', 'cmd'):
            return u[1]
        if k == 'none':
            return None
        if sn is None:
            return False
        if k == 'run_once':
            return ('run_once',) in sn['items']
        if k == 'config':
            saved = [x[1] for x in sn['items'] if x[0] == 'config']
            return bool(saved) and saved[-1] == u[1]
        if k == 'result_dep':
            then = sn['results'].get(u[1])
            return then is not None and then == self.src_result(tb, u[1])
        raise ValueError(u)

    def items(self, tb, t):
        d, sn = tb[t], self.last_ok.get(t)
        return [self.item(tb, u, sn) for u in d['uptodate']] + [self.item(tb, ('result_dep', p), sn) for p in dict.fromkeys(p for p, _ in d['getargs'])]

    def result_changed(self, tb, t):
        """a result_dep item (explicit, or the implicit one of getargs) of t is false right now"""
        d, sn = tb[t], self.last_ok.get(t)
        return any(self.item(tb, ('result_dep', p), sn) is False for p in grp_sources(d))

    def complete(self, w, tb, t):
        d, sn = tb[t], self.last_ok.get(t)
        items = self.items(tb, t)
        fd = set(d['file_dep'])
        if not all(x is not False for x in items):
            return False
        if not (fd or any(x is not None for x in items)):
            return False
        if not all(f in w.fsview for f in d['targets']):
            return False
        if sn is None:
            return not fd
        return (sn['ck'] == w.ck and set(sn['file_dep']) == fd and
                all(f in w.fsview and c03.Shadow.unmodified(w.ck, sn['view'][f], w.fsview[f]) for f in fd))

    def success(self, w, tb, t):
        d = tb[t]
        self.last_ok[t] = dict(ck=w.ck, file_dep=list(d['file_dep']), view={f: w.fsview[f] for f in d['file_dep']},
                               items=list(d['uptodate']), results={p: self.src_result(tb, p) for p in grp_sources(d)})
        if d['result'] is not None:
            self.cur_result[t] = d['result']

    def gone(self, t):
        self.last_ok.pop(t, None)
        self.cur_result.pop(t, None)


def never_uptodate_p(w, tb, sh, t):
    d = tb[t]
    items = list(d['uptodate'])
    if not d['file_dep'] and all(u[0] == 'none' or u == ('call', None) for u in items) and not d['getargs']:
        return True
    if any(u in NEVER_ITEMS for u in items):
        return True
    if any('subs' not in tb.get(p, {}) and sh.cur_result.get(p) is None for p in grp_sources(d)):   # a single source without result
        return True
    return any(f not in w.fsview for f in d['targets'])


def run_grp(ctx, backend, h, out):
    """executes a group history through DoitMain; returns the ints observed (per run: code of the task as in GRP_CODE, decision
    as in run_g, then -8); findings of the three oracles are appended to out.c04_violations"""
    from doit.doit_cmd import DoitMain
    from doit.cmd_base import ModuleTaskLoader
    from doit import task as T
    w = c03.World(ctx, backend, 'p')
    w.dep.close()
    sh = PShadow()
    st = dict(spec=None, tb={}, fails=(), got={})
    obs = []
    prev = None

    def mk(name):
        d = st['tb'][name]
        acts = []
        if d['values']:
            vals = {('u%d' % k): x for k, x in d['values']}
            acts.append((lambda vals=vals: dict(vals),))

        def final(**kw):
            st['got'][name] = kw
            if name in st['fails']:
                return False
            return True if d['result'] is None else 'res%d' % d['result']
        acts.append((final,))
        res = {'actions': acts, 'file_dep': [w.path(f) for f in sorted(d['file_dep'])], 'targets': [w.path(f) for f in d['targets']],
               'uptodate': [T.result_dep(u[1]) if u[0] == 'result_dep' else w.make_utd(tuple(u)) for u in d['uptodate']]}
        if d['getargs']:
            res['getargs'] = {'a%d' % i: (p, None if k is None else 'u%d' % k) for i, (p, k) in enumerate(d['getargs'])}
        return res

    def group():
        spec, d = st['spec'], st['tb']['G']
        head = {'basename': 'G', 'name': None, 'file_dep': [w.path(f) for f in d['file_dep']], 'task_dep': list(d['task_dep']),
                'uptodate': [T.result_dep(u[1]) for u in d['uptodate']]}
        if spec['link'] != 'none' and spec['group_first']:
            yield head
        for full in d['subs']:
            sub = mk(full)
            sub['name'] = full[2:]
            yield sub
        if spec['link'] != 'none' and not spec['group_first']:
            yield head

    def namespace():
        cfg = {'dep_file': w.dbpath, 'backend': {'json': 'json', 'dbm': 'dbm', 'sqlite': 'sqlite3'}[backend],
               'check_file_uptodate': 'md5' if w.ck == 'md5' else 'timestamp',
               'reporter': GReporter, 'verbosity': 0, 'continue': True}
        order = st['spec']['order']
        src = ''.join('def task_G():\n    yield from _group()\n' if n == 'G' else 'def task_%s():\n    return _mk(%r)\n' % (n, n) for n in order)
        path = os.path.join(ctx.subdir('pdodo'), 'dodo_%s.py' % ''.join(order))
        if not os.path.exists(path):
            with open(path, 'w') as fh:
                fh.write(src)
        ns = {'_mk': mk, '_group': group}
        exec(compile(src, path, 'exec'), ns)
        ns['DOIT_CONFIG'] = cfg
        return {k: v for k, v in ns.items() if k.startswith('task_') or k == 'DOIT_CONFIG'}

    def doit(args):
        GReporter.log = []
        buf = io.StringIO()
        with contextlib.redirect_stdout(buf), contextlib.redirect_stderr(buf):
            try:
                rc = DoitMain(ModuleTaskLoader(namespace())).run(args)
            except SystemExit:
                rc = 90
        return rc, list(GReporter.log), buf.getvalue()

    def viol(what, shape, t, idx):
        out.c04_violations.append(dict(what=what, shape=shape, case=dict(history=h, backend=backend, task=t, run=idx, family='group')))

    try:
        for idx, o in enumerate(h):
            k = o[0]
            this = None
            if k in ('Write', 'Touch'):
                w.apply(o)
                if w.not_fresh:
                    sh.fresh = False
            elif k == 'SetChecker':
                w.ck = o[1]
            elif k == 'Grp':
                st['spec'], st['tb'] = o[1], grp_table(o[1])
            elif k == 'Forget':
                if st['spec'] is not None and o[1] in st['tb']:
                    doit(['forget', o[1]])
                    for n in (st['tb'][o[1]].get('subs', []) + [o[1]]):       # forget of a group forgets its sub-tasks too
                        sh.gone(n)
            elif k == 'Run':
                tb = st['tb']
                if st['spec'] is None:
                    continue
                sel, plain, par, fails = [n for n in o[1] if n in tb], o[2], o[3], tuple(o[4])
                st['fails'] = fails
                args = ['run', '--continue'] + (['-n', '2', '-P', 'thread'] if par else []) + ([] if plain else sel)
                rc, log, txt = doit(args)
                if rc not in (0, 1, 2):
                    obs += [97, rc, -8]
                    prev = None
                    continue
                executed, verdict, changed, had, pairs, pos_ok, pos_status, pos = set(), {}, {}, {}, [], {}, {}, 0
                for ev, t in log:
                    pos += 1
                    if t is None or t not in tb:
                        continue
                    if ev == 'status':
                        verdict.setdefault(t, sh.fresh and sh.complete(w, tb, t))
                        changed.setdefault(t, sh.fresh and sh.result_changed(tb, t))
                        had.setdefault(t, t in sh.last_ok)
                        pos_status.setdefault(t, pos)
                    elif ev == 'execute':
                        executed.add(t)
                        if verdict.get(t):
                            viol('runner executed a task although nothing changed since its last successful execution (file deps, targets, uptodate '
                                 'items and the results of the tasks it takes values from -- for a group: of its sub-tasks -- are as they were)',
                                 'c04-unchanged-rerun-getargs', t, idx)
                    elif ev == 'success':
                        pairs.append((t, 0 if t in executed else 96))
                        pos_ok[t] = pos
                        sh.success(w, tb, t)
                    elif ev == 'failure':
                        pairs.append((t, 1 if t in executed else 4))
                        sh.gone(t)
                    elif ev == 'uptodate':
                        pairs.append((t, 2))
                        if changed.get(t):
                            viol('a task was skipped as up-to-date although the result it saw of a task it takes values from (for a group: the results of '
                                 'its sub-tasks / the set of sub-tasks) is not the one recorded now', 'c04-group-result-changed-not-rebuilt', t, idx)
                    elif ev == 'ignore':
                        pairs.append((t, 3))
                if par:
                    pairs.sort(key=lambda tc: GRP_CODE[tc[0]])
                for t, c in pairs:
                    obs += [GRP_CODE[t], c]
                    out.count('grp-decision:%d' % c)
                obs.append(-8)
                code = dict(pairs)
                if code.get('X') == 0 and code.get('C') == 2 and 'G' in grp_sources(tb['C']) and not any(code.get(s) == 0 for s in tb['G']['subs']):
                    out.count('grp:non-sub-task-dep-reexecuted,consumer-skipped')
                if code.get('C') == 0 and 'G' in grp_sources(tb['C']) and changed.get('C') and had.get('C'):
                    out.count('grp:sub-task-result-changed,consumer-rebuilt')
                if (prev is not None and prev[0] == idx - 1 and tuple(prev[1][1:]) == tuple(o[1:]) and not fails
                        and prev[2] == 0 and all(c in (0, 2) for _, c in prev[3]) and sh.fresh):
                    out.count('grp-repeat-judged')
                    for t in sorted(executed):
                        if never_uptodate_p(w, tb, sh, t):
                            out.count('grp-repeat-exec:never-up-to-date')
                            continue
                        if t not in dict(prev[3]):       # brought in as a setup-task of a lazily rebuilt consumer: judged by the shadow only
                            out.count('grp-repeat-exec:not-reached-by-the-first-run')
                            continue
                        mine = prev[4].get(t, 0)
                        provs = grp_providers(tb, tb[t])
                        if any(prev[4].get(p, 0) > mine for p in provs):
                            out.count('grp-repeat-exec:provider-ran-after-consumer')
                            continue
                        if any(pos_ok.get(p, pos + 1) < pos_status.get(t, 0) for p in provs):
                            out.count('grp-repeat-exec:provider-ran-again-before-consumer')
                            continue
                        viol('a run repeated immediately after a fully successful one executed a task that has a file_dep / uptodate item and can be '
                             'up-to-date', 'c04-repeat-run-reexecuted', t, idx)
                    if not (executed - {'G'}):
                        out.count('grp-repeat:no-op-but-the-group-task')
                this = (idx, o, rc, pairs, pos_ok)
            else:
                raise ValueError(o)
            prev = this
    finally:
        w.finish()
    return obs


def scripted_grp():
    hs = []
    X1, X2 = S([0], 1, [(0, 5)]), S([0], 2, [(0, 1)])
    A, B = S([1], 1, [(0, 1)]), S([2], 2, [(0, 5)])
    A2 = S([1], 3, [(0, 0)])
    allr = ('Run', [], True, False, [])

    def sel(*ts):
        return ('Run', list(ts), False, False, [])
    consumers = [S([3], utd=[('result_dep', 'G')]), S([], utd=[('result_dep', 'G')]), S([3], getargs=[('G', 0)]), S([3], getargs=[('G', None)]),
                 S([], utd=[('result_dep', 'G'), ('run_once',)], getargs=[('G', 0)])]
    i = 0
    for link in GRP_LINKS:
        for cons in consumers:
            ck = ('md5', 'ts')[i % 2]
            order = (['X', 'G', 'C'], ['G', 'X', 'C'], ['C', 'X', 'G'])[i % 3]
            i += 1
            P = [('SetChecker', ck)] + [('Write', f, f) for f in range(5)]

            def sp(x, a, subs=None):
                return ('Grp', grp_spec(x, subs or [('a', a), ('b', B)], cons, link, i % 2 == 0, order))
            # run, again (nothing but the group task executes); the file of X is edited and X produces another result: only X re-executes
            # (the demo of seeded/C04e); again; a sub-task re-executes with another result: the consumer is rebuilt; again; the set of
            # sub-tasks changes (results as they were): rebuilt; again
            for runs in (allr, (sel('X', 'C'), sel('C'))[i % 2]):
                tail = [sp(X2, A2, [('a', A2), ('b', B), ('c', S([], 0, [(0, 0)]))]), runs, runs, sp(X2, A2, [('b', B)]), runs, runs] if runs == allr else []
                hs.append(P + [sp(X1, A), runs, runs, ('Write', 0, 3), sp(X2, A), runs, runs, ('Write', 1, 4), sp(X2, A2), runs, runs] + tail)
    # the consumer looks at X too (an item of its own): then it IS rebuilt with X
    P = [('SetChecker', 'md5')] + [('Write', f, f) for f in range(5)]
    cons = S([3], utd=[('result_dep', 'G'), ('result_dep', 'X')])
    hs.append(P + [('Grp', grp_spec(X1, [('a', A), ('b', B)], cons)), allr, allr, ('Write', 0, 3), ('Grp', grp_spec(X2, [('a', A), ('b', B)], cons)), allr, allr])
    # forget of a sub-task / of the group / of X; a failing sub-task
    cons = S([3], utd=[('result_dep', 'G')], getargs=[('G', 0)])
    g = ('Grp', grp_spec(X1, [('a', A), ('b', B)], cons))
    hs.append(P + [g, allr, allr, ('Forget', 'X'), allr, allr, ('Forget', 'G:a'), allr, allr, ('Forget', 'G'), allr, allr, ('Forget', 'C'), allr, allr,
                   ('Write', 1, 4), ('Run', [], True, False, ['G:a']), allr, allr])
    return hs


def gen_grp(rng, ck, par, out):
    def a_sub(i):
        return S(rng.choice([[1], [2], [1], [2], []]), rng.choice([None, 0, 1, 2, 3, 1, 2, 3]), [(0, rng.choice([0, 1, 5]))] + ([(1, rng.choice([0, 1, None]))] if rng.random() < 0.3 else []),
                 [rng.choice(ITEM_W)] if rng.random() < 0.15 else [])
    sp = dict(x=S([0] if rng.random() < 0.9 else [], rng.choice([0, 1, 2, 3]), [(0, rng.choice([0, 1, 5]))]),
              subs=[(n, a_sub(i)) for i, n in enumerate(SUB_NAMES[:rng.choice([1, 2, 2, 2, 3])])],
              link=rng.choice(['task_dep'] * 4 + ['target', 'target', 'result_dep', 'result_dep', 'none']), group_first=rng.random() < 0.6,
              order=rng.sample(['X', 'G', 'C'], 3))
    kind = rng.choice(['result_dep', 'result_dep', 'getargs', 'getargs', 'getargs-all', 'both'])
    utd = [rng.choice(ITEM_W)] if rng.random() < 0.25 else []
    if kind in ('result_dep', 'both'):
        utd.insert(rng.randrange(len(utd) + 1), ('result_dep', 'G'))
    if rng.random() < 0.1:
        utd.append(('result_dep', 'X'))
    ga = [('G', 0 if rng.random() < 0.92 else 1)] if kind in ('getargs', 'both') else [('G', None)] if kind == 'getargs-all' else []
    if ga and rng.random() < 0.1:
        ga.append(('X', 0))
    sp['consumer'] = S([3] if rng.random() < 0.6 else [], rng.choice([None, 0, 1]), [], utd, ga)
    content = {f: f for f in range(5)}
    h = [('SetChecker', ck)] + [('Write', f, f) for f in range(5)]

    def put():
        h.append(('Grp', grp_spec(sp['x'], sp['subs'], sp['consumer'], sp['link'], sp['group_first'], sp['order'])))

    def write(f):
        content[f] = rng.choice([c for c in range(5) if c != content[f]])
        h.append(('Write', f, content[f]))

    def a_run(fail_ok):
        r = rng.random()
        if r < 0.4:
            sel, plain = [], True
        elif r < 0.55:
            sel, plain = ['C'], False
        elif r < 0.75:
            sel, plain = ['X', 'C'], False
        else:
            sel, plain = rng.sample(['X', 'G', 'C', 'G:a', 'G:b'], rng.choice([1, 2, 2, 3])), False
        fails = [rng.choice(['X', 'G:a', 'G:b', 'C'])] if (fail_ok and rng.random() < 0.06) else []
        out.count('grp-run:%s%s%s' % ('plain' if plain else 'consumer-only' if sel == ['C'] else 'X-then-consumer' if sel == ['X', 'C'] else 'subset',
                                      ':threads' if par else '', ':failing' if fails else ''))
        return ('Run', sel, plain, par, fails)

    def repeat(r):
        h.append(r)
        if not r[4] and rng.random() < 0.7:
            h.append(r)

    put()
    repeat(a_run(True))
    for _ in range(rng.choice([2, 2, 3, 4])):
        r = rng.random()
        if r < 0.34:            # the non-sub-task dependency of the group re-executes with another result
            kind = 'x-file+result'
            for f in sp['x']['file_dep']:
                write(f)
            sp['x'] = dict(sp['x'], result=rng.choice([x for x in range(4) if x != sp['x']['result']]), values=[(0, rng.choice([0, 1, 5]))])
            put()
        elif r < 0.40:
            kind = 'x-result-only'
            sp['x'] = dict(sp['x'], result=rng.choice([None, 0, 1, 2, 3]))
            put()
        elif r < 0.58:          # a sub-task re-executes with another result
            kind = 'sub-file+result'
            j = rng.randrange(len(sp['subs']))
            n, d = sp['subs'][j]
            for f in d['file_dep']:
                write(f)
            sp['subs'] = sp['subs'][:j] + [(n, dict(d, result=rng.choice([x for x in range(4) if x != d['result']])))] + sp['subs'][j + 1:]
            put()
        elif r < 0.64:
            kind = 'sub-task-set'
            names = [n for n, _ in sp['subs']]
            if len(names) > 1 and rng.random() < 0.5:
                sp['subs'] = sp['subs'][:-1]
            elif len(names) < 3:
                sp['subs'] = sp['subs'] + [(SUB_NAMES[len(names)], a_sub(0))]
            put()
        elif r < 0.72:
            kind = 'write'
            write(rng.randrange(4))
        elif r < 0.78:
            kind = 'touch-or-same-content'
            f = rng.randrange(4)
            h.append(('Touch', f) if rng.random() < 0.5 else ('Write', f, content[f]))
        elif r < 0.86:
            kind = 'forget'
            h.append(('Forget', rng.choice(['X', 'X', 'G', 'G:a', 'C'])))
        elif r < 0.92:
            kind = 'order-or-link'
            sp['order'] = rng.sample(['X', 'G', 'C'], 3)
            if rng.random() < 0.4:
                sp['link'] = rng.choice(GRP_LINKS)
            put()
        else:
            kind = 'nothing'
        out.count('grp-edit:' + kind)
        repeat(a_run(True))
    last = a_run(False)
    h += [last, last]
    return h


SUB_NAMES = ('a', 'b', 'c')


def explore_grp(ctx, out):
    rng = ctx.rng
    hs = [('scripted', h, False) for h in scripted_grp()]
    n, npar = ctx.n(30, 400), ctx.n(6, 80)
    for i in range(n):
        hs.append(('random', gen_grp(rng, ('md5', 'md5', 'ts')[i % 3], False, out), False))
    for i in range(npar):
        hs.append(('threads', gen_grp(rng, ('md5', 'ts')[i % 2], True, out), True))
    for i, (kind, h, par) in enumerate(hs):
        b = ('json', 'dbm', 'sqlite')[i % 3]
        try:
            obs = run_grp(ctx, b, h, out)
        except Exception as e:  # noqa
            obs = [97, len(type(e).__name__)]
            out.c04_violations.append(dict(what='a group history could not be executed: %s' % type(e).__name__, shape='c04-group-history-crash',
                                           case=dict(history=h, backend=b, family='group')))
        out.count('grp:' + kind + ':' + b)
        out.nontrivial.add('grp:' + json.dumps(h, sort_keys=True, default=str))
        for o in h:
            out.count('grp-op:' + o[0])
        if i == 0:
            out.samples.append(dict(group_history=h, backend=b, observed=obs))
    out.evaluations += len(hs)
    out.extra['group_histories_through_DoitMain'] = dict(scripted=len(scripted_grp()), random_serial=n, random_threads=npar,
                                                         judged_by='implementation-side oracles only (shadow, repeat, changed)')


def shrink_grp(ctx, out):
    done = set()
    for v in out.c04_violations:
        case = v.get('case', {})
        if v['shape'] in done or case.get('family') != 'group' or 'unshrunk_history' in case or 'run' not in case:
            continue
        done.add(v['shape'])
        try:
            small = c03.shrink(ctx, case['backend'], case['history'], v['shape'], True, run_grp, 120)
        except Exception:
            continue
        case['unshrunk_history'] = case['history']
        case['run_in_unshrunk_history'] = case.pop('run', None)
        case['history'] = small


# ------------------------------------------------------------------ the group item itself against Model/GroupRes.v
# Real result_dep objects (doit/task.py) set up on a real Dependency (json | dbm | sqlite3) and a tasks dict whose source task has a
# generated task_dep list over the names GI_NAMES (sub-tasks, other tasks, names that only look like sub-tasks: 'Ga', 'G2:a', 'H:G:a'),
# has_subtask or not.  Two moments: DB0 / task_dep0 -- the item is called and its value saver gives what a successful consumer would
# save (through the JSON codec, as every backend does); DB1 / task_dep1 after one edit (a result of a sub-task / of another task changes,
# a name joins or leaves the task_dep, the order changes, nothing) -- the item is called with that saved value.  Compared with
# `gi_observe` of GroupRes.v: [verdict] ++ what the saver returns at the second moment (0; result | 1; length; name; result .. in the
# iteration order of the dict; result -1 = None).  `startswith(name + ':')` over the name table is handed to the model as the oracle is_sub.
GI_NAMES = ['G', 'G:a', 'G:b', 'G:c', 'X', 'Y', 'G2:a', 'Ga', 'G:', 'GG:a', 'H', 'H:a', 'H:G:a']
PRE_GI = 'From DoitV Require Import Base Status GroupRes.\nOpen Scope Z_scope.\n'


def gi_res_coq(r):
    return 'None' if r is None else 'Some %d%%N' % r


def gi_last_coq(last):
    if last is None:
        return 'None'
    if isinstance(last, dict):
        return 'Some (RGroup [%s])' % '; '.join('(%d%%N, %s)' % (GI_NAMES.index(k), gi_res_coq(None if x is None else int(x[1:]))) for k, x in last.items())
    return 'Some (RSingle (Some %d%%N))' % int(last[1:])


def gi_coq(c):
    subs = [(i, j) for i, g in enumerate(GI_NAMES) for j, s in enumerate(GI_NAMES) if s.startswith(g + ':')]
    return 'gi_observe [%s] [%s] (%s) %s %d%%N [%s]%%N' % (
        '; '.join('(%d%%N, %d%%N)' % p for p in subs),
        '; '.join('(%d%%N, %s)' % (GI_NAMES.index(n), gi_res_coq(r)) for n, r in c['db1']),
        gi_last_coq(c['last']), 'true' if c['has_subtask'] else 'false', GI_NAMES.index(c['src']), '; '.join(str(GI_NAMES.index(n)) for n in c['tdeps1']))


def gi_enc(x):
    def r(v):
        return -1 if v is None else int(v[1:])
    if isinstance(x, dict):
        res = [1, len(x)]
        for k, v in x.items():
            res += [GI_NAMES.index(k), r(v)]
        return res
    return [0, r(x)]


def gi_real(ctx, backend, c, n):
    """the real item at the two moments; fills c['last'] (unless the case fixes it); returns the observation"""
    from doit import dependency as D
    from doit.task import Task, result_dep
    path = os.path.join(ctx.subdir('gi'), 'db%d.%s' % (n % 7, backend))
    for p in [path] + [path + ext for ext in ('.db', '.dat', '.dir', '.bak')]:
        if os.path.exists(p):
            os.remove(p)
    dep = D.Dependency({'json': D.JsonDB, 'dbm': D.DbmDB, 'sqlite': D.SqliteDB}[backend], path)
    try:
        def look(db, tdeps, values):
            for name in GI_NAMES:
                dep.remove(name)
            for name, r in db:
                dep._set(name, 'deps:', [])
                if r is not None:
                    dep._set(name, 'result:', 'r%d' % r)
            tasks = {c['src']: Task(c['src'], None, task_dep=list(tdeps), has_subtask=c['has_subtask']), 'C': Task('C', None)}
            item = result_dep(c['src'])
            item.setup(dep, tasks)
            verdict = item(tasks['C'], values)
            saved = {}
            for saver in tasks['C'].value_savers:
                saved.update(saver())
            return bool(verdict), saved['_result:' + c['src']]
        if c['last'] == 'saved':
            _, val = look(c['db0'], c['tdeps0'], {})
            c['last'] = json.loads(json.dumps(val))
        values = {} if c['last'] is None else {'_result:' + c['src']: c['last']}
        verdict, val = look(c['db1'], c['tdeps1'], values)
        return [1 if verdict else 0] + gi_enc(val)
    finally:
        dep.close()


def gen_gi(rng, out):
    src = rng.choice(['G'] * 7 + ['H', 'H', 'X'])
    others = [n for n in GI_NAMES if n != src]
    tdeps = rng.sample(others, rng.randrange(0, 7))
    if tdeps and rng.random() < 0.1:
        tdeps.append(rng.choice(tdeps))
    db = [(n, rng.choice([None, 0, 1, 2, 3, 4, 5])) for n in GI_NAMES if rng.random() < 0.75]
    c = dict(src=src, has_subtask=rng.random() < 0.88, tdeps0=list(tdeps), db0=list(db), last='saved')
    subs = [n for n in tdeps if n.startswith(src + ':')]
    nons = [n for n in tdeps if not n.startswith(src + ':')]
    r = rng.random()

    def other_result(n):
        cur = dict(db).get(n, 'absent')
        new = rng.choice([x for x in [None, 0, 1, 2, 3, 4, 5, 'absent'] if x != cur])
        res = [(m, x) for m, x in db if m != n]
        return res if new == 'absent' else res + [(n, new)]
    if r < 0.3 and nons:
        kind = 'result-of-a-non-sub-task-dep'
        db = other_result(rng.choice(nons))
    elif r < 0.5 and subs:
        kind = 'result-of-a-sub-task'
        db = other_result(rng.choice(subs))
    elif r < 0.6:
        kind = 'result-of-any-task'
        db = other_result(rng.choice(GI_NAMES))
    elif r < 0.7 and tdeps:
        kind = 'a-task_dep-leaves'
        tdeps = [n for n in tdeps if n != rng.choice(tdeps)]
    elif r < 0.8:
        kind = 'a-task_dep-joins'
        tdeps = tdeps + [rng.choice(others)]
    elif r < 0.88:
        kind = 'order'
        tdeps = rng.sample(tdeps, len(tdeps))
    else:
        kind = 'nothing'
    r = rng.random()
    if r < 0.08:
        c['last'] = None
    elif r < 0.12:
        c['last'] = 'r%d' % rng.randrange(6)
    elif r < 0.16:
        c['last'] = {n: rng.choice([None, 'r1', 'r2']) for n in rng.sample(GI_NAMES, rng.randrange(0, 4))}
    out.count('gi-edit:' + kind)
    c['tdeps1'], c['db1'] = tdeps, db
    return c


def explore_gi(ctx, out):
    rng = ctx.rng
    cases = []
    n = ctx.n(300, 2400)
    for i in range(n):
        c = gen_gi(rng, out)
        b = ('json', 'dbm', 'sqlite')[i % 3]
        try:
            obs = gi_real(ctx, b, c, i)
        except Exception as e:  # noqa
            obs = [97, len(type(e).__name__)]
            if not isinstance(c['last'], (dict, str, type(None))) or c['last'] == 'saved':
                c['last'] = None
        out.count('gi-verdict:%s:%s' % ('group' if c['has_subtask'] else 'single', obs[0]))
        cases.append(dict(model=gi_coq(c), expected=obs, desc=c, backend=b))
        out.nontrivial.add('gi:' + json.dumps(c, sort_keys=True))
    bad = common.compare_with_model(ctx, PRE_GI, cases, tag='c04gi')
    for i, m in bad:
        out.mismatches.append(dict(case=cases[i]['model'], input=cases[i]['desc'], backend=cases[i]['backend'], impl=cases[i]['expected'], model=m))
    out.evaluations += len(cases)
    out.extra['group_item_cases_against_GroupRes'] = n
    if cases:
        out.samples.append(dict(group_item=cases[0]['model'], observed=cases[0]['expected']))


# ================================================================== family `calcdep` (model: coq/Model/CalcDep.v)
# Dependencies a task gets from the VALUES of other tasks (`calc_dep`), read when the task is dispatched.  Run-level
# histories over 3 tasks through DoitMain in-process, exactly like the family `getargs`, with the operation
#     ('CDef', t, d)   d = file_dep, targets, uptodate (bool / None / callable / command / run_once / config_changed), values, result,
#                          task_dep = [t..], calc_dep = [t..] and ret = what the task's first action returns for the tasks that
#                          name it in calc_dep: dict(file_dep=[f..] | None, task_dep=[t..] | None, uptodate=0 [False] | 1 [True] | 2 [None] | None)
# instead of GDef.  Encoding compared with `cobserve (crun ..)` of CalcDep.v (serial runs only): as for getargs, then -6 and, per
# task, the three calc keys of its saved values ('file_dep' as a bitmask of file numbers, 'task_dep' as a bitmask of task numbers,
# 'uptodate' as its code; -2 absent).
# Independent oracles (no model, no DB), on the reporter's event order; the shadow keeps, per task, what its last successful
# execution returned for its consumers (cur_ret) and saw (checker, EFFECTIVE file_dep = declared + what its providers handed
# over then, their states, the effective uptodate items):
#   * shadow      : at reporter.get_status(t) the effective definition is declared + cur_ret of every calc_dep provider; if every
#                   condition of C04 holds on it and the runner executes t: `c04-unchanged-rerun-calcdep`;
#   * repeat      : a run repeated immediately after a fully successful one must not execute a task whose effective definition has a
#                   file_dep / an evaluated item (no item false by definition, no missing target): `c04-repeat-run-reexecuted-calcdep`;
#   * edit        : a task skipped as up-to-date although an effective file_dep (declared or calculated) is modified by the checker's rule
#                   w.r.t. what its last successful execution saw, or the effective set differs, or another checker is configured:
#                   `c04-calcdep-edit-not-rebuilt`.
def C(fd=(), tg=(), utd=(), values=(), result=None, task_dep=(), calc_dep=(), ret=None):
    r = None
    if ret is not None:
        r = dict(file_dep=None if ret.get('file_dep') is None else list(ret['file_dep']),
                 task_dep=None if ret.get('task_dep') is None else list(ret['task_dep']), uptodate=ret.get('uptodate'))
    return dict(file_dep=list(fd), targets=list(tg), uptodate=[tuple(u) for u in utd], values=[tuple(x) for x in values],
                result=result, task_dep=list(task_dep), calc_dep=list(calc_dep), ret=r)


EMPTY_C = C()
PRE_C = ('From DoitV Require Import Base Status History CalcDep.\nOpen Scope Z_scope.\n'
         'Definition md5o (c : N) : N := c.\n'
         'Definition sizeo (c : N) : Z := match c with 0%N => 4 | 1%N => 4 | 2%N => 2 | 3%N => 4 | 4%N => 0 | _ => 7 end.\n'
         'Definition cobsv (l : list cop) : list Z := cobserve [0;1;2]%N [0;1;2]%N (crun md5o sizeo current l).\n')
RET_UTD = {0: [False], 1: [True], 2: [None]}
RET_ITEM = {0: ('bool', False), 1: ('bool', True), 2: ('none',)}


def norm_c(h):
    res = []
    for o in h:
        o = tuple(o)
        if o[0] == 'CDef':
            d = o[2]
            o = ('CDef', o[1], C(d['file_dep'], d['targets'], d['uptodate'], d['values'], d['result'], d['task_dep'], d['calc_dep'], d['ret']))
        res.append(o)
    return res


def calc_order(d):
    """calc_dep in the iteration order of the real set task.calc_dep (the order in which the values are merged)"""
    if len(set(d['calc_dep'])) < 2:
        return list(dict.fromkeys(d['calc_dep']))
    from doit.task import Task
    return [int(n[1:]) for n in Task('x', None, calc_dep=['T%d' % p for p in d['calc_dep']]).calc_dep]


def cdef_coq(d):
    vals = list(d['values'])
    r = d['ret']
    if r is not None:       # the three keys are user keys 49 / 50 / 51 of the model
        if r['file_dep'] is not None:
            vals.append((49, c03.mask(r['file_dep'])))
        if r['task_dep'] is not None:
            vals.append((50, c03.mask(r['task_dep'])))
        if r['uptodate'] is not None:
            vals.append((51, r['uptodate']))
    return '{| cd_def := %s; cd_task_dep := [%s]; cd_calc := [%s] |}' % (
        c03.def_coq(dict(d, values=vals)), '; '.join(map(str, d['task_dep'])), '; '.join(map(str, calc_order(d))))


def c_coq(h):
    order = list(range(NT))
    out = []
    for o in h:
        k = o[0]
        if k == 'Order':
            order = list(o[1])
        elif k == 'CDef':
            out.append('CSetDef %d %s' % (o[1], cdef_coq(o[2])))
        elif k == 'Run':
            out.append('CRun [%s] [%s]' % ('; '.join(map(str, sel_of(o, order))), '; '.join(map(str, o[4]))))
        elif k == 'Forget':
            out.append('CP (Remove %d)' % o[1])
        else:
            out.append('CP (%s)' % c03.op_coq(o))
    return 'cobsv ([%s]%%N)' % '; '.join(out)


class CShadow:
    """per task: what its last successful execution returned for its consumers and what it saw; never looks at the DB"""
    def __init__(self):
        self.last_ok = {}
        self.cur_ret = {}           # what the record of a task holds under the three calc keys (absent: no record)
        self.fresh = True

    def effective(self, defs, t):
        """(file_dep, items) of t once the values of its calc_dep providers are merged"""
        d = defs[t]
        fd, items = set(d['file_dep']), list(d['uptodate'])
        for p in dict.fromkeys(d['calc_dep']):
            r = self.cur_ret.get(p)
            if r:
                fd |= set(r['file_dep'] or ())
                if r['uptodate'] is not None:
                    items.append(RET_ITEM[r['uptodate']])
        return fd, items

    def item(self, u, sn):
        k = u[0]
        if k in ('bool', 'call', 'cmd'):
            return u[1]
        if k == 'none':
            return None
        if sn is None:
            return False
        if k == 'run_once':
            return ('run_once',) in sn['items']
        if k == 'config':
            saved = [x[1] for x in sn['items'] if x[0] == 'config']
            return bool(saved) and saved[-1] == u[1]
        raise ValueError(u)

    def complete(self, w, defs, t):
        """the hypotheses of C04 hold for t right now"""
        sn = self.last_ok.get(t)
        fd, its = self.effective(defs, t)
        items = [self.item(u, sn) for u in its]
        if not all(x is not False for x in items):
            return False
        if not (fd or any(x is not None for x in items)):
            return False
        if not all(f in w.fsview for f in defs[t]['targets']):
            return False
        if sn is None:
            return not fd
        return (sn['ck'] == w.ck and set(sn['file_dep']) == fd and
                all(f in w.fsview and c03.Shadow.unmodified(w.ck, sn['view'][f], w.fsview[f]) for f in fd))

    def must_run(self, w, defs, t):
        """a documented not-up-to-date condition about the FILES holds for t right now"""
        sn = self.last_ok.get(t)
        fd, _ = self.effective(defs, t)
        if sn is None:
            return bool(fd)
        if sn['ck'] != w.ck or set(sn['file_dep']) != fd:
            return True
        return any(f not in w.fsview or not c03.Shadow.unmodified(w.ck, sn['view'][f], w.fsview[f]) for f in fd)

    def success(self, w, defs, t):
        fd, its = self.effective(defs, t)
        self.last_ok[t] = dict(ck=w.ck, file_dep=sorted(fd), view={f: w.fsview[f] for f in fd if f in w.fsview}, items=its)
        self.cur_ret[t] = defs[t]['ret']

    def gone(self, t):
        self.last_ok.pop(t, None)
        self.cur_ret.pop(t, None)


def never_uptodate_c(w, defs, sh, t):
    fd, items = sh.effective(defs, t)
    if not fd and all(u[0] == 'none' or u == ('call', None) for u in items):
        return True
    if any(u in NEVER_ITEMS for u in items):
        return True
    return any(f not in w.fsview for f in defs[t]['targets'])


def run_c(ctx, backend, h, out):
    """executes a run-level history of the family `calcdep` through DoitMain; returns the ints observed;
    findings of the three oracles are appended to out.c04_violations"""
    from doit.doit_cmd import DoitMain
    from doit.cmd_base import ModuleTaskLoader
    w = c03.World(ctx, backend, 'c')
    w.dep.close()
    sh = CShadow()
    defs = {t: EMPTY_C for t in range(NT)}
    st = dict(order=list(range(NT)), fails=())
    obs = []
    prev = None

    def mk(t):
        d = defs[t]
        acts = []
        vals = {('u%d' % k): x for k, x in d['values']}
        r = d['ret']
        if r is not None:
            if r['file_dep'] is not None:
                vals['file_dep'] = [w.path(f) for f in r['file_dep']]
            if r['task_dep'] is not None:
                vals['task_dep'] = ['T%d' % x for x in r['task_dep']]
            if r['uptodate'] is not None:
                vals['uptodate'] = list(RET_UTD[r['uptodate']])

        def first():
            if t in st['fails']:
                return False
            return dict(vals) if vals else True

        def final():
            return True if d['result'] is None else 'res%d' % d['result']
        acts = [(first,), (final,)]
        res = {'actions': acts, 'file_dep': [w.path(f) for f in sorted(d['file_dep'])],
               'targets': [w.path(f) for f in d['targets']], 'uptodate': [w.make_utd(tuple(u)) for u in d['uptodate']]}
        if d['task_dep']:
            res['task_dep'] = ['T%d' % x for x in d['task_dep']]
        if d['calc_dep']:
            res['calc_dep'] = ['T%d' % x for x in d['calc_dep']]
        return res

    def namespace():
        cfg = {'dep_file': w.dbpath, 'backend': {'json': 'json', 'dbm': 'dbm', 'sqlite': 'sqlite3'}[backend],
               'check_file_uptodate': 'md5' if w.ck == 'md5' else 'timestamp',
               'reporter': GReporter, 'verbosity': 0, 'continue': True}
        src = ''.join('def task_T%d():\n    return _mk(%d)\n' % (t, t) for t in st['order'])
        path = os.path.join(ctx.subdir('cdodo'), 'dodo_%s.py' % ''.join(map(str, st['order'])))
        if not os.path.exists(path):
            with open(path, 'w') as fh:
                fh.write(src)
        ns = {'_mk': mk}
        exec(compile(src, path, 'exec'), ns)
        ns['DOIT_CONFIG'] = cfg
        return {k: v for k, v in ns.items() if k.startswith('task_') or k == 'DOIT_CONFIG'}

    def doit(args):
        GReporter.log = []
        buf = io.StringIO()
        with contextlib.redirect_stdout(buf), contextlib.redirect_stderr(buf):
            try:
                rc = DoitMain(ModuleTaskLoader(namespace())).run(args)
            except SystemExit:
                rc = 90
        return rc, list(GReporter.log), buf.getvalue()

    def viol(what, shape, t, idx):
        out.c04_violations.append(dict(what=what, shape=shape, case=dict(history=h, backend=backend, task=t, run=idx, family='calcdep')))

    try:
        for idx, o in enumerate(h):
            k = o[0]
            this = None
            if k in ('Write', 'Touch'):
                w.apply(o)
                if w.not_fresh:
                    sh.fresh = False
            elif k == 'SetChecker':
                w.ck = o[1]
            elif k == 'Order':
                if sorted(o[1]) == list(range(NT)):
                    st['order'] = list(o[1])
            elif k == 'CDef':
                defs[o[1]] = o[2]
            elif k == 'Forget':
                doit(['forget', 'T%d' % o[1]])
                sh.gone(o[1])
            elif k == 'Ignore':
                doit(['ignore', 'T%d' % o[1]])
            elif k == 'Run':
                sel, plain, par, fails = sel_of(o, st['order']), o[2], o[3], tuple(o[4])
                st['fails'] = fails
                args = ['run', '--continue'] + (['-n', '2', '-P', 'thread'] if par else []) + ([] if plain else ['T%d' % t for t in sel])
                rc, log, txt = doit(args)
                if rc not in (0, 1, 2):
                    obs += [97, rc, -8]
                    prev = None
                    continue
                executed, verdict, stale, pairs = set(), {}, {}, []
                for ev, n in log:
                    if n is None:
                        continue
                    t = int(n[1:])
                    if ev == 'status':
                        verdict.setdefault(t, sh.fresh and sh.complete(w, defs, t))
                        stale.setdefault(t, sh.fresh and sh.must_run(w, defs, t))
                    elif ev == 'execute':
                        executed.add(t)
                        if verdict.get(t):
                            viol('runner executed a task although nothing changed since its last successful execution (declared and calculated file '
                                 'deps, targets, declared and calculated uptodate items are as they were)', 'c04-unchanged-rerun-calcdep', t, idx)
                    elif ev == 'success':
                        pairs.append((t, 0 if t in executed else 96))
                        sh.success(w, defs, t)
                    elif ev == 'failure':
                        pairs.append((t, 1 if t in executed else 4))
                        sh.gone(t)
                    elif ev == 'uptodate':
                        pairs.append((t, 2))
                        if stale.get(t):
                            viol('a task was skipped as up-to-date although a file dependency it has (declared, or calculated by a calc_dep task) is '
                                 'modified / its dependency set differs from the one its last successful execution saved', 'c04-calcdep-edit-not-rebuilt', t, idx)
                    elif ev == 'ignore':
                        pairs.append((t, 3))
                if par:
                    pairs.sort()
                for t, c in pairs:
                    obs += [t, c]
                    out.count('c-decision:%d' % c)
                obs.append(-8)
                if (prev is not None and prev[0] == idx - 1 and tuple(prev[1][1:]) == tuple(o[1:]) and not fails
                        and prev[2] == 0 and all(c in (0, 2) for _, c in prev[3]) and sh.fresh):
                    out.count('c-repeat-judged')
                    for t in sorted(executed):
                        if never_uptodate_c(w, defs, sh, t):
                            out.count('c-repeat-exec:never-up-to-date')
                            continue
                        viol('a run repeated immediately after a fully successful one executed a task that has a (declared or calculated) file_dep / '
                             'uptodate item and can be up-to-date', 'c04-repeat-run-reexecuted-calcdep', t, idx)
                    if not executed:
                        out.count('c-repeat:no-op')
                    if any(defs[t]['calc_dep'] and c == 2 for t, c in pairs):
                        out.count('c-repeat:consumer-skipped')
                for t, c in pairs:
                    if defs[t]['calc_dep'] and c == 0 and t in stale and stale[t]:
                        out.count('c-consumer-rebuilt-after-edit')
                this = (idx, o, rc, pairs)
            else:
                raise ValueError(o)
            prev = this
        w.open()
        try:
            dump = w.dump() + [-6]
            for t in range(NT):
                vals = w.dep.get_values('T%d' % t)
                for key, enc in (('file_dep', lambda x: c03.mask(w.fileno(p) for p in x)), ('task_dep', lambda x: c03.mask(int(n[1:]) for n in x)),
                                 ('uptodate', lambda x: {False: 0, True: 1, None: 2}[x[0]] if len(x) == 1 else 95)):
                    dump.append(enc(vals[key]) if key in vals else -2)
        except Exception as e:  # noqa
            dump = [97, len(type(e).__name__)]
    finally:
        w.finish()
    return obs + [-7] + dump


def scripted_c():
    hs = []
    allr = ('Run', [], True, False, [])

    def sel(*ts):
        return ('Run', list(ts), False, False, [])
    for ck in ('md5', 'ts'):
        S = [('SetChecker', ck), ('Write', 0, 0), ('Write', 1, 1), ('Write', 2, 2)]
        P = C([1], ret=dict(file_dep=[2]))                         # provider with its own file_dep: can be up-to-date
        P01 = C([1], ret=dict(file_dep=[0, 2]))
        Pn = C([], ret=dict(file_dep=[2]))                         # never up-to-date: re-executes in every run
        Cn = C([0], calc_dep=[1])
        for order in ([1, 0, 2], [0, 1, 2]):                       # provider defined before / after the consumer
            for runs in (allr, sel(0), sel(1, 0), sel(0, 1)):
                # run, run again (nothing executes), edit the calculated file, run (consumer re-executes), run again, change what the
                # provider returns while it stays up-to-date (old values keep being handed over), then make it re-execute
                hs.append(S + [('Order', order), ('CDef', 0, Cn), ('CDef', 1, P), runs, runs, runs, ('Write', 2, 0), runs, runs,
                               ('Touch', 2), runs, ('CDef', 1, P01), runs, runs, ('Write', 1, 3), runs, runs, ('Write', 0, 3), runs, runs])
            hs.append(S + [('Order', order), ('CDef', 0, Cn), ('CDef', 1, Pn), allr, allr, ('Write', 2, 0), allr, allr, sel(1, 0), sel(1, 0)])
            # consumer without declared file_dep: everything it depends on is calculated
            hs.append(S + [('Order', order), ('CDef', 0, C([], calc_dep=[1])), ('CDef', 1, P), allr, allr, allr, ('Write', 2, 0), allr, allr,
                           ('CDef', 1, C([1], ret=dict(file_dep=[]))), ('Write', 1, 3), allr, allr])
            # calculated uptodate items and a calculated task_dep
            hs.append(S + [('Order', order), ('CDef', 0, Cn), ('CDef', 1, C([1], ret=dict(file_dep=[2], task_dep=[2], uptodate=1))),
                           ('CDef', 2, C([1], utd=[('run_once',)])), allr, allr, sel(0), sel(0), ('Write', 2, 0), sel(0), sel(0),
                           ('CDef', 1, C([1], ret=dict(file_dep=[2], uptodate=0))), ('Write', 1, 3), allr, allr])
            # two providers, a provider of the provider, forget / ignore / a failing provider
            hs.append(S + [('Order', order), ('CDef', 0, C([], calc_dep=[1, 2])), ('CDef', 1, P), ('CDef', 2, C([0], ret=dict(file_dep=[1]))),
                           allr, allr, sel(2, 1, 0), sel(2, 1, 0), ('Write', 1, 3), allr, allr])
            hs.append(S + [('Order', order), ('CDef', 0, Cn), ('CDef', 1, C([1], calc_dep=[2], ret=dict(file_dep=[2]))),
                           ('CDef', 2, C([0], ret=dict(file_dep=[0]))), allr, allr, sel(0), sel(0), ('Write', 0, 3), allr, allr])
            hs.append(S + [('Order', order), ('CDef', 0, Cn), ('CDef', 1, P), allr, allr, ('Forget', 1), allr, allr, ('Forget', 0), allr, allr,
                           ('Ignore', 1), allr, ('Forget', 1), allr, allr, ('Run', [], True, False, [1]), allr, allr])
    return hs


def gen_cdef(rng, t, lower, defs, role, tgt):
    fd = rng.sample([0, 1], rng.choice([0, 1, 1, 1, 2]))
    if role == 'provider' and not fd and rng.random() < 0.7:
        fd = [rng.randrange(2)]
    items = []
    for _ in range(rng.choice([0, 0, 0, 1, 1, 2])):
        if rng.random() < 0.15 and not any(u[0] == 'config' for u in items):
            items.append(('config', rng.randrange(3)))
        else:
            items.append(rng.choice(ITEM_W))
    ret = None
    if role == 'provider' or rng.random() < 0.2:
        files = [0, 1] if tgt else [0, 1, 2]
        ret = dict(file_dep=sorted(rng.sample(files, rng.choice([0, 1, 1, 1, 2]))) if rng.random() < 0.9 else None,
                   task_dep=[rng.choice(lower)] if (lower and rng.random() < 0.2) else None,
                   uptodate=rng.choice([None, None, None, None, 1, 1, 2, 0]))
    calc, tdep = [], []
    if lower and (role == 'consumer' or rng.random() < 0.25):
        calc = rng.sample(lower, rng.choice([1, 1, 1, 2]) if len(lower) > 1 else 1)
    if lower and rng.random() < 0.15:
        tdep = [rng.choice(lower)]
    values = [(k, rng.choice([0, 1, 5, None])) for k in sorted(rng.sample(range(3), rng.choice([0, 0, 1])))]
    return C(fd, [2] if (tgt and t == 0) else [], items, values, rng.choice([None, 0, 1, 2]), tdep, calc, ret)


def gen_c(rng, ck, par, out):
    order = rng.sample(range(NT), NT)
    rank = rng.sample(range(NT), NT)              # rank[i] names only rank[j], j < i: no cycles
    tgt = rng.random() < 0.12                     # file 2 is a target of T0 (then nobody calculates it)
    h = [('SetChecker', ck), ('Order', order)]
    content = {}
    for f in (0, 1, 2):
        content[f] = rng.randrange(5)
        if f < 2 or not tgt or rng.random() < 0.7:
            h.append(('Write', f, content[f]))
    consumer = rank[-1] if rng.random() < 0.7 else rank[1]
    defs = {}
    for i, t in enumerate(rank):
        role = 'consumer' if t == consumer else ('provider' if i < rank.index(consumer) else 'other')
        defs[t] = gen_cdef(rng, t, rank[:i], defs, role, tgt)
    provs = sorted(set(p for t in defs for p in defs[t]['calc_dep'])) or [rank[0]]
    for t in sorted(defs, key=lambda x: rng.random()):
        h.append(('CDef', t, defs[t]))

    def a_run(fail_ok):
        r = rng.random()
        if r < 0.3:
            sel, plain = [], True
        elif r < 0.5:
            sel, plain = [consumer], False
        elif r < 0.7:
            sel, plain = rng.choice([[provs[0], consumer], [consumer, provs[0]]]), False
        else:
            sel, plain = rng.sample(range(NT), rng.choice([1, 2, 2, 3])), False
        fails = [rng.randrange(NT)] if (fail_ok and rng.random() < 0.07) else []
        kind = 'plain' if plain else 'consumer-only' if sel == [consumer] else 'provider-first' if sel[0] in provs and consumer in sel else \
            'consumer-first' if sel[0] == consumer and len(sel) > 1 else 'subset'
        out.count('c-run:%s%s%s' % (kind, ':threads' if par else '', ':failing' if fails else ''))
        return ('Run', sel, plain, par, fails)

    def repeat(r):
        h.append(r)
        if not r[4] and rng.random() < 0.7:
            h.append(r)

    def redef(t, **kw):
        defs[t] = dict(defs[t], **kw)
        h.append(('CDef', t, defs[t]))

    def write(f):
        content[f] = rng.choice([c for c in range(5) if c != content[f]])
        h.append(('Write', f, content[f]))

    def new_ret(p):
        files = [0, 1] if tgt else [0, 1, 2]
        old = defs[p]['ret'] or dict(file_dep=None, task_dep=None, uptodate=None)
        return dict(old, file_dep=sorted(rng.sample(files, rng.choice([0, 1, 1, 2]))), uptodate=rng.choice([old['uptodate'], None, 1]))

    repeat(a_run(True))
    for _ in range(rng.choice([1, 2, 2, 3])):
        for _ in range(rng.choice([1, 1, 2])):
            p = rng.choice(provs)
            calc_files = sorted(set(f for q in provs for f in ((defs[q]['ret'] or {}).get('file_dep') or ())))
            r = rng.random()
            if r < 0.25 and calc_files:
                kind = 'write-calculated-file'
                write(rng.choice(calc_files))
            elif r < 0.33:
                kind = 'write'
                write(rng.choice([0, 1] if tgt else [0, 1, 2]))
            elif r < 0.41:
                kind = 'touch-or-same-content'
                f = rng.choice(calc_files or [0, 1])
                h.append(('Touch', f) if rng.random() < 0.5 else ('Write', f, content[f]))
            elif r < 0.53:
                kind = 'provider-returns-other+reexecutes'
                redef(p, ret=new_ret(p))
                for f in defs[p]['file_dep'][:1]:
                    write(f)
            elif r < 0.63:
                kind = 'provider-returns-other-only'
                redef(p, ret=new_ret(p))
            elif r < 0.73:
                kind = 'redefine'
                t = rng.choice(rank)
                i = rank.index(t)
                role = 'consumer' if t == consumer else ('provider' if t in provs else 'other')
                defs[t] = gen_cdef(rng, t, rank[:i], defs, role, tgt)
                h.append(('CDef', t, defs[t]))
                provs[:] = sorted(set(q for x in defs for q in defs[x]['calc_dep'])) or [rank[0]]
            elif r < 0.82:
                kind = 'forget'
                h.append(('Forget', rng.choice([p, consumer, rng.randrange(NT)])))
            elif r < 0.85:
                kind = 'ignore'
                h.append(('Ignore', rng.randrange(NT)))
            elif r < 0.91:
                kind = 'order'
                order = rng.sample(range(NT), NT)
                h.append(('Order', order))
            elif r < 0.95 and not par:
                kind = 'checker'
                ck = 'ts' if ck == 'md5' else 'md5'
                h.append(('SetChecker', ck))
            else:
                kind = 'nothing'
            out.count('c-edit:' + kind)
        repeat(a_run(True))
    last = a_run(False)
    h += [last, last]
    return h


def c_key(h):
    return 'c:' + json.dumps(h, sort_keys=True, default=str)


def explore_c(ctx, out):
    rng = ctx.rng
    hs = [('scripted', h, False) for h in scripted_c()]
    n, npar = ctx.n(51, 500), ctx.n(12, 120)
    for i in range(n):
        hs.append(('random', gen_c(rng, ('md5', 'md5', 'ts')[i % 3], False, out), False))
    for i in range(npar):
        hs.append(('threads', gen_c(rng, ('md5', 'ts')[i % 2], True, out), True))
    cases = []
    for i, (kind, h, par) in enumerate(hs):
        # scripted histories: on all three backends in the thorough tier, round-robin in the quick tier
        for b in (('json', 'dbm', 'sqlite') if (kind == 'scripted' and not ctx.quick) else (('json', 'dbm', 'sqlite')[i % 3],)):
            try:
                obs = run_c(ctx, b, h, out)
            except Exception as e:  # noqa
                obs = [97, len(type(e).__name__)]
            out.count('c:' + kind + ':' + b)
            if not par:
                cases.append(dict(model=c_coq(h), expected=obs, desc=(kind, h, b)))
        out.nontrivial.add(c_key(h))
        for o in h:
            out.count('c-op:' + o[0])
    bad = common.compare_with_model(ctx, PRE_C, cases, tag='c04c')
    for i, m in bad:
        out.mismatches.append(dict(case=c_coq(cases[i]['desc'][1]), history=cases[i]['desc'][1], backend=cases[i]['desc'][2],
                                   impl=cases[i]['expected'], model=m))
    out.evaluations += len(cases) + npar
    out.traces_validated += len(cases)
    out.extra['calcdep_histories_through_DoitMain'] = dict(scripted=len(scripted_c()), scripted_backends=1 if ctx.quick else 3, random_serial=n, random_threads_oracle_only=npar)
    if cases:
        out.samples.append(dict(calcdep=c_coq(cases[0]['desc'][1]), observed=cases[0]['expected']))


def shrink_c(ctx, out):
    done = set()
    for v in out.c04_violations:
        case = v.get('case', {})
        if v['shape'] in done or case.get('family') != 'calcdep' or 'unshrunk_history' in case:
            continue
        done.add(v['shape'])
        try:
            small = c03.shrink(ctx, case['backend'], case['history'], v['shape'], True, run_c, 150)
        except Exception:
            continue
        case['unshrunk_history'] = case['history']
        case['run_in_unshrunk_history'] = case.pop('run', None)
        case['history'] = small
        case['history_coq'] = c_coq(small)


RULE_C = (' ++ family calcdep (harness/c04.py, model CalcDep.v): run-level histories over 3 tasks with calc_dep -- a consumer whose provider has its '
          'own file_dep (it can be up-to-date and then hands over its SAVED values) and returns file_dep / task_dep / uptodate for the consumer, '
          'provider defined before or after the consumer, plain `doit` / only the consumer / provider then consumer / consumer then provider / a '
          'subset selected, runs repeated immediately, edits of calculated and declared files, the provider returning something else with and '
          'without re-executing, two providers, a provider of a provider, forget / ignore / failing actions / checker switch -- through DoitMain '
          '(serial on one of json/dbm/sqlite3 round-robin, scripted ones on all three; compared with crun of CalcDep.v) and with -n 2 -P thread '
          '(oracles only); each distinct history counts as non-trivial')
RULE_G = (' ++ family getargs (harness/c04.py, model Getargs.v): run-level histories over 3 tasks with getargs / explicit result_dep -- provider '
          'defined before or after the consumer, plain `doit` / only the consumer / a subset selected, the provider re-executing (file dep and result '
          'changed) as a setup-task or a task_dep, forget / ignore / failing actions, runs repeated immediately -- through DoitMain (serial on one of '
          'json/dbm/sqlite3 round-robin, scripted ones on all three; compared with grun of Getargs.v) and with -n 2 -P thread (oracles only); '
          'each distinct history counts as non-trivial')


RULE_GRP = (' ++ sub-family group of getargs (harness/c04.py run_grp; item model GroupRes.v): a consumer with uptodate=[result_dep(G)] and / or getargs '
            'from G (one key / the whole dict of every sub-task) where G is a GROUP (a generator yielding sub-tasks and a group-level dict before or '
            'after them) that depends on a plain task X which is not one of its sub-tasks -- group-level task_dep, file_dep on a target of X, '
            'group-level result_dep(X), or not at all; histories where only X re-executes with another result (its own file_dep edited), where a '
            'sub-task does, where the set of sub-tasks changes, forget / failing actions / creator order, runs repeated immediately, serial and '
            '-n 2 -P thread -- through DoitMain, judged by the oracles; plus the item alone (real result_dep object on a real Dependency at two '
            'moments) compared with gi_observe of GroupRes.v; each distinct history / item case counts as non-trivial')


def run(ctx):
    out = Outcome()
    out.rule = c03.RULE + RULE_G + RULE_GRP + RULE_C
    c03.explore(ctx, out)
    c03.explore_e2e(ctx, out)
    explore_g(ctx, out)
    explore_grp(ctx, out)
    explore_gi(ctx, out)
    explore_c(ctx, out)
    shrink_g(ctx, out)
    shrink_grp(ctx, out)
    shrink_c(ctx, out)
    c03.shrink_findings(ctx, out, c03=False)
    c03_viol = out.violations
    out.violations = list(out.c04_violations) + [v for v in c03_viol if v['shape'] == 'checker-switch-typeerror']
    out.extra['c03_oracle_findings_seen_here'] = len(c03_viol)
    out.assumptions = ['FS-fresh (see C03)', 'callables / shell commands in uptodate are oracles',
                       'hypothesis of completeness includes: the snapshot was taken under the configured checker '
                       '(a record written by another checker is deleted by get_status: documented)',
                       'family getargs: the run-level MODEL (Getargs.v) has result_dep / getargs on single tasks only, acyclic, no implicit task_dep '
                       'through targets; threaded runs are judged by the oracles only (see known finding c08:getargs-consumer-check-not-ordered-after-source)',
                       'sub-family group: "the result of group G" is read as the dict of the results of its SUB-TASKS (doc/uptodate.rst: "it will check that '
                       'the result of all subtasks did not change. And also the existing sub-tasks are the same"); whole runs with a group source are judged by '
                       'the implementation-side oracles only (no run-level model); the item -- result_dep._result_group / __call__ / value saver -- is modelled '
                       '(GroupRes.v: result of a group = map over the sub-tasks among its task_dep) with `startswith(group + ":")` as the oracle is_sub']
    out.assumptions.append('family calcdep: calc_dep providers return file_dep / task_dep / uptodate (bool or None items) only -- no calc_dep of calc_dep '
                           'values, no result_dep items, no calculated file that is a target of another task (implicit task_dep), single tasks, acyclic; '
                           'threaded runs are judged by the oracles only')
    out.extra['trusted_base'] = ['harness/c03.py: World, Shadow, encoders (shared with C03)',
                                 'harness/c04.py: run_g / run_grp / run_c (translation of run-level histories to doit command lines), GShadow / PShadow / '
                                 'CShadow, the repeat oracles, the edit oracle and the changed oracle']
    out.extra['notes'] = ['result_dep / getargs on a GROUP source: theorems C04_group_item_iff (the item is true IFF the sub-tasks are the same and each '
                          'one holds the result it held), C04_group_second_look (no dependence on the results of the non-sub-task task_dep of the group), '
                          'C04_group_item_frame (after any operations of History.v that do not write the record of a sub-task the item is still true) over '
                          'Model/GroupRes.v; whole runs (run_grp) are judged on the implementation side by three oracles (shadow, repeat, changed), not '
                          'compared with a run-level model',
                          'getargs / result_dep over whole runs is modelled (coq/Model/Getargs.v, theorems C04_getargs_* of Properties/C04.v) AND '
                          'judged by two implementation-side oracles (shadow on the reporter event order; immediate repeat of a fully successful run)',
                          'calc_dep over whole runs is modelled too (coq/Model/CalcDep.v, a sibling of Getargs.v: the values a provider hands over are '
                          'its in-memory task.values, set at selection time for an up-to-date provider -- runner.py 156; theorems C04_calcdep_* of '
                          'Properties/C04.v: handed-over values = saved values whatever the dispatch order, saved dep set = declared + calculated, the '
                          'second look, the whole repeated run is a no-op) AND judged by three implementation-side oracles that use neither the model '
                          'nor the DB (shadow; immediate repeat of a fully successful run; an edit of a declared or calculated file_dep makes the task run)']
    return out


def replay(ctx, payload):
    case = payload.get('case', {})
    h = case.get('history', [])
    if any(o[0] == 'CDef' for o in h):
        out = Outcome()
        out.c04_violations = []
        h = norm_c(h)
        b = case.get('backend', 'json')
        print(b, run_c(ctx, b, h, out))
        for v in out.c04_violations:
            print('VIOLATION', v['shape'], v['what'], 'task', v['case']['task'], 'run at operation', v['case']['run'])
        return 1 if out.c04_violations else 0
    if any(o[0] == 'Grp' for o in h):
        out = Outcome()
        out.c04_violations = []
        h = norm_grp(h)
        b = case.get('backend', 'json')
        print(b, run_grp(ctx, b, h, out))
        for v in out.c04_violations:
            print('VIOLATION', v['shape'], v['what'], 'task', v['case'].get('task'), 'run at operation', v['case'].get('run'))
        return 1 if out.c04_violations else 0
    if any(o[0] == 'GDef' for o in h):
        out = Outcome()
        out.c04_violations = []
        h = norm(h)
        b = case.get('backend', 'json')
        print(b, run_g(ctx, b, h, out))
        for v in out.c04_violations:
            print('VIOLATION', v['shape'], v['what'], 'task', v['case']['task'], 'run at operation', v['case']['run'])
        return 1 if out.c04_violations else 0
    return c03.replay(ctx, payload)
