"""C10, the DECLARATION of the python-action: `(callable, args, kwargs)` with a `kwargs` dict OBJECT (and an `args`
list object) that a dodo file may share between several actions of a task, several tasks, and several runs of one
process (a module-level constant), a callable that takes its inputs through named parameters and/or **kwargs, and
positional arguments that take some of the parameters.

Two parts; c10.py calls both.

class_level(ctx, out)      family 'kwargs' -- real doit.task.Task / doit.action.PythonAction objects, no runner:
    a PROGRAM = dict objects with their declared content, tasks (file_dep, targets, the names of their options =
    getargs entries), actions (signature: positional / meta / option / declared parameters, **kwargs or not; number of
    positional arguments; which dict object) and a SEQUENCE of executions; before an execution the task's state may
    change as it does between two runs (options get other values = the getargs source was re-executed and saved other
    values; dep_changed / file_dep change).  Driven by `task.actions[j].execute()`.
    Correspondence: Model/Kwargs.v `calls_z true <heap> <nobj> <calls>` = per execution the dict _prepare_kwargs
        returned (items in dict order; seam: a wrapper around PythonAction._prepare_kwargs), then the content of every
        dict object afterwards.  Encoding: [#items; (key code; value)*; -9]* ; -8 ; the same per object.
        key codes 0 targets 1 dependencies 2 changed, k -> 'a<k>'; values [1; mask(files)] | [2; v] (None = -1) |
        [3; 16 ints] a whole values dict; an execution that raised: [98; -9].
    Oracle (independent of the model and of the seam: computed from the declared program, judged on what the CALLABLE
    recorded it was called with):
        every option (getargs entry) of the task the callable can take -- a parameter of that name not bound
            positionally, or **kwargs and the dict not DECLARED with that name -- arrives with the task's CURRENT value
                                                                                  shape c10:kwargs-getargs-not-current
        targets / dependencies / changed parameters carry the task's current lists  shape c10:kwargs-meta-not-current
        a declared keyword the task has no option / meta parameter for arrives as declared
                                                                                  shape c10:kwargs-declared-value-changed
        no other keyword arrives (e.g. an option of ANOTHER task, an earlier `changed`)  shape c10:kwargs-foreign-keyword
        positional arguments arrive as declared; the execution does not raise     shape c10:kwargs-call-raised
        (name collisions -- a declared keyword named like an option / meta parameter -- are generated too; which one wins is
        the code's choice, compared with the model only: C10_kwargs_key_by_key)

decl pass for the session machinery of c10.py (family 'shared', add_decl below): the python-actions of the getargs
    consumers of a generated session are declared as tuples over shared / per-task / fresh dict objects, with named,
    **kwargs-only or mixed signatures; World.task_dict builds them (objects marked `persist` live as long as the
    process = across the runs of the session); Shadow.judge (getargs-stale etc.) and judge_decl below judge what they
    received through real `doit run` invocations (serial, -n 2, -n 2 -P thread).
"""
import json

PRE = ('From DoitV Require Import Base Status History Inputs Kwargs.\nOpen Scope Z_scope.\n'
       'Definition mkd fd tg : tdef := {| file_dep := fd; targets := tg; uptodate := []; act_values := []; act_result := None |}.\n'
       'Definition mkc ps vk np r fd tg ch os : call := {| c_act := {| a_fun := {| f_params := ps; f_varkw := vk |}; a_npos := np; a_kw := r |};\n'
       '   c_def := mkd fd tg; c_changed := ch; c_opts := os |}.\n'
       'Definition sv (x : Z) : aval := ASingle (SVal (if Z.ltb x 0 then None else Some (Z.to_N x))).\n'
       'Definition sd (x : Z) : aval := ASingle (SDict [(2%N, if Z.ltb x 0 then None else Some (Z.to_N x))]).\n'
       'Definition dv (x : Z) : kwval := KOpt (sv x).\n')
META = {0: 'targets', 1: 'dependencies', 2: 'changed'}
CODE = {v: k for k, v in META.items()}


def pname(code):
    return META.get(code, 'a%d' % code)


def pcode(name):
    if name in CODE:
        return CODE[name]
    try:
        return int(name[1:]) if name.startswith('a') else 99
    except ValueError:
        return 99


def mask(xs):
    m = 0
    for x in xs:
        m |= 1 << x
    return m


def fpath(f):
    return '/c10kw/f%d' % f


def fno(p):
    return int(p.rsplit('f', 1)[1])


# ------------------------------------------------------------------ generation
def gen_program(rng, idx, deep=False):
    nobj = rng.choice([1, 1, 2, 3])
    objs = []
    for _ in range(nobj):
        keys = rng.sample([9, 10], rng.choice([0, 1, 1, 2]))
        if rng.random() < 0.15:
            keys.append(rng.choice([3, 4, 0, 1, 2]))      # named like an option / a meta-argument: the code decides who wins
        objs.append([[k, rng.randrange(20, 30)] for k in keys])
    tasks = []
    for _ in range(rng.choice([1, 2, 2, 3])):
        tasks.append(dict(optkeys=rng.sample([3, 4, 5], rng.choice([0, 1, 2, 2, 3])), targets=rng.choice([[], [4], [4, 5]])))
    actions = []
    for ti, t in enumerate(tasks):
        for _ in range(rng.choice([1, 1, 2])):
            ref = rng.randrange(nobj)
            declared = [k for k, _ in objs[ref]]
            varkw = rng.random() < 0.6
            named = [m for m in (0, 1, 2) if rng.random() < 0.5] + [k for k in t['optkeys'] if rng.random() < (0.35 if varkw else 0.8)]
            rng.shuffle(named)
            npos = rng.choice([0, 0, 0, 1, 2])
            pos = [8, 7][:npos]
            if npos and named and named[0] not in declared and rng.random() < 0.3:
                # a meta / option parameter taken by a positional argument: doit leaves it alone
                pos[-1] = named.pop(0)
            params = pos + named
            if not varkw:
                params += [k for k in declared if k not in params]     # a callable without **kwargs must accept the declared keywords
            elif rng.random() < 0.3:
                params += [k for k in declared if k not in params and rng.random() < 0.5]
            actions.append(dict(task=ti, params=params, varkw=varkw, npos=npos, ref=ref, args=[rng.randrange(40, 50) for _ in range(npos)]))
    # the executions; state of every task at each of them
    state = []
    for t in tasks:
        state.append(dict(file_dep=sorted(rng.sample(range(4), rng.choice([0, 1, 2]))), changed=[], opts=[[k, rval(rng)] for k in t['optkeys']]))
    for st in state:
        st['changed'] = sorted(rng.sample(st['file_dep'], rng.randrange(len(st['file_dep']) + 1)))
    calls = []
    for ci in range(rng.choice([3, 4, 5, 6, 8] if not deep else [6, 8, 10, 14, 20])):
        if ci and rng.random() < 0.5:
            # what happens between two runs: a getargs source saved other values, files were modified, the dep set changed
            st = state[rng.randrange(len(tasks))]
            r = rng.random()
            if r < 0.6 and st['opts']:
                for o in st['opts']:
                    if rng.random() < 0.7:
                        o[1] = rval(rng, o[1])
                if rng.random() < 0.3:
                    rng.shuffle(st['opts'])
            elif r < 0.8:
                st['file_dep'] = sorted(rng.sample(range(4), rng.choice([0, 1, 2, 3])))
                st['changed'] = sorted(rng.sample(st['file_dep'], rng.randrange(len(st['file_dep']) + 1)))
            else:
                st['changed'] = sorted(rng.sample(st['file_dep'], rng.randrange(len(st['file_dep']) + 1)))
        a = rng.randrange(len(actions))
        st = state[actions[a]['task']]
        calls.append(dict(action=a, file_dep=list(st['file_dep']), changed=list(st['changed']), opts=[list(o) for o in st['opts']]))
    return dict(idx=idx, objs=objs, tasks=tasks, actions=actions, calls=calls)


def rval(rng, old=None):
    """an option value: ['v', int | None] or ['d', int | None] (the whole values dict {u0: x}); different from `old`"""
    for _ in range(20):
        v = [rng.choice(['v', 'v', 'v', 'v', 'v', 'd']), rng.choice([None, 0, 1, 2, 3, 5, 7, 11])]
        if v != old:
            return v
    return ['v', 12]


def py_value(v):
    return v[1] if v[0] == 'v' else {'u0': v[1]}


# ------------------------------------------------------------------ model side
def nl(xs):
    return '[' + '; '.join('%d' % x for x in xs) + ']%N'


def z(x):
    return '(-1)' if x is None else '%d' % x


def model_case(prog, sfx):
    arms = ' '.join('| %d%%N => [%s]' % (i, '; '.join('(%d%%N, dv %d)' % (k, v) for k, v in o)) for i, o in enumerate(prog['objs']))
    defs = 'Definition hp%s (n : N) : kwdict := match n with %s | _ => [] end.' % (sfx, arms)
    cs = []
    for c in prog['calls']:
        a = prog['actions'][c['action']]
        t = prog['tasks'][a['task']]
        os_ = '; '.join('(%d%%N, %s %s)' % (k, 'sv' if v[0] == 'v' else 'sd', z(v[1])) for k, v in c['opts'])
        cs.append('mkc %s %s %d%%nat %d%%N %s %s %s [%s]' % (nl(a['params']), 'true' if a['varkw'] else 'false', a['npos'], a['ref'],
                                                          nl(c['file_dep']), nl(t['targets']), nl(c['changed']), os_))
    return defs, 'calls_z true hp%s %d [%s]' % (sfx, len(prog['objs']), '; '.join(cs))


def enc_value(x):
    if isinstance(x, list):
        return [1, mask(fno(p) for p in x)]
    if isinstance(x, dict):
        row = [-2] * 16
        for k, v in x.items():
            row[2 * int(k[1:]) + 2] = -1 if v is None else v
        return [3] + row
    if x is None:
        return [2, -1]
    if isinstance(x, int) and not isinstance(x, bool):
        return [2, x]
    return [97]


def enc_dict(d):
    out = [len(d)]
    for k, v in d.items():
        out += [pcode(k)] + enc_value(v)
    return out + [-9]


# ------------------------------------------------------------------ the real thing
def run_program(prog):
    """returns (ints, observations): per execution dict(prepared=<what _prepare_kwargs returned or None>, got=<what the
    callable recorded: dict(pos=[...], kw={...})> or None, error=<text or None>), and the dict objects afterwards"""
    from doit.task import Task
    from doit.action import PythonAction
    objs = [dict((pname(k), v) for k, v in o) for o in prog['objs']]
    argobjs = [list(a['args']) for a in prog['actions']]
    box = {}
    funcs = []
    for ai, a in enumerate(prog['actions']):
        names = [pname(p) for p in a['params']]
        src = 'def rec_%d(%s):\n    _box["got"] = dict(pos=[%s], kw=dict(dict(%s)%s))\n' % (
            ai, ', '.join(names + (['**_kw'] if a['varkw'] else [])),
            ', '.join(names[:a['npos']]), ', '.join('%s=%s' % (n_, n_) for n_ in names[a['npos']:]),
            ', **_kw' if a['varkw'] else '')
        ns = {'_box': box}
        exec(src, ns)
        funcs.append(ns['rec_%d' % ai])
    tasks = []
    for ti, t in enumerate(prog['tasks']):
        acts = [(funcs[ai], argobjs[ai], objs[a['ref']]) for ai, a in enumerate(prog['actions']) if a['task'] == ti]
        tasks.append(Task('t%d' % ti, acts, targets=[fpath(f) for f in t['targets']]))
    local = {}        # action index -> (task, index in the task)
    for ti in range(len(tasks)):
        j = 0
        for ai, a in enumerate(prog['actions']):
            if a['task'] == ti:
                local[ai] = (tasks[ti], j)
                j += 1
    seam = {}
    orig = PythonAction._prepare_kwargs

    def wrapped(self):
        res = orig(self)
        seam['prepared'] = list(res.items())
        return res
    PythonAction._prepare_kwargs = wrapped
    ints, obs = [], []
    try:
        for c in prog['calls']:
            task, j = local[c['action']]
            task.file_dep = set(fpath(f) for f in c['file_dep'])
            task.dep_changed = [fpath(f) for f in c['changed']]
            task.options = dict((pname(k), py_value(v)) for k, v in c['opts'])
            box.clear(); seam.clear()
            err = None
            try:
                res = task.actions[j].execute()
                if res is not None:
                    err = '%s: %s' % (type(res).__name__, getattr(res, 'message', '')) + (': %r' % (res.exception,) if getattr(res, 'exception', None) else '')
            except Exception as e:  # noqa -- observable outcome
                err = '%s: %s' % (type(e).__name__, e)
            o = dict(prepared=seam.get('prepared'), got=box.get('got'), error=err)
            obs.append(o)
            if err is not None or o['prepared'] is None:
                ints += [98, -9]
            else:
                ints += enc_dict(dict(o['prepared']))
    finally:
        PythonAction._prepare_kwargs = orig
    ints += [-8]
    for o in objs:
        ints += enc_dict(o)
    return ints, obs, objs, argobjs


def judge_program(prog, obs, objs, argobjs, out):
    """the oracle: from the declared program only"""
    def case(ci, **kw):
        return dict(family='kwargs', program=prog, execution=ci, **kw)
    for ci, (c, o) in enumerate(zip(prog['calls'], obs)):
        a = prog['actions'][c['action']]
        t = prog['tasks'][a['task']]
        declared = dict((pname(k), v) for k, v in prog['objs'][a['ref']])
        opts = dict((pname(k), py_value(v)) for k, v in c['opts'])
        names = [pname(p) for p in a['params']]
        bound = names[:a['npos']]
        meta = dict(targets=[fpath(f) for f in t['targets']], dependencies=[fpath(f) for f in c['file_dep']], changed=[fpath(f) for f in c['changed']])
        who = 'execution %d (action %d of task t%d, callable(%s%s), %d positional argument(s), dict object %d declared %s)' % (
            ci, c['action'], a['task'], ', '.join(names), ', **kw' if a['varkw'] else '', a['npos'], a['ref'], declared)
        collide = [k for k in declared if k in opts or k in meta]
        out.count('kwargs:signature:%s%s' % ('named' if names[a['npos']:] else 'no-named', '+varkw' if a['varkw'] else ''))
        out.count('kwargs:positional:%d' % a['npos'])
        if collide:
            out.count('kwargs:declared-keyword-named-like-option-or-meta(model decides)')
        if o['error'] is not None or o['got'] is None:
            out.violations.append(dict(what='%s did not call the callable normally: %s' % (who, o['error']), shape='c10:kwargs-call-raised', case=case(ci)))
            continue
        got = o['got']['kw']
        if o['got']['pos'] != a['args']:
            out.violations.append(dict(what='%s: positional arguments %s, declared %s' % (who, o['got']['pos'], a['args']), shape='c10:kwargs-call-raised', case=case(ci)))
        earlier = [c2 for c2 in prog['calls'][:ci] if prog['actions'][c2['action']]['ref'] == a['ref']]
        for k, v in opts.items():
            if k in declared or k in bound:
                continue
            if k in names or a['varkw']:
                how = 'named' if k in names else 'varkw'
                prev = [dict((pname(kk), py_value(vv)) for kk, vv in c2['opts']).get(k, '-') for c2 in earlier]
                hist = 'first-use-of-the-dict' if not earlier else ('same-name-other-value-before' if any(p != '-' and p != v for p in prev) else 'dict-used-before')
                out.count('kwargs:option-via-%s:%s' % (how, hist))
                if k not in got or got[k] != v:
                    out.violations.append(dict(
                        what='%s: the option / getargs value %s arrived as %r, the task holds %r now%s' % (
                            who, k, got.get(k, '<absent>'), v,
                            ' (the same dict object was used by %d earlier execution(s), which held %s)' % (len(earlier), prev) if earlier else ''),
                        shape='c10:kwargs-getargs-not-current', case=case(ci, key=k, expected=v, received=got.get(k, '<absent>'))))
                elif hist == 'same-name-other-value-before':
                    out.nontrivial.add(('kwargs', prog['idx'], ci))
        for k, v in meta.items():
            if k in names and k not in bound and k not in opts and k not in declared:
                out.count('kwargs:meta-parameter')
                if k not in got or sorted(got[k]) != sorted(v) or len(got[k]) != len(v):
                    out.violations.append(dict(what='%s: `%s` arrived as %r, the task has %r now' % (who, k, got.get(k, '<absent>'), v),
                                               shape='c10:kwargs-meta-not-current', case=case(ci, key=k)))
        for k, v in got.items():
            if k in opts or (k in meta and k in names):
                continue
            if k in declared:
                out.count('kwargs:declared-keyword-arrives')
                if v != declared[k]:
                    out.violations.append(dict(what='%s: the declared keyword %s=%r arrived as %r' % (who, k, declared[k], v),
                                               shape='c10:kwargs-declared-value-changed', case=case(ci, key=k)))
                continue
            out.violations.append(dict(what='%s: received the keyword %s=%r, which is neither declared, nor an option (getargs entry) of its task, nor a meta-argument it has a parameter for'
                                            % (who, k, v), shape='c10:kwargs-foreign-keyword', case=case(ci, key=k)))
        if len(earlier) and any(prog['actions'][c2['action']]['task'] != a['task'] for c2 in earlier):
            out.count('kwargs:dict-shared-with-another-task')
        elif earlier:
            out.count('kwargs:dict-reused-by-the-same-task')
    for oi, (o, d) in enumerate(zip(objs, prog['objs'])):
        if o != dict((pname(k), v) for k, v in d):
            out.count('kwargs:dict-object-modified')      # not a violation by itself: the effect on a later execution is


def class_level(ctx, out, common):
    n = ctx.n(400, 4000)
    cases, progs = [], []
    for idx in range(n):
        prog = gen_program(ctx.rng, idx, deep=(not ctx.quick and idx % 4 == 0))
        out.count('sessions:kwargs(class level)')
        try:
            ints, obs, objs, argobjs = run_program(prog)
        except Exception:  # noqa -- machinery or implementation failure: observable
            import traceback
            ctx.notes.append('kwargs program %d: %s' % (idx, traceback.format_exc()[-600:]))
            out.violations.append(dict(what='kwargs program could not be executed: ' + traceback.format_exc()[-300:], shape='c10:kwargs-call-raised',
                                       case=dict(family='kwargs', program=prog)))
            continue
        out.evaluations += len(prog['calls'])
        defs, expr = model_case(prog, 'k%d' % idx)
        cases.append(dict(model=expr, defs=defs, expected=ints, desc=dict(kind='kwargs', program=idx)))
        progs.append(prog)
        judge_program(prog, obs, objs, argobjs, out)
        if idx == 0:
            out.extra['kwargs_sample'] = dict(program=prog, observed=[dict(received=o['got'], error=o['error']) for o in obs])
    bad = common.compare_with_model(ctx, PRE, cases, tag='c10kw')
    for i, got in bad:
        out.mismatches.append(dict(case=cases[i]['desc'], impl=cases[i]['expected'][:300], model=got[:300], program=progs[i]))


def replay_program(ctx, payload, out):
    prog = payload['case']['program']
    ints, obs, objs, argobjs = run_program(prog)
    judge_program(prog, obs, objs, argobjs, out)
    for ci, o in enumerate(obs):
        print('execution %d: action %d received %s%s' % (ci, prog['calls'][ci]['action'], json.dumps(o['got']), '' if o['error'] is None else '  ERROR ' + o['error']))


# ------------------------------------------------------------------ the decl pass for sessions (family 'shared')
def add_decl(rng, sess):
    """gives the python-actions of the getargs consumers (and of a chain's middle task) of a generated session the
    declaration form `(callable, args, kwargs)`.  sess['objs'] = declared dict objects: dict(content=[[code, value]],
    persist=<lives as long as the process (module-level constant of the dodo file) | created anew at every load>);
    t['decl'] = dict(sig='named' | 'varkw' | 'mixed', obj=<index>, pos=<one positional argument>).
    For the model side t['params'] becomes what the callable can receive of the former list (a **kwargs-only callable
    gets no meta-argument; options always arrive)."""
    tasks = sess['tasks']
    cand = [i for i, t in enumerate(tasks) if t['getargs'] and t['action'] == 'py' and not t['group']]
    sess['objs'] = []
    if not cand:
        return sess
    layout = rng.choice(['one-for-all', 'one-for-all', 'one-for-all', 'own', 'own', 'mixed'])
    common_obj = None
    edits = {}
    for i in cand:
        t = tasks[i]
        if layout == 'one-for-all' or (layout == 'mixed' and rng.random() < 0.5):
            if common_obj is None:
                sess['objs'].append(dict(content=[[9, rng.randrange(20, 30)]] if rng.random() < 0.8 else [], persist=rng.random() < 0.7))
                common_obj = len(sess['objs']) - 1
            obj = common_obj
        else:
            sess['objs'].append(dict(content=[[9, rng.randrange(20, 30)]] if rng.random() < 0.6 else [], persist=rng.random() < 0.75))
            obj = len(sess['objs']) - 1
        sig = rng.choice(['varkw', 'varkw', 'mixed', 'mixed', 'named'])
        ga = [a for a, _, _ in t['getargs']]
        params = list(t['params'])
        if sig == 'varkw':
            params = [p for p in params if p in ga]
        t['decl'] = dict(sig=sig, obj=obj, pos=rng.random() < 0.3)
        t['params'] = params
        edits[i] = (t['decl'], params)
    # later definitions of the same task (SetDef commands carry a full copy of the spec) keep the declaration
    for c in sess['cmds']:
        if c[0] == 'SetDef' and len(c) > 2 and c[1] in edits:
            d, params = edits[c[1]]
            c[2]['decl'] = dict(d)
            c[2]['params'] = [p for p in c[2]['params'] if p in params]
    sess['layout'] = layout
    return sess


def decl_action(world, t, name, ret, failing, noval, log):
    """the action of a task with t['decl'] as the dodo file would declare it: (callable, args, kwargs)"""
    dc = t['decl']
    od = world.sess['objs'][dc['obj']]
    store = world.objs if od['persist'] else world.load_objs
    if dc['obj'] not in store:
        store[dc['obj']] = (dict((pname(k), v) for k, v in od['content']))
    kwobj = store[dc['obj']]
    ga = [pname(a) for a, _, _ in t['getargs']]
    declared = [pname(k) for k, _ in od['content']]
    names = [pname(p) for p in t['params']]
    if dc['sig'] == 'named':
        named, varkw = names + [d for d in declared if d not in names], False
    elif dc['sig'] == 'mixed':
        named, varkw = [n_ for n_ in names if n_ not in ga], True
    else:
        named, varkw = [], True
    head = (['_tag'] if dc['pos'] else []) + named + (['**_kw'] if varkw else [])
    src = ('def rec(%s):\n    _r = False if _failing else (dict(_ret) if _ret else _noval)\n'
           '    _log(dict(task=_name, kw=dict(dict(%s)%s), pos=[%s], ret=_r))\n    return _r\n') % (
        ', '.join(head), ', '.join('%s=%s' % (p, p) for p in named), ', **_kw' if varkw else '', '_tag' if dc['pos'] else '')
    ns = {'_log': log, '_name': name, '_ret': ret, '_failing': failing, '_noval': noval}
    exec(src, ns)
    return (ns['rec'], [name] if dc['pos'] else [], kwobj)


def judge_decl(sess, w, runs, out):
    """family 'shared', on top of Shadow.judge: the keywords a declared action received beyond getargs / meta-arguments"""
    for obs in runs:
        for l in obs['logged']:
            if 'kw' not in l:
                continue
            i = w.ids[l['task']]
            t = obs['live'][i]
            dc = t.get('decl')
            if not dc:
                continue
            od = sess['objs'][dc['obj']]
            declared = dict((pname(k), v) for k, v in od['content'])
            ga = {pname(a) for a, _, _ in t['getargs']}
            names = {pname(p) for p in t['params']}
            case = dict(session=sess['idx'], mode='shared', task=i, run=obs['run_no'], tasks=sess['tasks'], cmds=sess['cmds'], backend=sess['backend'],
                        objs=sess['objs'])
            users = [j for j, t2 in obs['live'].items() if (t2.get('decl') or {}).get('obj') == dc['obj']]
            out.count('shared:executed:%s:%s:%s' % (dc['sig'], 'dict-shared-by-%d-tasks' % len(users) if len(users) > 1 else 'own-dict',
                                                      'persistent' if od['persist'] else 'fresh-at-every-load'))
            if dc['pos']:
                out.count('shared:positional-argument')
                if l.get('pos') != [l['task']]:
                    out.violations.append(dict(what='%s: positional arguments %s, declared %s' % (l['task'], l.get('pos'), [l['task']]),
                                               shape='c10:kwargs-call-raised', case=case))
            for k, v in l['kw'].items():
                if k in ga or k in names:
                    continue
                if k in declared:
                    if v != declared[k]:
                        out.violations.append(dict(what='%s (run %d): the declared keyword %s=%r arrived as %r' % (l['task'], obs['run_no'], k, declared[k], v),
                                                   shape='c10:kwargs-declared-value-changed', case=case))
                    continue
                out.violations.append(dict(what='%s (run %d) received the keyword %s=%r, which is neither declared with its action, nor one of its getargs entries, nor a meta-argument its callable has a parameter for'
                                                % (l['task'], obs['run_no'], k, v), shape='c10:kwargs-foreign-keyword', case=case))
        # a consumer that was to be executed but whose action raised (e.g. an unexpected keyword left in a shared dict)
        for e, tn, x in obs['events']:
            if e == 'failure' and tn in w.ids and obs['live'][w.ids[tn]].get('decl') and x and x[0] == 'TaskError' and w.ids[tn] not in obs['cmd'][2]:
                out.violations.append(dict(what='%s (run %d): the declared python-action raised: %s' % (tn, obs['run_no'], x[1][-200:]), shape='c10:kwargs-call-raised',
                                           case=dict(session=sess['idx'], mode='shared', task=w.ids[tn], run=obs['run_no'], tasks=sess['tasks'], cmds=sess['cmds'],
                                                     backend=sess['backend'], objs=sess['objs'])))
