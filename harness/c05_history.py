"""C05, the HISTORY dimension: which tasks of a dependency chain are up-to-date (by their own inputs) in the run in
which a task fails.

A case is a small task graph (3-6 tasks) whose edges are of every kind the property names -- task_dep, file_dep on
another task's target, setup, getargs, calc_dep -- driven through the REAL command line (doit.doit_cmd.DoitMain, in
process for the serial and the thread runner; `python -m doit` in a subprocess for the process runner too) on the
three backends, with the history

  run 1   `doit`                    everything executes and is recorded as successful
  ------  the `<task>.in` file_dep of the tasks in `stale` is rewritten (all the other tasks stay up-to-date by their
          own inputs), one task `fail` is made to fail (return False / exception / TaskFailed / TaskError / a command
          exiting 1 / its file_dep vanishing during execution / missing before execution)
  run 2   `doit [--continue] [-n 2 -P thread|process]`
  ------  the failure is repaired, no input is touched
  run 3   `doit`

Oracle (from the property text and the DECLARED graph / inputs only; nothing the code under test computed is used):
  D = the tasks depending on the failed one in any way: least set with x in D when x has a task_dep / file-on-target /
      calc_dep edge to `fail` or to a member of D, or a setup / getargs edge to one of those AND x is stale (doit's
      documented rule: setup-tasks -- a getargs provider is a setup-task of the task -- only belong to the run of a task
      that is to be executed; a requirer that is up-to-date is legitimately skipped without looking at them).
  Dmax = the same with getargs edges counted always.  A task in Dmax - D is an up-to-date task taking getargs from the
      failure cone: whether doit skips it as up-to-date (provider not processed yet: its saved values are still there)
      or reports it unmet (provider already failed: its values are gone, the task is no longer up-to-date) depends on the
      processing order; both are consistent with the property text, so such a task and what hangs on it is only
      required not to contradict the clauses below for D.
  run 2 * no member of D executes, --continue or not, whichever members of the chain are up-to-date;
        * no member of D is reported up-to-date (one of its dependencies failed in this run);
        * the failure is reported, the exit code is not 0;
        * with --continue every task outside Dmax and other than `fail` is processed: executed when stale, otherwise
          executed or reported up-to-date;
        * without --continue the serial runner starts nothing after the failed task.
  run 3 * the failed task executes again;
        * every task whose input was rewritten and that did not execute in run 2 executes now (it must not have been
          recorded as successful for inputs it never ran with).
"""
import json, os, re, subprocess, sys

EDGE_KINDS = ['task_dep', 'file_edge', 'setup', 'getargs', 'calc_dep']
FAIL_KINDS = ['false', 'raise', 'taskfailed', 'taskerror', 'cmd-exit1', 'dep-vanishes', 'dep-missing-before']
BACKENDS = ['json', 'dbm', 'sqlite3']

DODO = r'''
import json, os
HERE = os.path.dirname(os.path.abspath(__file__))
SPEC = json.load(open(os.path.join(HERE, 'spec.json')))
DOIT_CONFIG = {'verbosity': 0}

def P(x):
    return os.path.join(HERE, x)

def fail_kind():
    return open(P('FAIL')).read().strip() if os.path.exists(P('FAIL')) else ''

def make_action(i):
    name = SPEC['names'][i]
    provides = any(e[1] == i and e[2] == 'file_edge' for e in SPEC['edges'])
    def act(**kw):
        with open(P('exec.log'), 'a') as log:
            log.write(name + '\n')
        if provides:
            with open(P(name + '.tgt'), 'w') as f:
                f.write('constant')
        kind = fail_kind() if i == SPEC['fail'] else ''
        if kind == 'false': return False
        if kind == 'raise': raise RuntimeError('boom')
        if kind == 'taskfailed':
            from doit.exceptions import TaskFailed
            return TaskFailed('f')
        if kind == 'taskerror':
            from doit.exceptions import TaskError
            return TaskError('e')
        if kind == 'dep-vanishes': os.remove(P(name + '.in'))
        return {'val': 'c%d' % i, 'file_dep': []}
    return act

def make_creator(i):
    name = SPEC['names'][i]
    def creator():
        d = {'actions': [make_action(i)], 'file_dep': [P(name + '.in')]}
        if i == SPEC['fail'] and fail_kind() == 'cmd-exit1':
            d['actions'].append('exit 1')
        if any(e[1] == i and e[2] == 'file_edge' for e in SPEC['edges']):
            d['targets'] = [P(name + '.tgt')]
        for u, v, kind in SPEC['edges']:
            if u != i:
                continue
            other = SPEC['names'][v]
            if kind == 'task_dep': d.setdefault('task_dep', []).append(other)
            elif kind == 'setup': d.setdefault('setup', []).append(other)
            elif kind == 'calc_dep': d.setdefault('calc_dep', []).append(other)
            elif kind == 'getargs': d.setdefault('getargs', {})['g%d' % v] = (other, 'val')
            elif kind == 'file_edge': d['file_dep'].append(P(other + '.tgt'))
        return d
    creator.__name__ = 'task_' + name
    return creator

for _i in sorted(range(len(SPEC['names'])), key=lambda j: SPEC['names'][j]):
    globals()['task_' + SPEC['names'][_i]] = make_creator(_i)
'''


def gen_spec(rng, mode, quick):
    """graph in 'logical' indices: an edge [u, v, kind] (u depends on v) always has u < v; the definition order of the
    tasks (= alphabetical order of the names) is a random permutation of them"""
    n = rng.choice([3, 4, 4, 5, 5, 6])
    perm = list(range(n)); rng.shuffle(perm)
    names = ['t%d' % perm[i] for i in range(n)]
    chain = rng.randrange(2, n + 1) if rng.random() < 0.85 else 1     # backbone 0 -> 1 -> ... -> chain-1
    pairs = {}
    for i in range(chain - 1):
        pairs[(i, i + 1)] = rng.choice(EDGE_KINDS + ['task_dep'])
    for u in range(n):
        for v in range(u + 1, n):
            if (u, v) not in pairs and rng.random() < 0.15:
                pairs[(u, v)] = rng.choice(EDGE_KINDS)
    edges = [[u, v, k] for (u, v), k in sorted(pairs.items())]
    fail = (chain - 1) if (chain >= 2 and rng.random() < 0.7) else rng.randrange(0, n)
    stale = [rng.random() < 0.5 for _ in range(n)]
    stale[fail] = True
    if mode == 'subprocess':
        runner = rng.choice(['serial', 'process', 'process', 'thread'])
    else:
        runner = rng.choice(['serial', 'thread'])
    return dict(part='history', names=names, edges=edges, fail=fail, stale=stale, fail_kind=rng.choice(FAIL_KINDS),
                cont=rng.random() < 0.75, runner=runner, backend=rng.choice(BACKENDS), mode=mode)


def dependents(spec, hard_getargs=False):
    """D (hard_getargs: Dmax) of the module docstring, from the declaration alone"""
    bad = {spec['fail']}
    changed = True
    while changed:
        changed = False
        for u, v, kind in spec['edges']:
            if u in bad or v not in bad:
                continue
            if (kind == 'setup' or (kind == 'getargs' and not hard_getargs)) and not spec['stale'][u]:
                continue
            bad.add(u); changed = True
    return bad - {spec['fail']}


def _args(spec, d, cont, runner):
    a = ['--backend', spec['backend'], '--db-file', os.path.join(d, 'db'), '-o', os.path.join(d, 'out.txt')]
    if cont:
        a.append('--continue')
    if runner != 'serial':
        a += ['-n', '2', '-P', runner]
    return a


def one_run(spec, d, cont=False, runner='serial'):
    """-> dict(rc, executed (in order), uptodate, failed {name: failure class}, out)"""
    for f in ('exec.log', 'out.txt'):
        if os.path.exists(os.path.join(d, f)):
            os.remove(os.path.join(d, f))
    args = _args(spec, d, cont, runner)
    if spec['mode'] == 'subprocess':
        import common
        env = dict(os.environ); env['PYTHONPATH'] = common.REPO if hasattr(common, 'REPO') else os.environ.get('VERIF_REPO', '/repo')
        env['PYTHONHASHSEED'] = '0'
        try:
            p = subprocess.run([sys.executable, '-m', 'doit', '-f', os.path.join(d, 'dodo.py'), '--dir', d] + args, cwd=d, env=env,
                               stdout=subprocess.PIPE, stderr=subprocess.STDOUT, universal_newlines=True, timeout=60)
            rc, extra = p.returncode, p.stdout
        except subprocess.TimeoutExpired:
            rc, extra = 98, 'timeout'
    else:
        from doit.doit_cmd import DoitMain
        from doit.cmd_base import ModuleTaskLoader
        so = (sys.stdout, sys.stderr)
        cwd = os.getcwd()
        extra = ''
        try:
            os.chdir(d)
            ns = {'__file__': os.path.join(d, 'dodo.py'), '__name__': 'dodo_c05_history'}
            exec(compile(DODO, os.path.join(d, 'dodo.py'), 'exec'), ns)
            rc = DoitMain(ModuleTaskLoader(ns)).run(['run'] + args)
        except BaseException as e:      # noqa: a broken implementation must show up as an outcome
            rc, extra = 98, repr(e)
        finally:
            sys.stdout, sys.stderr = so
            os.chdir(cwd)
    executed = open(os.path.join(d, 'exec.log')).read().split() if os.path.exists(os.path.join(d, 'exec.log')) else []
    out = open(os.path.join(d, 'out.txt')).read() if os.path.exists(os.path.join(d, 'out.txt')) else ''
    uptodate = [l[3:].strip() for l in out.splitlines() if l.startswith('-- ')]
    failed = {}
    for m in re.finditer(r'^(\w+) - taskid:(\S+)$', out, re.M):
        failed.setdefault(m.group(2), m.group(1))
    return dict(rc=rc, executed=executed, uptodate=uptodate, failed=failed, out=(out + extra)[-600:])


def run_history(spec, d):
    """drive the three runs; -> (observations, list of (shape, sentence))"""
    names = spec['names']; n = len(names); f = spec['fail']; kind = spec['fail_kind']
    clock = [1000]

    def write(name, content):
        clock[0] += 10
        p = os.path.join(d, name)
        with open(p, 'w') as fo:
            fo.write(content)
        os.utime(p, (clock[0], clock[0]))

    with open(os.path.join(d, 'spec.json'), 'w') as fo:
        json.dump(dict(names=names, edges=spec['edges'], fail=f), fo)
    with open(os.path.join(d, 'dodo.py'), 'w') as fo:
        fo.write(DODO)
    for nm in names:
        write(nm + '.in', 'v1')
    r1 = one_run(spec, d)
    for i in range(n):
        if spec['stale'][i]:
            write(names[i] + '.in', 'version two')
    if kind == 'dep-missing-before':
        os.remove(os.path.join(d, names[f] + '.in'))
    write('FAIL', kind)
    r2 = one_run(spec, d, cont=spec['cont'], runner=spec['runner'])
    os.remove(os.path.join(d, 'FAIL'))
    if kind in ('dep-vanishes', 'dep-missing-before'):
        write(names[f] + '.in', 'version two')
    r3 = one_run(spec, d)
    obs = dict(run1=r1, run2=r2, run3=r3)

    bad = []
    D = dependents(spec)
    Dmax = dependents(spec, hard_getargs=True)
    obs['depending_on_failed'] = sorted(names[i] for i in D)
    if r1['rc'] != 0 or sorted(r1['executed']) != sorted(names):
        return obs, [('history-setup', 'harness expectation broken: the first run of a fresh project gave exit %s, executed %s' % (r1['rc'], r1['executed']))]
    ex2, utd2 = r2['executed'], set(r2['uptodate'])
    where = '%s runner, %s backend, %s' % (spec['runner'], spec['backend'], '--continue' if spec['cont'] else 'no --continue')
    hist = 'history: every task succeeded before; now up-to-date by their own inputs: %s' % (sorted(names[i] for i in range(n) if not spec['stale'][i]) or 'none')
    if names[f] not in r2['failed'] or r2['rc'] == 0:
        bad.append(('failure-not-reported', 'task %s fails (%s) in run 2 but the run reports failures %s and exit code %s (%s)' % (names[f], kind, r2['failed'], r2['rc'], where)))
    if kind != 'dep-missing-before' and names[f] not in ex2:
        bad.append(('history-setup', 'harness expectation broken: the failing task %s (stale) was not executed in run 2: %s' % (names[f], ex2)))
    for x in sorted(D):
        if names[x] in ex2:
            bad.append(('dependent-of-failed-executed-history', 'task %s EXECUTED in the run in which %s failed (%s) although it depends on it (edges %s); %s (%s)' % (
                names[x], names[f], kind, _path(spec, x), hist, where)))
        if names[x] in utd2:
            bad.append(('dependent-of-failed-reported-up-to-date', 'task %s was reported UP-TO-DATE in the run in which %s, on which it depends (edges %s), failed (%s); %s (%s)' % (
                names[x], names[f], _path(spec, x), kind, hist, where)))
    if spec['cont'] and r2['rc'] in (1, 2):
        for x in range(n):
            if x in Dmax or x == f:
                continue
            if spec['stale'][x] and names[x] not in ex2:
                bad.append(('continue-skipped-independent-task-history', 'with --continue task %s (input rewritten, not depending on the failed task %s) was not executed in run 2: executed %s (%s)' % (names[x], names[f], ex2, where)))
            elif names[x] not in ex2 and names[x] not in utd2:
                bad.append(('continue-skipped-independent-task-history', 'with --continue task %s (not depending on the failed task %s) was neither executed nor reported up-to-date in run 2 (%s)' % (names[x], names[f], where)))
    if not spec['cont'] and spec['runner'] == 'serial' and names[f] in ex2 and ex2[-1] != names[f]:
        bad.append(('serial-continued-after-failure-history', 'without --continue the serial runner executed %s after the failure of %s' % (ex2[ex2.index(names[f]) + 1:], names[f])))
    # run 3
    if r3['rc'] == 98:
        bad.append(('history-run3-crash', 'run 3 crashed: %s' % r3['out'][-200:]))
    else:
        if names[f] not in r3['executed']:
            bad.append(('failed-task-skipped-next-run-history', 'task %s failed (%s) in run 2 but is not executed again in run 3: executed %s (%s)' % (names[f], kind, r3['executed'], where)))
        for x in range(n):
            if x != f and spec['stale'][x] and names[x] not in ex2 and names[x] not in r3['executed']:
                bad.append(('not-executed-yet-recorded', 'the input of task %s was rewritten before run 2, the task executed neither in run 2 (%s failed) nor in run 3: it is recorded as successful for inputs it never ran with (%s)' % (names[x], names[f], where)))
    return obs, bad


def _path(spec, x):
    """one declared chain from x to the failed task, as text"""
    D = dependents(spec) | {spec['fail']}
    out, cur, guard = [], x, 0
    while cur != spec['fail'] and guard < 10:
        guard += 1
        nxt = [(v, k) for u, v, k in spec['edges'] if u == cur and v in D and not (k in ('setup', 'getargs') and not spec['stale'][u])]
        if not nxt:
            break
        v, k = min(nxt, key=lambda p: (p[0] != spec['fail'], p[0]))
        out.append('%s -%s-> %s' % (spec['names'][cur], k, spec['names'][v])); cur = v
    return ', '.join(out)


def classify(spec):
    """key of the history dimension: how far the nearest up-to-date member of D is from the failure, etc."""
    D = dependents(spec)
    utd_in_D = sum(1 for x in D if not spec['stale'][x])
    kinds = tuple(sorted(set(k for u, v, k in spec['edges'] if u in D)))
    return len(D), utd_in_D, kinds


def part_history(ctx, out):
    n_in = ctx.n(110, 1500)
    n_sub = ctx.n(8, 120)
    total = deep = 0
    for idx in range(n_in + n_sub):
        mode = 'inprocess' if idx < n_in else 'subprocess'
        spec = gen_spec(ctx.rng, mode, ctx.quick)
        d = ctx.subdir('hist%d' % idx)
        try:
            obs, bad = run_history(spec, d)
        except Exception as e:      # noqa
            obs, bad = dict(crash=repr(e)), [('history-harness-crash', 'the history harness crashed: %r' % (e,))]
        total += 1
        nD, utdD, kinds = classify(spec)
        out.evaluations += 1
        out.count('history:%s:%s:%s' % (mode, spec['runner'], spec['backend']))
        out.count('history:fail-kind:%s' % spec['fail_kind'])
        out.count('history:dependents=%d,of-them-up-to-date=%d' % (min(nD, 3), min(utdD, 2)))
        for k in kinds:
            out.count('history:edge-into-failure-cone:%s' % k)
        if nD >= 1:
            out.nontrivial.add(('history', tuple(map(tuple, spec['edges'])), spec['fail'], tuple(spec['stale']), spec['fail_kind'], spec['cont'], spec['runner'], spec['backend'], mode))
        if nD >= 2 and utdD >= 1:
            deep += 1
        if total == 3:
            out.samples.append(dict(spec, observed=obs))
        for shape, what in bad:
            out.violations.append(dict(what=what, shape='c05:' + shape, case=dict(spec, observed=obs)))
    out.extra['history_cases'] = total
    out.extra['history_cases_chain_with_up_to_date_member'] = deep
    out.rule += ('; plus %d three-run histories on the real command line (DoitMain in process: serial / thread runner; `python -m doit` subprocess: also the process runner) x json/dbm/sqlite3: '
                 'random 3-6 task graphs over task_dep / file-on-target / setup / getargs / calc_dep edges, a random subset of the tasks up-to-date by their own inputs when one task fails in one of 7 ways, '
                 'with / without --continue (non-trivial: at least one task depends on the failed one; %d of them have a chain of >= 2 dependents one of which is up-to-date)' % (total, deep))


def replay_history(ctx, payload):
    spec = {k: v for k, v in payload.items() if k != 'observed'}
    d = ctx.subdir('replay_hist')
    obs, bad = run_history(spec, d)
    print(json.dumps(dict(spec=spec, observed=obs), indent=1))
    for shape, what in bad:
        print('VIOLATION c05:%s %s' % (shape, what))
    return 1 if bad else 0
